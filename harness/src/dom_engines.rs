//! Domain `engines` (C02, C03): small multi-statement / sequential designs, emitted both as Veryl
//! text (for the real analyzer + every `Config::all()` simulator engine) and as one protocol token
//! (for the Lean reference `vmodel sim` = `Sim.run`).
//!
//! Request line:  `e S<k> <vars> <decls> <stim>`
//!   vars  = `x8u,x4s,y16u,q8u,w3u,r8u`  kind letter (x input, y comb output, q registered output,
//!           w internal wire, r internal register) + decimal width + `s|u`; variable index = position
//!   decls = comma-separated Polish notation:
//!           `assign,<var>,<lo>,<w>,<expr>` | `comb,<n>,<stmt>*n` | `ff,<0|1>,<nr>,<stmt>*nr,<nb>,<stmt>*nb`
//!           stmt = `set,<var>,<lo>,<w>,<expr>` | `if,<expr>,<nt>,<stmt>*,<ne>,<stmt>*`
//!                | `case,<expr>,<narms>,(<label-expr>,<n>,<stmt>*)*,<nd>,<stmt>*` | `disp,<id>,<nargs>,<expr>*`
//!           expr = `v<i>` | `s<i>:<lo>:<w>` | `l<w>:<s|u>:<hex>` | operator names of `exprref`
//!   stim  = cycles separated by `/`; cycle = `r|s` then `:<hex>` per input (`p.m` = payload.mask, 4-state only)
//! impl.txt: `i2a=<trace>,i2b=…,j2a=…,j2b=…,i4a=…,i4b=…,j4a=…,j4b=…,cca=…,ccb=…` or `rejected:<why>`
//!   trace = cycles `/`-separated; cycle = observed values (`y`,`q` vars in index order) `:`-separated,
//!           value = payload hex, `.mask` hex appended if any bit is X/Z; `~text` = `$display` output of
//!           the cycle (space→`_`, newline→`;`); whole-trace failures: `panic@file:line`, `err`, `abort`.
//! `--toggles "VERYL_X=0,…"` sets the optimisation toggles (process-global `OnceLock`s) before
//! anything touches the simulator (C03: one process per toggle set).
//! `--shrink FILE --vmodel PATH`: delta-debug failing lines against the reference.
use crate::rng::Rng;
use crate::util::{Log, Opts};
use std::io::{BufRead, BufReader, Write};
use std::panic;
use std::process::{Child, ChildStdin, ChildStdout, Command, Stdio};
use std::sync::Mutex;
use veryl_analyzer::ir as air;
use veryl_analyzer::{Analyzer, Context, symbol_table};
use veryl_metadata::Metadata;
use veryl_parser::Parser;
use veryl_simulator::Simulator;
use veryl_simulator::ir::{Config, Value, build_ir};

// ───────────────────────── bit vectors as hex ─────────────────────────

fn hex_to_words(h: &str, width: usize) -> Vec<u64> {
    let n = width.div_ceil(64).max(1);
    let mut w = vec![0u64; n];
    for (i, c) in h.bytes().rev().enumerate() {
        let d = (c as char).to_digit(16).unwrap_or(0) as u64;
        if i / 16 < n {
            w[i / 16] |= d << (4 * (i % 16));
        }
    }
    mask_words(&mut w, width);
    w
}

fn mask_words(w: &mut [u64], width: usize) {
    for (i, x) in w.iter_mut().enumerate() {
        if i * 64 >= width {
            *x = 0;
        } else if width - i * 64 < 64 {
            *x &= (1u64 << (width - i * 64)) - 1;
        }
    }
}

fn words_to_hex(w: &[u64]) -> String {
    let mut s = String::new();
    for x in w.iter().rev() {
        if s.is_empty() {
            if *x != 0 {
                s = format!("{x:x}");
            }
        } else {
            s.push_str(&format!("{x:016x}"));
        }
    }
    if s.is_empty() { "0".into() } else { s }
}

/// `p` or `p.m` (hex) → simulator value of `width` bits
fn to_value(pm: &str, width: usize) -> Value {
    let (p, m) = pm.split_once('.').unwrap_or((pm, "0"));
    let pw = hex_to_words(p, width);
    let mw = hex_to_words(m, width);
    let pb: Vec<u8> = pw.iter().flat_map(|x| x.to_le_bytes()).collect();
    let mb: Vec<u8> = mw.iter().flat_map(|x| x.to_le_bytes()).collect();
    Value::from_le_bytes(&pb, &mb, width, false)
}

fn bytes_to_hex(b: &[u8]) -> String {
    let mut s = String::new();
    for x in b.iter().rev() {
        if s.is_empty() {
            if *x != 0 {
                s = format!("{x:x}");
            }
        } else {
            s.push_str(&format!("{x:02x}"));
        }
    }
    if s.is_empty() { "0".into() } else { s }
}

/// payload hex, `.mask` hex appended iff some bit is X/Z
fn canon_value(v: &Value) -> String {
    let p = bytes_to_hex(&v.payload().to_bytes_le());
    let m = bytes_to_hex(&v.mask_xz().to_bytes_le());
    if m == "0" { p } else { format!("{p}.{m}") }
}

// ───────────────────────── design AST ─────────────────────────

#[derive(Clone, Copy, PartialEq, Eq, Debug)]
enum Kind {
    In,
    OutComb,
    OutReg,
    Wire,
    Reg,
    /// `let name: type = expr;` (a combinational variable defined at its declaration)
    Let,
}

impl Kind {
    fn letter(self) -> char {
        match self {
            Kind::In => 'x',
            Kind::OutComb => 'y',
            Kind::OutReg => 'q',
            Kind::Wire => 'w',
            Kind::Reg => 'r',
            Kind::Let => 'l',
        }
    }
    fn of(c: char) -> Option<Kind> {
        Some(match c {
            'x' => Kind::In,
            'y' => Kind::OutComb,
            'q' => Kind::OutReg,
            'w' => Kind::Wire,
            'r' => Kind::Reg,
            'l' => Kind::Let,
            _ => return None,
        })
    }
    fn is_reg(self) -> bool {
        matches!(self, Kind::OutReg | Kind::Reg)
    }
    fn is_comb(self) -> bool {
        matches!(self, Kind::OutComb | Kind::Wire | Kind::Let)
    }
    fn observed(self) -> bool {
        matches!(self, Kind::OutComb | Kind::OutReg)
    }
}

#[derive(Clone, PartialEq, Debug)]
struct Var {
    kind: Kind,
    width: usize,
    signed: bool,
}

#[derive(Clone, PartialEq, Debug)]
enum E {
    Var(usize),
    Sel(usize, usize, usize),
    Lit(usize, bool, String),
    Un(&'static str, Box<E>),
    Bin(&'static str, Box<E>, Box<E>),
    Ite(Box<E>, Box<E>, Box<E>),
    Cat(Box<E>, Box<E>),
}

const UN: &[(&str, &str)] = &[
    ("pos", "+"), ("neg", "-"), ("not", "~"), ("lnot", "!"), ("rand", "&"), ("ror", "|"), ("rxor", "^"), ("rnand", "~&"),
    ("rnor", "~|"), ("rxnor", "~^"),
];
const BIN: &[(&str, &str)] = &[
    ("add", "+"), ("sub", "-"), ("mul", "*"), ("div", "/"), ("mod", "%"), ("and", "&"), ("or", "|"), ("xor", "^"),
    ("xnor", "~^"), ("eq", "=="), ("ne", "!="), ("lt", "<:"), ("le", "<="), ("gt", ">:"), ("ge", ">="), ("shl", "<<"),
    ("shr", ">>"), ("ashl", "<<<"), ("ashr", ">>>"), ("land", "&&"), ("lor", "||"),
];
const ARITH: &[&str] = &["add", "sub", "mul", "div", "mod", "and", "or", "xor", "xnor"];
const SHIFT: &[&str] = &["shl", "shr", "ashl", "ashr"];

#[derive(Clone, PartialEq, Debug)]
enum S {
    Set(usize, usize, usize, E),
    /// `var[idx*w +: w] = e` (run-time index; `w = 1`: `var[idx] = e`)
    SetD(usize, usize, E, E),
    If(E, Vec<S>, Vec<S>),
    Case(E, Vec<(E, Vec<S>)>, Vec<S>),
    Disp(usize, Vec<E>),
}

#[derive(Clone, PartialEq, Debug)]
enum D {
    Assign(usize, usize, usize, E),
    Comb(Vec<S>),
    Ff(bool, Vec<S>, Vec<S>),
}

#[derive(Clone, PartialEq, Debug)]
struct Case {
    stratum: String,
    vars: Vec<Var>,
    decls: Vec<D>,
    /// (is_reset, one `p[.m]` hex per input)
    stim: Vec<(bool, Vec<String>)>,
}

fn vname(vars: &[Var], i: usize) -> String {
    format!("{}{}", vars[i].kind.letter(), i)
}

impl E {
    fn polish(&self, out: &mut Vec<String>) {
        match self {
            E::Var(i) => out.push(format!("v{i}")),
            E::Sel(i, lo, w) => out.push(format!("s{i}:{lo}:{w}")),
            E::Lit(w, s, v) => out.push(format!("l{w}:{}:{v}", if *s { "s" } else { "u" })),
            E::Un(op, a) => {
                out.push(op.to_string());
                a.polish(out)
            }
            E::Bin(op, a, b) => {
                out.push(op.to_string());
                a.polish(out);
                b.polish(out)
            }
            E::Ite(c, a, b) => {
                out.push("ite".into());
                c.polish(out);
                a.polish(out);
                b.polish(out)
            }
            E::Cat(a, b) => {
                out.push("cat".into());
                a.polish(out);
                b.polish(out)
            }
        }
    }
    fn veryl(&self, vars: &[Var]) -> String {
        match self {
            E::Var(i) => vname(vars, *i),
            E::Sel(i, lo, w) => {
                if *w == 1 {
                    format!("{}[{}]", vname(vars, *i), lo)
                } else {
                    format!("{}[{}:{}]", vname(vars, *i), lo + w - 1, lo)
                }
            }
            E::Lit(w, s, v) => format!("{w}'{}h{v}", if *s { "s" } else { "" }),
            E::Un(op, a) => format!("({}{})", UN.iter().find(|x| x.0 == *op).unwrap().1, a.veryl(vars)),
            E::Bin(op, a, b) => format!("({} {} {})", a.veryl(vars), BIN.iter().find(|x| x.0 == *op).unwrap().1, b.veryl(vars)),
            E::Ite(x, a, b) => format!("(if {} ? {} : {})", x.veryl(vars), a.veryl(vars), b.veryl(vars)),
            E::Cat(a, b) => format!("{{{}, {}}}", a.veryl(vars), b.veryl(vars)),
        }
    }
    fn size(&self, vars: &[Var]) -> usize {
        match self {
            E::Var(i) => vars[*i].width,
            E::Sel(_, _, w) => *w,
            E::Lit(w, _, _) => *w,
            E::Un(op, a) => if ["pos", "neg", "not"].contains(op) { a.size(vars) } else { 1 },
            E::Bin(op, a, b) => {
                if ARITH.contains(op) { a.size(vars).max(b.size(vars)) } else if SHIFT.contains(op) { a.size(vars) } else { 1 }
            }
            E::Ite(_, a, b) => a.size(vars).max(b.size(vars)),
            E::Cat(a, b) => a.size(vars) + b.size(vars),
        }
    }
    fn sgn(&self, vars: &[Var]) -> bool {
        match self {
            E::Var(i) => vars[*i].signed,
            E::Sel(..) => false,
            E::Lit(_, s, _) => *s,
            E::Un(op, a) => ["pos", "neg", "not"].contains(op) && a.sgn(vars),
            E::Bin(op, a, b) => {
                if ARITH.contains(op) { a.sgn(vars) && b.sgn(vars) } else if SHIFT.contains(op) { a.sgn(vars) } else { false }
            }
            E::Ite(_, a, b) => a.sgn(vars) && b.sgn(vars),
            E::Cat(_, _) => false,
        }
    }
    fn root(&self) -> &str {
        match self {
            E::Var(_) => "var",
            E::Sel(..) => "sel",
            E::Lit(..) => "lit",
            E::Un(op, _) | E::Bin(op, _, _) => op,
            E::Ite(..) => "ite",
            E::Cat(..) => "cat",
        }
    }
    fn children(&self) -> Vec<&E> {
        match self {
            E::Var(_) | E::Sel(..) | E::Lit(..) => vec![],
            E::Un(_, a) => vec![a],
            E::Bin(_, a, b) | E::Cat(a, b) => vec![a, b],
            E::Ite(c, a, b) => vec![c, a, b],
        }
    }
    fn nodes(&self) -> usize {
        1 + self.children().iter().map(|c| c.nodes()).sum::<usize>()
    }
    fn reads(&self, out: &mut Vec<usize>) {
        match self {
            E::Var(i) | E::Sel(i, _, _) => out.push(*i),
            _ => self.children().iter().for_each(|c| c.reads(out)),
        }
    }
    fn has_op(&self, ops: &[&str]) -> bool {
        ops.contains(&self.root()) || self.children().iter().any(|c| c.has_op(ops))
    }
    /// every expression obtained by replacing one node by one of its children / a small literal
    fn shrinks(&self, vars: &[Var]) -> Vec<E> {
        let mut out = vec![];
        for c in self.children() {
            out.push(c.clone());
        }
        if !matches!(self, E::Lit(..)) {
            let w = self.size(vars).clamp(1, 64);
            out.push(E::Lit(w, false, "0".into()));
            out.push(E::Lit(w, false, "1".into()));
        }
        if let E::Lit(w, s, v) = self {
            if v != "0" {
                out.push(E::Lit(*w, *s, "0".into()));
            }
            if *w > 1 && hex_to_words(v, *w).iter().skip(1).all(|x| *x == 0) && hex_to_words(v, *w)[0] < 2 {
                out.push(E::Lit(1, false, v.clone()));
            }
        }
        match self {
            E::Un(op, a) => {
                for x in a.shrinks(vars) {
                    out.push(E::Un(op, Box::new(x)));
                }
            }
            E::Bin(op, a, b) => {
                for x in a.shrinks(vars) {
                    out.push(E::Bin(op, Box::new(x), b.clone()));
                }
                for x in b.shrinks(vars) {
                    out.push(E::Bin(op, a.clone(), Box::new(x)));
                }
            }
            E::Cat(a, b) => {
                for x in a.shrinks(vars) {
                    out.push(E::Cat(Box::new(x), b.clone()));
                }
                for x in b.shrinks(vars) {
                    out.push(E::Cat(a.clone(), Box::new(x)));
                }
            }
            E::Ite(c, a, b) => {
                for x in c.shrinks(vars) {
                    out.push(E::Ite(Box::new(x), a.clone(), b.clone()));
                }
                for x in a.shrinks(vars) {
                    out.push(E::Ite(c.clone(), Box::new(x), b.clone()));
                }
                for x in b.shrinks(vars) {
                    out.push(E::Ite(c.clone(), a.clone(), Box::new(x)));
                }
            }
            _ => {}
        }
        out
    }
    /// rewrite variable references (shrinking: width changes, variable removal)
    fn map_leaves(&self, f: &dyn Fn(&E) -> E) -> E {
        match self {
            E::Var(_) | E::Sel(..) | E::Lit(..) => f(self),
            E::Un(op, a) => E::Un(op, Box::new(a.map_leaves(f))),
            E::Bin(op, a, b) => E::Bin(op, Box::new(a.map_leaves(f)), Box::new(b.map_leaves(f))),
            E::Cat(a, b) => E::Cat(Box::new(a.map_leaves(f)), Box::new(b.map_leaves(f))),
            E::Ite(c, a, b) => E::Ite(Box::new(c.map_leaves(f)), Box::new(a.map_leaves(f)), Box::new(b.map_leaves(f))),
        }
    }
}

fn parse_expr(t: &[&str], pos: &mut usize) -> Option<E> {
    let tok = *t.get(*pos)?;
    *pos += 1;
    if let Some(op) = UN.iter().find(|x| x.0 == tok) {
        return Some(E::Un(op.0, Box::new(parse_expr(t, pos)?)));
    }
    if let Some(op) = BIN.iter().find(|x| x.0 == tok) {
        let a = parse_expr(t, pos)?;
        let b = parse_expr(t, pos)?;
        return Some(E::Bin(op.0, Box::new(a), Box::new(b)));
    }
    match tok {
        "ite" => {
            let c = parse_expr(t, pos)?;
            let a = parse_expr(t, pos)?;
            let b = parse_expr(t, pos)?;
            Some(E::Ite(Box::new(c), Box::new(a), Box::new(b)))
        }
        "cat" => {
            let a = parse_expr(t, pos)?;
            let b = parse_expr(t, pos)?;
            Some(E::Cat(Box::new(a), Box::new(b)))
        }
        _ => {
            if let Some(r) = tok.strip_prefix('v') {
                return r.parse().ok().map(E::Var);
            }
            if let Some(r) = tok.strip_prefix('s') {
                let p: Vec<&str> = r.split(':').collect();
                if p.len() != 3 {
                    return None;
                }
                return Some(E::Sel(p[0].parse().ok()?, p[1].parse().ok()?, p[2].parse().ok()?));
            }
            if let Some(r) = tok.strip_prefix('l') {
                let p: Vec<&str> = r.split(':').collect();
                if p.len() != 3 || !p[2].bytes().all(|c| c.is_ascii_hexdigit()) || p[2].is_empty() {
                    return None;
                }
                let s = match p[1] {
                    "s" => true,
                    "u" => false,
                    _ => return None,
                };
                return Some(E::Lit(p[0].parse().ok()?, s, p[2].to_string()));
            }
            None
        }
    }
}

fn parse_num(t: &[&str], pos: &mut usize) -> Option<usize> {
    let r = t.get(*pos)?.parse().ok()?;
    *pos += 1;
    Some(r)
}

fn parse_stmts(t: &[&str], pos: &mut usize) -> Option<Vec<S>> {
    let n = parse_num(t, pos)?;
    if n > 10_000 {
        return None;
    }
    let mut v = vec![];
    for _ in 0..n {
        v.push(parse_stmt(t, pos)?);
    }
    Some(v)
}

fn parse_stmt(t: &[&str], pos: &mut usize) -> Option<S> {
    let tok = *t.get(*pos)?;
    *pos += 1;
    match tok {
        "set" => {
            let v = parse_num(t, pos)?;
            let lo = parse_num(t, pos)?;
            let w = parse_num(t, pos)?;
            Some(S::Set(v, lo, w, parse_expr(t, pos)?))
        }
        "setd" => {
            let v = parse_num(t, pos)?;
            let w = parse_num(t, pos)?;
            let i = parse_expr(t, pos)?;
            Some(S::SetD(v, w, i, parse_expr(t, pos)?))
        }
        "if" => {
            let c = parse_expr(t, pos)?;
            let a = parse_stmts(t, pos)?;
            let b = parse_stmts(t, pos)?;
            Some(S::If(c, a, b))
        }
        "case" => {
            let sel = parse_expr(t, pos)?;
            let n = parse_num(t, pos)?;
            let mut arms = vec![];
            for _ in 0..n {
                let l = parse_expr(t, pos)?;
                arms.push((l, parse_stmts(t, pos)?));
            }
            Some(S::Case(sel, arms, parse_stmts(t, pos)?))
        }
        "disp" => {
            let id = parse_num(t, pos)?;
            let n = parse_num(t, pos)?;
            let mut a = vec![];
            for _ in 0..n {
                a.push(parse_expr(t, pos)?);
            }
            Some(S::Disp(id, a))
        }
        _ => None,
    }
}

impl S {
    fn polish(&self, out: &mut Vec<String>) {
        match self {
            S::Set(v, lo, w, e) => {
                out.extend(["set".to_string(), v.to_string(), lo.to_string(), w.to_string()]);
                e.polish(out);
            }
            S::SetD(v, w, i, e) => {
                out.extend(["setd".to_string(), v.to_string(), w.to_string()]);
                i.polish(out);
                e.polish(out);
            }
            S::If(c, a, b) => {
                out.push("if".into());
                c.polish(out);
                polish_stmts(a, out);
                polish_stmts(b, out);
            }
            S::Case(sel, arms, d) => {
                out.push("case".into());
                sel.polish(out);
                out.push(arms.len().to_string());
                for (l, b) in arms {
                    l.polish(out);
                    polish_stmts(b, out);
                }
                polish_stmts(d, out);
            }
            S::Disp(id, args) => {
                out.extend(["disp".to_string(), id.to_string(), args.len().to_string()]);
                args.iter().for_each(|a| a.polish(out));
            }
        }
    }
    fn veryl(&self, vars: &[Var], ind: usize, out: &mut String) {
        let pad = " ".repeat(ind);
        match self {
            S::Set(v, lo, w, e) => {
                out.push_str(&format!("{pad}{} = {};\n", lhs_text(vars, *v, *lo, *w), e.veryl(vars)));
            }
            S::SetD(v, w, i, e) => {
                let sel = if *w == 1 { i.veryl(vars) } else { format!("{} * {w}+:{w}", i.veryl(vars)) };
                out.push_str(&format!("{pad}{}[{sel}] = {};\n", vname(vars, *v), e.veryl(vars)));
            }
            S::If(c, a, b) => {
                out.push_str(&format!("{pad}if {} {{\n", c.veryl(vars)));
                a.iter().for_each(|s| s.veryl(vars, ind + 4, out));
                if !b.is_empty() {
                    out.push_str(&format!("{pad}}} else {{\n"));
                    b.iter().for_each(|s| s.veryl(vars, ind + 4, out));
                }
                out.push_str(&format!("{pad}}}\n"));
            }
            S::Case(sel, arms, d) => {
                out.push_str(&format!("{pad}case {} {{\n", sel.veryl(vars)));
                for (l, b) in arms {
                    out.push_str(&format!("{pad}    {}: {{\n", l.veryl(vars)));
                    b.iter().for_each(|s| s.veryl(vars, ind + 8, out));
                    out.push_str(&format!("{pad}    }}\n"));
                }
                out.push_str(&format!("{pad}    default: {{\n"));
                d.iter().for_each(|s| s.veryl(vars, ind + 8, out));
                out.push_str(&format!("{pad}    }}\n{pad}}}\n"));
            }
            S::Disp(id, args) => {
                let fmt: String = std::iter::once(format!("d{id}")).chain(args.iter().map(|_| "%h".to_string())).collect::<Vec<_>>().join(" ");
                let a: String = args.iter().map(|a| format!(", {}", a.veryl(vars))).collect();
                out.push_str(&format!("{pad}$display(\"{fmt}\"{a});\n"));
            }
        }
    }
    fn exprs(&self) -> Vec<&E> {
        match self {
            S::Set(_, _, _, e) => vec![e],
            S::SetD(_, _, i, e) => vec![i, e],
            S::If(c, a, b) => std::iter::once(c).chain(a.iter().flat_map(|s| s.exprs())).chain(b.iter().flat_map(|s| s.exprs())).collect(),
            S::Case(sel, arms, d) => std::iter::once(sel)
                .chain(arms.iter().flat_map(|(l, b)| std::iter::once(l).chain(b.iter().flat_map(|s| s.exprs()))))
                .chain(d.iter().flat_map(|s| s.exprs()))
                .collect(),
            S::Disp(_, a) => a.iter().collect(),
        }
    }
    fn count(&self) -> usize {
        match self {
            S::Set(..) | S::SetD(..) | S::Disp(..) => 1,
            S::If(_, a, b) => 1 + stmts_count(a) + stmts_count(b),
            S::Case(_, arms, d) => 1 + arms.iter().map(|(_, b)| stmts_count(b)).sum::<usize>() + stmts_count(d),
        }
    }
    fn map_exprs(&self, f: &dyn Fn(&E) -> E) -> S {
        match self {
            S::Set(v, lo, w, e) => S::Set(*v, *lo, *w, f(e)),
            S::SetD(v, w, i, e) => S::SetD(*v, *w, f(i), f(e)),
            S::If(c, a, b) => S::If(f(c), a.iter().map(|s| s.map_exprs(f)).collect(), b.iter().map(|s| s.map_exprs(f)).collect()),
            S::Case(sel, arms, d) => S::Case(
                f(sel),
                arms.iter().map(|(l, b)| (f(l), b.iter().map(|s| s.map_exprs(f)).collect())).collect(),
                d.iter().map(|s| s.map_exprs(f)).collect(),
            ),
            S::Disp(id, a) => S::Disp(*id, a.iter().map(f).collect()),
        }
    }
}

fn stmts_count(v: &[S]) -> usize {
    v.iter().map(|s| s.count()).sum()
}

fn polish_stmts(v: &[S], out: &mut Vec<String>) {
    out.push(v.len().to_string());
    v.iter().for_each(|s| s.polish(out));
}

fn lhs_text(vars: &[Var], v: usize, lo: usize, w: usize) -> String {
    if lo == 0 && w == vars[v].width {
        vname(vars, v)
    } else if w == 1 {
        format!("{}[{}]", vname(vars, v), lo)
    } else {
        format!("{}[{}:{}]", vname(vars, v), lo + w - 1, lo)
    }
}

impl D {
    fn polish(&self, out: &mut Vec<String>) {
        match self {
            D::Assign(v, lo, w, e) => {
                out.extend(["assign".to_string(), v.to_string(), lo.to_string(), w.to_string()]);
                e.polish(out);
            }
            D::Comb(b) => {
                out.push("comb".into());
                polish_stmts(b, out);
            }
            D::Ff(has_reset, r, b) => {
                out.extend(["ff".to_string(), (*has_reset as u8).to_string()]);
                polish_stmts(r, out);
                polish_stmts(b, out);
            }
        }
    }
    fn stmts(&self) -> Vec<&S> {
        match self {
            D::Assign(..) => vec![],
            D::Comb(b) => b.iter().collect(),
            D::Ff(_, r, b) => r.iter().chain(b.iter()).collect(),
        }
    }
    fn exprs(&self) -> Vec<&E> {
        match self {
            D::Assign(_, _, _, e) => vec![e],
            _ => self.stmts().iter().flat_map(|s| s.exprs()).collect(),
        }
    }
    fn map_exprs(&self, f: &dyn Fn(&E) -> E) -> D {
        match self {
            D::Assign(v, lo, w, e) => D::Assign(*v, *lo, *w, f(e)),
            D::Comb(b) => D::Comb(b.iter().map(|s| s.map_exprs(f)).collect()),
            D::Ff(h, r, b) => D::Ff(*h, r.iter().map(|s| s.map_exprs(f)).collect(), b.iter().map(|s| s.map_exprs(f)).collect()),
        }
    }
}

impl Case {
    fn line(&self) -> String {
        let vars: Vec<String> = self.vars.iter().map(|v| format!("{}{}{}", v.kind.letter(), v.width, if v.signed { "s" } else { "u" })).collect();
        let mut d = vec![];
        self.decls.iter().for_each(|x| x.polish(&mut d));
        if d.is_empty() {
            d.push("none".into());
        }
        let stim: Vec<String> = self
            .stim
            .iter()
            .map(|(r, vals)| std::iter::once(if *r { "r".to_string() } else { "s".to_string() }).chain(vals.iter().cloned()).collect::<Vec<_>>().join(":"))
            .collect();
        format!("e {} {} {} {}", self.stratum, vars.join(","), d.join(","), stim.join("/"))
    }
    fn parse(line: &str) -> Option<Case> {
        let t: Vec<&str> = line.split(' ').filter(|x| !x.is_empty()).collect();
        if t.len() != 5 || t[0] != "e" {
            return None;
        }
        let mut vars = vec![];
        for v in t[2].split(',') {
            let mut ch = v.chars();
            let kind = Kind::of(ch.next()?)?;
            let rest: String = ch.collect();
            let signed = match rest.chars().last()? {
                's' => true,
                'u' => false,
                _ => return None,
            };
            let width: usize = rest[..rest.len() - 1].parse().ok()?;
            if width == 0 || width > 4096 {
                return None;
            }
            vars.push(Var { kind, width, signed });
        }
        let toks: Vec<&str> = t[3].split(',').collect();
        let mut decls = vec![];
        let mut pos = 0;
        if toks != ["none"] {
            while pos < toks.len() {
                let k = toks[pos];
                pos += 1;
                decls.push(match k {
                    "assign" => {
                        let v = parse_num(&toks, &mut pos)?;
                        let lo = parse_num(&toks, &mut pos)?;
                        let w = parse_num(&toks, &mut pos)?;
                        D::Assign(v, lo, w, parse_expr(&toks, &mut pos)?)
                    }
                    "comb" => D::Comb(parse_stmts(&toks, &mut pos)?),
                    "ff" => {
                        let h = parse_num(&toks, &mut pos)? != 0;
                        let r = parse_stmts(&toks, &mut pos)?;
                        let b = parse_stmts(&toks, &mut pos)?;
                        D::Ff(h, r, b)
                    }
                    _ => return None,
                });
            }
        }
        let nin = vars.iter().filter(|v| v.kind == Kind::In).count();
        let mut stim = vec![];
        for c in t[4].split('/') {
            let p: Vec<&str> = c.split(':').collect();
            let r = match p[0] {
                "r" => true,
                "s" => false,
                _ => return None,
            };
            if p.len() != nin + 1 {
                return None;
            }
            for x in &p[1..] {
                if x.is_empty() || !x.bytes().all(|c| c.is_ascii_hexdigit() || c == b'.') {
                    return None;
                }
            }
            stim.push((r, p[1..].iter().map(|x| x.to_string()).collect()));
        }
        let c = Case { stratum: t[1].to_string(), vars, decls, stim };
        (c.well_scoped() && c.lets_ok() && c.dyn_ok()).then_some(c)
    }
    /// every reference is to a declared variable and every range lies inside it
    fn well_scoped(&self) -> bool {
        let n = self.vars.len();
        let ok_e = |e: &E| {
            let mut ok = true;
            fn walk(e: &E, vars: &[Var], ok: &mut bool) {
                match e {
                    E::Var(i) => *ok &= *i < vars.len(),
                    E::Sel(i, lo, w) => *ok &= *i < vars.len() && *w > 0 && lo + w <= vars[*i].width,
                    E::Lit(w, _, _) => *ok &= *w > 0,
                    _ => e.children().iter().for_each(|c| walk(c, vars, ok)),
                }
            }
            walk(e, &self.vars, &mut ok);
            ok
        };
        fn ok_s(s: &S, vars: &[Var]) -> bool {
            match s {
                S::Set(v, lo, w, _) => *v < vars.len() && *w > 0 && lo + w <= vars[*v].width,
                S::SetD(v, w, _, _) => *v < vars.len() && *w > 0 && *w <= vars[*v].width,
                S::If(_, a, b) => a.iter().chain(b.iter()).all(|s| ok_s(s, vars)),
                S::Case(_, arms, d) => arms.iter().flat_map(|(_, b)| b.iter()).chain(d.iter()).all(|s| ok_s(s, vars)),
                S::Disp(..) => true,
            }
        }
        self.decls.iter().all(|d| {
            d.exprs().iter().all(|e| ok_e(e))
                && d.stmts().iter().all(|s| ok_s(s, &self.vars))
                && match d {
                    D::Assign(v, lo, w, _) => *v < n && *w > 0 && lo + w <= self.vars[*v].width,
                    _ => true,
                }
        })
    }
    /// every combinational variable that is read or observed is driven on all its bits by
    /// unconditional top-level assignments (no latches, no undriven nets)
    fn fully_driven(&self) -> bool {
        let n = self.vars.len();
        let mut cover: Vec<Vec<bool>> = self.vars.iter().map(|v| vec![false; v.width]).collect();
        for d in &self.decls {
            match d {
                D::Assign(v, lo, w, _) => (*lo..lo + w).for_each(|b| cover[*v][b] = true),
                D::Comb(b) => {
                    for s in b {
                        if let S::Set(v, lo, w, _) = s {
                            (*lo..lo + w).for_each(|b| cover[*v][b] = true)
                        }
                    }
                }
                D::Ff(..) => {}
            }
        }
        let mut needed = vec![false; n];
        for (i, v) in self.vars.iter().enumerate() {
            needed[i] = v.kind == Kind::OutComb;
        }
        for d in &self.decls {
            for e in d.exprs() {
                let mut r = vec![];
                e.reads(&mut r);
                r.iter().for_each(|i| needed[*i] = true);
            }
            // a conditional or partial writer needs the rest of the variable to be defined
            fn writes(s: &S, out: &mut Vec<usize>) {
                match s {
                    S::Set(v, ..) | S::SetD(v, ..) => out.push(*v),
                    S::If(_, a, b) => a.iter().chain(b.iter()).for_each(|x| writes(x, out)),
                    S::Case(_, arms, d) => arms.iter().flat_map(|x| x.1.iter()).chain(d.iter()).for_each(|x| writes(x, out)),
                    S::Disp(..) => {}
                }
            }
            if let D::Comb(b) = d {
                let mut w = vec![];
                b.iter().for_each(|s| writes(s, &mut w));
                w.iter().for_each(|i| needed[*i] = true);
            }
            if let D::Assign(v, ..) = d {
                needed[*v] = true;
            }
        }
        (0..n).all(|i| !self.vars[i].kind.is_comb() || !needed[i] || cover[i].iter().all(|b| *b))
    }
    /// every `let` variable is defined by exactly one whole-variable `assign`
    fn lets_ok(&self) -> bool {
        (0..self.vars.len()).filter(|i| self.vars[*i].kind == Kind::Let).all(|i| {
            let defs: Vec<&D> = self.decls.iter().filter(|d| matches!(d, D::Assign(v, ..) if *v == i)).collect();
            let other = self.decls.iter().any(|d| {
                fn w(s: &S, i: usize) -> bool {
                    match s {
                        S::Set(v, ..) | S::SetD(v, ..) => *v == i,
                        S::If(_, a, b) => a.iter().chain(b.iter()).any(|x| w(x, i)),
                        S::Case(_, arms, d) => arms.iter().flat_map(|x| x.1.iter()).chain(d.iter()).any(|x| w(x, i)),
                        S::Disp(..) => false,
                    }
                }
                d.stmts().iter().any(|s| w(s, i))
            });
            defs.len() == 1 && !other && matches!(defs[0], D::Assign(_, lo, w, _) if *lo == 0 && *w == self.vars[i].width)
        })
    }
    /// every run-time indexed store stays inside its variable for every index value
    fn dyn_ok(&self) -> bool {
        fn ok(s: &S, vars: &[Var]) -> bool {
            match s {
                S::SetD(v, w, i, _) => {
                    let k = i.size(vars);
                    k <= 16 && w * (1usize << k) <= vars[*v].width && !i.sgn(vars)
                }
                S::If(_, a, b) => a.iter().chain(b.iter()).all(|x| ok(x, vars)),
                S::Case(_, arms, d) => arms.iter().flat_map(|x| x.1.iter()).chain(d.iter()).all(|x| ok(x, vars)),
                _ => true,
            }
        }
        self.decls.iter().all(|d| d.stmts().iter().all(|s| ok(s, &self.vars)))
    }
    fn veryl(&self) -> String {
        let vars = &self.vars;
        let mut s = String::from("module Top (\n    clk: input clock,\n    rst: input reset,\n");
        for (i, v) in vars.iter().enumerate() {
            let ty = format!("{}logic<{}>", if v.signed { "signed " } else { "" }, v.width);
            match v.kind {
                Kind::In => s.push_str(&format!("    {}: input {ty},\n", vname(vars, i))),
                Kind::OutComb | Kind::OutReg => s.push_str(&format!("    {}: output {ty},\n", vname(vars, i))),
                _ => {}
            }
        }
        s.push_str(") {\n");
        for (i, v) in vars.iter().enumerate() {
            if matches!(v.kind, Kind::Wire | Kind::Reg) {
                s.push_str(&format!("    var {}: {}logic<{}>;\n", vname(vars, i), if v.signed { "signed " } else { "" }, v.width));
            }
        }
        for (i, v) in vars.iter().enumerate() {
            if v.kind == Kind::Let
                && let Some(D::Assign(_, _, _, e)) = self.decls.iter().find(|d| matches!(d, D::Assign(x, ..) if *x == i))
            {
                s.push_str(&format!("    let {}: {}logic<{}> = {};\n", vname(vars, i), if v.signed { "signed " } else { "" }, v.width, e.veryl(vars)));
            }
        }
        for d in &self.decls {
            match d {
                D::Assign(v, ..) if vars[*v].kind == Kind::Let => {}
                D::Assign(v, lo, w, e) => s.push_str(&format!("    assign {} = {};\n", lhs_text(vars, *v, *lo, *w), e.veryl(vars))),
                D::Comb(b) => {
                    s.push_str("    always_comb {\n");
                    b.iter().for_each(|x| x.veryl(vars, 8, &mut s));
                    s.push_str("    }\n");
                }
                D::Ff(h, r, b) => {
                    s.push_str("    always_ff {\n");
                    if *h {
                        s.push_str("        if_reset {\n");
                        r.iter().for_each(|x| x.veryl(vars, 12, &mut s));
                        s.push_str("        } else {\n");
                        b.iter().for_each(|x| x.veryl(vars, 12, &mut s));
                        s.push_str("        }\n");
                    } else {
                        b.iter().for_each(|x| x.veryl(vars, 8, &mut s));
                    }
                    s.push_str("    }\n");
                }
            }
        }
        s.push_str("}\n");
        s
    }
    fn inputs(&self) -> Vec<usize> {
        (0..self.vars.len()).filter(|i| self.vars[*i].kind == Kind::In).collect()
    }
    fn observed(&self) -> Vec<usize> {
        (0..self.vars.len()).filter(|i| self.vars[*i].kind.observed()).collect()
    }
    fn has_x_stim(&self) -> bool {
        self.stim.iter().any(|(_, v)| v.iter().any(|x| x.contains('.')))
    }
    fn max_width(&self) -> usize {
        let mut m = self.vars.iter().map(|v| v.width).max().unwrap_or(1);
        for d in &self.decls {
            for e in d.exprs() {
                m = m.max(e.size(&self.vars));
            }
        }
        m
    }
}

// ───────────────────────── the real analyzer + engines ─────────────────────────

static LAST_PANIC: Mutex<String> = Mutex::new(String::new());

fn panic_loc() -> String {
    let s = LAST_PANIC.lock().map(|x| x.clone()).unwrap_or_default();
    if s.is_empty() { "panic@?".into() } else { format!("panic@{s}") }
}

fn install_hook() {
    panic::set_hook(Box::new(|info| {
        let loc = info
            .location()
            .map(|l| {
                let f = l.file();
                let f = f.strip_prefix("/repo/").unwrap_or(f);
                let f = match f.find("registry/src/") {
                    Some(i) => f[i + 13..].split_once('/').map(|x| x.1).unwrap_or(f),
                    None => f,
                };
                format!("{}:{}", f, l.line())
            })
            .unwrap_or_default();
        if let Ok(mut g) = LAST_PANIC.lock() {
            *g = loc;
        }
    }));
}

/// `Err(reason)` on parse error, analyzer error, or (unless `allow_warnings`) any warning other than
/// unused/unassigned variable (dead variables are generated on purpose).
fn analyze(code: &str, allow_warnings: bool) -> Result<(air::Ir, bool), String> {
    let r = panic::catch_unwind(panic::AssertUnwindSafe(|| {
        symbol_table::clear();
        let metadata = Metadata::create_default("prj").map_err(|_| "metadata".to_string())?;
        let parser = Parser::parse(code, &"").map_err(|_| "parse".to_string())?;
        let analyzer = Analyzer::new(&metadata);
        let mut context = Context::default();
        let mut ir = air::Ir::default();
        let mut errors = vec![];
        errors.append(&mut analyzer.analyze_pass1("prj", &parser.veryl));
        errors.append(&mut Analyzer::analyze_post_pass1());
        errors.append(&mut analyzer.analyze_pass2(&parser.veryl, &mut context, Some(&mut ir)));
        errors.append(&mut Analyzer::analyze_post_pass2(&ir));
        let errors: Vec<_> = errors
            .into_iter()
            .filter(|e| !matches!(e, veryl_analyzer::AnalyzerError::UnusedVariable { .. } | veryl_analyzer::AnalyzerError::UnassignVariable { .. }))
            .collect();
        let name = |e: &veryl_analyzer::AnalyzerError| {
            let name = format!("{e:?}");
            name.chars().take_while(|c| c.is_alphanumeric() || *c == '_').collect::<String>()
        };
        if let Some(e) = errors.iter().find(|e| e.is_error()) {
            return Err(format!("error:{}", name(e)));
        }
        if let Some(e) = errors.first()
            && !allow_warnings
        {
            return Err(format!("warning:{}", name(e)));
        }
        Ok((ir, !errors.is_empty()))
    }));
    match r {
        Ok(x) => x,
        Err(_) => Err(format!("analyzer-{}", panic_loc())),
    }
}

fn cfg_label(c: &Config) -> String {
    let class = if c.aot_c {
        "cc"
    } else {
        match (c.use_4state, c.use_jit) {
            (false, false) => "i2",
            (false, true) => "j2",
            (true, false) => "i4",
            (true, true) => "j4",
        }
    };
    format!("{class}{}", if c.disable_ff_opt { "b" } else { "a" })
}

/// `Config::all()` probes the C compiler by spawning it: ask once.
fn all_configs() -> Vec<Config> {
    static ALL: std::sync::OnceLock<Vec<Config>> = std::sync::OnceLock::new();
    ALL.get_or_init(Config::all).clone()
}

fn escape_display(s: &str) -> String {
    s.chars()
        .map(|c| match c {
            ' ' => '_',
            '\n' => ';',
            ',' | '/' | ':' | '=' | '~' => '?',
            c => c,
        })
        .collect()
}

/// One engine on one case: the trace, or `panic@…` / `err`.
fn run_engine(ir: &air::Ir, cfg: &Config, c: &Case) -> String {
    let ins = c.inputs();
    let obs = c.observed();
    let r = panic::catch_unwind(panic::AssertUnwindSafe(|| {
        let sir = match build_ir(ir, "Top".into(), cfg) {
            Ok(x) => x,
            Err(_) => return "err".to_string(),
        };
        veryl_simulator::output_buffer::enable();
        let mut sim = Simulator::new(sir, None);
        let (Some(clk), Some(rst)) = (sim.get_clock("clk"), sim.get_reset("rst")) else { return "err".to_string() };
        let mut cycles = vec![];
        for (is_reset, vals) in &c.stim {
            for (k, i) in ins.iter().enumerate() {
                sim.set(&vname(&c.vars, *i), to_value(&vals[k], c.vars[*i].width));
            }
            if *is_reset {
                sim.step_reset(&clk, &rst);
            } else {
                sim.step(&clk);
            }
            let mut outs = vec![];
            for o in &obs {
                match sim.get(&vname(&c.vars, *o)) {
                    Some(v) => outs.push(canon_value(&v)),
                    None => return "err".to_string(),
                }
            }
            let mut cyc = outs.join(":");
            let d = veryl_simulator::output_buffer::take();
            veryl_simulator::output_buffer::enable();
            if !d.is_empty() {
                cyc.push('~');
                cyc.push_str(&escape_display(&d));
            }
            cycles.push(cyc);
        }
        let _ = veryl_simulator::output_buffer::take();
        cycles.join("/")
    }));
    r.unwrap_or_else(|_| {
        let _ = veryl_simulator::output_buffer::take();
        panic_loc()
    })
}

/// All (selected) engines on one case, in this process.
fn eval_here(c: &Case, only: Option<&[String]>) -> String {
    let allow_warn = c.stratum == "S4";
    let (ir, _) = match analyze(&c.veryl(), allow_warn) {
        Ok(x) => x,
        Err(e) => return format!("rejected:{e}"),
    };
    let x_stim = c.has_x_stim();
    let mut parts = vec![];
    for cfg in all_configs() {
        let label = cfg_label(&cfg);
        if let Some(o) = only
            && !o.iter().any(|x| *x == label || *x == label[..2])
        {
            continue;
        }
        if x_stim && !cfg.use_4state {
            continue;
        }
        parts.push(format!("{label}={}", run_engine(&ir, &cfg, c)));
    }
    parts.join(",")
}

fn parse_only(opts: &Opts) -> Option<Vec<String>> {
    opts.get("only").map(|s| s.split(',').map(|x| x.to_string()).collect())
}

/// `hx engines --worker 1 [--only i2,j4a]`: one case line per stdin line, one reply line each.
fn worker_main(opts: &Opts) -> i32 {
    let only = parse_only(opts);
    let stdin = std::io::stdin();
    let mut out = std::io::stdout();
    for line in stdin.lock().lines() {
        let Ok(line) = line else { break };
        let r = match Case::parse(&line) {
            Some(c) => eval_here(&c, only.as_deref()),
            None => "bad-op".to_string(),
        };
        writeln!(out, "{r}").unwrap();
        out.flush().unwrap();
    }
    0
}

/// A child `hx engines --worker`: an engine that corrupts memory or aborts kills the worker, not
/// the harness.
struct Worker {
    child: Child,
    stdin: Option<ChildStdin>,
    stdout: BufReader<ChildStdout>,
}

impl Worker {
    /// `only` = engines; an optional `@TOGGLES` suffix sets optimisation toggles in the worker
    fn spawn(only: &str) -> Worker {
        let exe = std::env::current_exe().expect("current_exe");
        let mut cmd = Command::new(exe);
        cmd.arg("engines").arg("--worker").arg("1");
        let (only, toggles) = only.split_once('@').unwrap_or((only, ""));
        if !toggles.is_empty() {
            cmd.arg("--toggles").arg(toggles);
        }
        if !only.is_empty() {
            cmd.arg("--only").arg(only);
        }
        let mut child = cmd.stdin(Stdio::piped()).stdout(Stdio::piped()).stderr(Stdio::null()).spawn().expect("spawn worker");
        let stdin = child.stdin.take();
        let stdout = BufReader::new(child.stdout.take().unwrap());
        Worker { child, stdin, stdout }
    }
    fn ask(&mut self, line: &str) -> Option<String> {
        let si = self.stdin.as_mut()?;
        writeln!(si, "{line}").ok()?;
        si.flush().ok()?;
        let mut s = String::new();
        if self.stdout.read_line(&mut s).ok()? == 0 {
            return None;
        }
        Some(s.trim_end_matches('\n').to_string())
    }
}

impl Drop for Worker {
    fn drop(&mut self) {
        self.stdin = None;
        let _ = self.child.kill();
        let _ = self.child.wait();
    }
}

const ENGINE_CLASSES: &[&str] = &["i2", "j2", "i4", "j4", "cc"];

#[derive(Default)]
struct Pool {
    workers: std::collections::HashMap<String, Worker>,
    deaths: u64,
}

impl Pool {
    fn ask(&mut self, only: &str, line: &str) -> Option<String> {
        let w = self.workers.entry(only.to_string()).or_insert_with(|| Worker::spawn(only));
        let r = w.ask(line);
        if r.is_none() {
            self.workers.remove(only);
            self.deaths += 1;
        }
        r
    }
    /// All engines; if the worker dies, class by class in fresh workers (`abort` for the killers).
    fn eval(&mut self, line: &str, only: &str) -> String {
        if let Some(r) = self.ask(only, line) {
            return r;
        }
        if !only.is_empty() {
            let only = only.split_once('@').map(|x| x.0).unwrap_or(only);
            return only.split(',').map(|c| if c.len() == 2 { format!("{c}a=abort,{c}b=abort") } else { format!("{c}=abort") }).collect::<Vec<_>>().join(",");
        }
        let mut parts = vec![];
        for c in ENGINE_CLASSES {
            match self.ask(c, line) {
                Some(r) if r.starts_with("rejected") || r == "bad-op" => return r,
                Some(r) if r.is_empty() => {}
                Some(r) => parts.push(r),
                None => parts.push(format!("{c}a=abort,{c}b=abort")),
            }
        }
        parts.join(",")
    }
}

// ───────────────────────── generator ─────────────────────────

const W_SMALL: &[usize] = &[1, 1, 2, 3, 4, 7, 8, 8, 16, 31, 32, 33, 63, 64, 64];
const W_WIDE: &[usize] = &[65, 65, 100, 127, 128, 129, 129, 200, 256, 257, 300];

fn rand_value(r: &mut Rng, w: usize) -> String {
    let n = w.div_ceil(64);
    let mut v = vec![0u64; n];
    match r.below(10) {
        0 => {}
        1 => v[0] = 1,
        2 => v.iter_mut().for_each(|x| *x = u64::MAX),
        3 => v[(w - 1) / 64] = 1u64 << ((w - 1) % 64),
        4 => {
            v.iter_mut().for_each(|x| *x = u64::MAX);
            v[(w - 1) / 64] &= !(1u64 << ((w - 1) % 64));
        }
        5 => v.iter_mut().for_each(|x| *x = 0xAAAA_AAAA_AAAA_AAAA),
        6 => v[0] = r.below(16),
        _ => v.iter_mut().for_each(|x| *x = r.next()),
    }
    mask_words(&mut v, w);
    words_to_hex(&v)
}

struct Gen<'a> {
    r: &'a mut Rng,
    vars: Vec<Var>,
    level: u32,
    disp_id: usize,
}

impl Gen<'_> {
    fn pick_width(&mut self) -> usize {
        if self.level >= 3 && self.r.chance(1, 3) { *self.r.pick(W_WIDE) } else { *self.r.pick(W_SMALL) }
    }
    fn lit(&mut self, one_bit: bool) -> E {
        let w = if one_bit {
            1
        } else if self.level >= 3 && self.r.chance(1, 4) {
            *self.r.pick(&[70usize, 128, 129])
        } else {
            *self.r.pick(&[1usize, 4, 8, 32, 64])
        };
        let signed = self.level >= 1 && !one_bit && self.r.chance(1, 3);
        E::Lit(w, signed, rand_value(self.r, w))
    }
    fn var_leaf(&mut self, avail: &[usize]) -> E {
        let i = *self.r.pick(avail);
        let w = self.vars[i].width;
        if w >= 2 && self.r.chance(1, 4) {
            let sw = if self.r.chance(1, 2) { 1 } else { self.r.range(1, w as u64 - 1) as usize };
            let lo = self.r.range(0, (w - sw) as u64) as usize;
            E::Sel(i, lo, sw)
        } else {
            E::Var(i)
        }
    }
    fn leaf(&mut self, avail: &[usize]) -> E {
        if avail.is_empty() || self.r.chance(1, 6) { self.lit(false) } else { self.var_leaf(avail) }
    }
    /// a 1-bit unsigned expression (condition, operand of `!`, `&&`, `||`)
    fn bit(&mut self, depth: u32, avail: &[usize]) -> E {
        let e = self.bit_raw(depth, avail);
        if self.level < 4 && !has_var(&e) && !avail.is_empty() {
            return E::Un("ror", Box::new(self.var_leaf(avail)));
        }
        e
    }
    fn bit_raw(&mut self, depth: u32, avail: &[usize]) -> E {
        if depth == 0 {
            let ones: Vec<usize> = avail.iter().copied().filter(|i| self.vars[*i].width == 1 && !self.vars[*i].signed).collect();
            if !ones.is_empty() && self.r.chance(1, 2) {
                return E::Var(*self.r.pick(&ones));
            }
            if !avail.is_empty() && self.r.chance(1, 3) {
                let i = *self.r.pick(avail);
                let lo = self.r.below(self.vars[i].width as u64) as usize;
                if self.vars[i].width > 1 {
                    return E::Sel(i, lo, 1);
                }
            }
            let op = *self.r.pick(&["rand", "ror", "rxor", "rnand", "rnor", "rxnor"]);
            let l = if self.level < 4 && !avail.is_empty() { self.var_leaf(avail) } else { self.leaf(avail) };
            return E::Un(op, Box::new(l));
        }
        match self.r.below(10) {
            0..=4 => {
                let op = *self.r.pick(&["eq", "ne", "lt", "le", "gt", "ge"]);
                let (a, b) = (self.any(depth - 1, avail), self.any(depth - 1, avail));
                let (a, b) = if self.level < 4 && matches!(op, "lt" | "le" | "gt" | "ge") { (strip_unary(a), strip_unary(b)) } else { (a, b) };
                E::Bin(op, Box::new(a), Box::new(b))
            }
            5..=6 => {
                let op = *self.r.pick(&["rand", "ror", "rxor", "rnand", "rnor", "rxnor"]);
                E::Un(op, Box::new(self.any(depth - 1, avail)))
            }
            7 => E::Un("lnot", Box::new(self.bit(depth - 1, avail))),
            _ => {
                let op = *self.r.pick(&["land", "lor"]);
                E::Bin(op, Box::new(self.bit(depth - 1, avail)), Box::new(self.bit(depth - 1, avail)))
            }
        }
    }
    fn any(&mut self, depth: u32, avail: &[usize]) -> E {
        let e = self.any_raw(depth, avail);
        // an operator applied to constants only is folded by the analyzer (and evaluated differently
        // by some engines: a known defect class) — strata below S4 avoid it
        if self.level < 4 && !matches!(e, E::Lit(..)) && !has_var(&e) {
            return self.leaf(avail);
        }
        e
    }
    fn any_raw(&mut self, depth: u32, avail: &[usize]) -> E {
        if depth == 0 || self.r.chance(1, 5) {
            return self.leaf(avail);
        }
        match self.r.below(20) {
            0..=2 => {
                let op = *self.r.pick(&["not", "neg", "not", "neg", "pos"]);
                E::Un(op, Box::new(self.any(depth - 1, avail)))
            }
            3..=4 => self.bit(depth, avail),
            5..=6 => E::Ite(Box::new(self.bit(depth - 1, avail)), Box::new(self.any(depth - 1, avail)), Box::new(self.any(depth - 1, avail))),
            7..=8 => {
                let a = self.any(depth - 1, avail);
                let b = self.any(depth - 1, avail);
                // contexts wider than 64 bits belong to stratum S3 and above
                let cap = if self.level >= 3 { 4096 } else { 64 };
                if a.size(&self.vars) + b.size(&self.vars) > cap { a } else { E::Cat(Box::new(a), Box::new(b)) }
            }
            9..=11 => {
                let a = self.any(depth - 1, avail);
                let amount = match self.r.below(4) {
                    0 => E::Lit(8, false, format!("{:x}", self.r.below(70))),
                    1 => E::Lit(4, false, format!("{:x}", self.r.below(16))),
                    _ => self.any(depth - 1, avail),
                };
                let signed = a.sgn(&self.vars);
                let mut op = if (signed || self.level >= 4) && self.r.chance(1, 2) { *self.r.pick(&["ashr", "ashr", "ashl"]) } else { *self.r.pick(&["shl", "shr"]) };
                if self.level < 4 && matches!(a.root(), "not" | "neg") && matches!(op, "shr" | "ashr") {
                    op = "shl";
                }
                E::Bin(op, Box::new(a), Box::new(amount))
            }
            12 if self.level >= 4 => {
                // draws `invalid_logical_operand`
                let op = *self.r.pick(&["land", "lor"]);
                E::Bin(op, Box::new(self.any(depth - 1, avail)), Box::new(self.any(depth - 1, avail)))
            }
            _ => {
                let mut ops = vec!["add", "sub", "mul", "and", "or", "xor", "xnor", "add", "sub"];
                if self.level >= 2 {
                    ops.extend_from_slice(&["div", "mod", "div", "mod"]);
                }
                let op = *self.r.pick(&ops);
                let (a, b) = (self.any(depth - 1, avail), self.any(depth - 1, avail));
                let (a, b) = if self.level < 4 && matches!(op, "div" | "mod") { (strip_unary(a), strip_unary(b)) } else { (a, b) };
                E::Bin(op, Box::new(a), Box::new(b))
            }
        }
    }
    fn rhs(&mut self, avail: &[usize]) -> E {
        let depth = *self.r.pick(&[0u32, 1, 1, 2, 2, 3]);
        self.any(depth, avail)
    }
    /// a bare literal narrower/wider than its target is a constant definition that comb fusion
    /// duplicates into its readers with the literal's own width (known defect class): below S4 a
    /// literal right-hand side is sized to the target
    fn fit(&mut self, e: E, w: usize) -> E {
        match e {
            E::Lit(lw, s, v) if self.level < 4 && lw != w => {
                let _ = (lw, v);
                E::Lit(w, s && w > 1, rand_value(self.r, w))
            }
            e => e,
        }
    }
    /// comb fusion inlines a definition into its single reader with the width of the right-hand
    /// side, not of the variable (known defect class when the reader is width-sensitive): below S4
    /// the right-hand side of a combinational definition is as wide as its target
    fn widen(&mut self, e: E, w: usize, comb: bool) -> E {
        if comb && self.level < 4 && e.size(&self.vars) < w && !matches!(e, E::Lit(..)) {
            let s = e.sgn(&self.vars);
            return E::Bin("or", Box::new(e), Box::new(E::Lit(w, s && w > 1, "0".into())));
        }
        e
    }
    /// `t = e` on the whole variable or on a random range
    fn set(&mut self, t: usize, avail: &[usize], allow_part: bool) -> S {
        let comb = self.vars[t].kind.is_comb();
        let w = self.vars[t].width;
        let e = self.rhs(avail);
        if allow_part && w >= 2 && self.r.chance(1, 3) {
            let sw = self.r.range(1, w as u64 - 1) as usize;
            let lo = self.r.range(0, (w - sw) as u64) as usize;
            let e = self.fit(e, sw);
            let e = self.widen(e, sw, comb);
            S::Set(t, lo, sw, e)
        } else {
            let e = self.fit(e, w);
            let e = self.widen(e, w, comb);
            S::Set(t, 0, w, e)
        }
    }
    /// full-coverage default of `t`: one assignment or two abutting part assignments
    fn cover(&mut self, t: usize, avail: &[usize]) -> Vec<S> {
        let w = self.vars[t].width;
        if w >= 2 && self.r.chance(1, 5) {
            let mid = self.r.range(1, w as u64 - 1) as usize;
            let (a, b) = (self.rhs(avail), self.rhs(avail));
            let (a, b) = (self.fit(a, w - mid), self.fit(b, mid));
            let (a, b) = (self.widen(a, w - mid, true), self.widen(b, mid, true));
            vec![S::Set(t, mid, w - mid, a), S::Set(t, 0, mid, b)]
        } else {
            let a = self.rhs(avail);
            let a = self.fit(a, w);
            let a = self.widen(a, w, true);
            vec![S::Set(t, 0, w, a)]
        }
    }
    fn selector(&mut self, avail: &[usize]) -> E {
        // narrow selectors so that arms are hit
        let narrow: Vec<usize> = avail.iter().copied().filter(|i| self.vars[*i].width <= 3).collect();
        if !narrow.is_empty() && self.r.chance(1, 2) {
            return E::Var(*self.r.pick(&narrow));
        }
        if !avail.is_empty() && self.r.chance(3, 4) {
            let i = *self.r.pick(avail);
            let w = self.vars[i].width;
            let sw = (self.r.range(1, 3) as usize).min(w);
            let lo = self.r.range(0, (w - sw) as u64) as usize;
            if sw == w { E::Var(i) } else { E::Sel(i, lo, sw) }
        } else {
            let e = self.any(1, avail);
            if self.level < 4 && !has_var(&e) && !avail.is_empty() { self.var_leaf(avail) } else { e }
        }
    }
    fn labels(&mut self, sel: &E, n: usize) -> Vec<E> {
        let w = sel.size(&self.vars);
        let mut seen: Vec<String> = vec![];
        for _ in 0..n * 3 {
            let v = if w <= 3 { format!("{:x}", self.r.below(1 << w)) } else { rand_value(self.r, w) };
            if !seen.contains(&v) {
                seen.push(v);
            }
            if seen.len() == n {
                break;
            }
        }
        seen.into_iter().map(|v| E::Lit(w, false, v)).collect()
    }
    /// statements assigning targets `ts` (blocking in always_comb, nonblocking in always_ff)
    fn stmts(&mut self, depth: u32, ts: &[usize], avail: &[usize], ff: bool, n_max: u64) -> Vec<S> {
        let n = self.r.range(1, n_max);
        let mut out = vec![];
        for _ in 0..n {
            let k = if depth == 0 { 0 } else { self.r.below(if ff { 9 } else { 8 }) };
            match k {
                0..=3 => {
                    let t = *self.r.pick(ts);
                    out.push(self.set(t, avail, true));
                }
                4..=5 => {
                    let d0 = *self.r.pick(&[0u32, 1, 1, 2]);
                    let c = self.bit(d0, avail);
                    let a = self.stmts(depth - 1, ts, avail, ff, 3);
                    let b = if self.r.chance(1, 2) { self.stmts(depth - 1, ts, avail, ff, 3) } else { vec![] };
                    out.push(S::If(c, a, b));
                }
                6..=7 => {
                    let sel = self.selector(avail);
                    let na = self.r.range(1, 3) as usize;
                    let labels = self.labels(&sel, na);
                    let arms = labels.into_iter().map(|l| (l, self.stmts(depth - 1, ts, avail, ff, 2))).collect();
                    let d = if self.r.chance(3, 4) { self.stmts(depth - 1, ts, avail, ff, 2) } else { vec![] };
                    out.push(S::Case(sel, arms, d));
                }
                _ => {
                    let na = self.r.range(1, 2);
                    let narrow: Vec<usize> = avail.iter().copied().filter(|i| self.vars[*i].width <= 64).collect();
                    if narrow.is_empty() {
                        continue;
                    }
                    let args = (0..na).map(|_| self.var_leaf(&narrow)).collect();
                    self.disp_id += 1;
                    out.push(S::Disp(self.disp_id, args));
                }
            }
        }
        out
    }
}

/// `seq`: with registers and `always_ff`; otherwise purely combinational.
fn gen_design(r: &mut Rng, level: u32, seq: bool) -> Case {
    let mut g = Gen { r, vars: vec![], level, disp_id: 0 };
    let nin = g.r.range(1, 3) as usize;
    let nreg = if seq { g.r.range(1, 3) as usize } else { 0 };
    let ncomb = g.r.range(if seq { 0 } else { 1 }, 4) as usize;
    for _ in 0..nin {
        let w = g.pick_width();
        let s = level >= 1 && g.r.chance(1, 3);
        g.vars.push(Var { kind: Kind::In, width: w, signed: s });
    }
    for _ in 0..nreg {
        let w = g.pick_width();
        let s = level >= 1 && g.r.chance(1, 4);
        let kind = if g.r.chance(2, 3) { Kind::OutReg } else { Kind::Reg };
        g.vars.push(Var { kind, width: w, signed: s });
    }
    for _ in 0..ncomb {
        let w = g.pick_width();
        let s = level >= 1 && g.r.chance(1, 4);
        let kind = if g.r.chance(2, 3) { Kind::OutComb } else { Kind::Wire };
        g.vars.push(Var { kind, width: w, signed: s });
    }
    if !g.vars.iter().any(|v| v.kind.observed()) {
        let last = g.vars.len() - 1;
        g.vars[last].kind = if g.vars[last].kind.is_reg() { Kind::OutReg } else { Kind::OutComb };
        if g.vars[last].kind == Kind::In {
            g.vars.push(Var { kind: Kind::OutComb, width: 8, signed: false });
        }
    }
    if level >= 1 && !g.vars.iter().any(|v| v.signed) {
        let k = g.r.below(g.vars.len() as u64) as usize;
        g.vars[k].signed = true;
    }
    if level >= 3 && g.vars.iter().all(|v| v.width <= 64) {
        let k = g.r.below(g.vars.len() as u64) as usize;
        g.vars[k].width = *g.r.pick(W_WIDE);
    }
    let n = g.vars.len();
    let regs: Vec<usize> = (0..n).filter(|i| g.vars[*i].kind.is_reg()).collect();
    let combs: Vec<usize> = (0..n).filter(|i| g.vars[*i].kind.is_comb()).collect();
    let mut avail: Vec<usize> = (0..n).filter(|i| g.vars[*i].kind == Kind::In || g.vars[*i].kind.is_reg()).collect();
    let mut decls = vec![];
    // run-time indexed stores: `t[idx] = d` / `t[idx*W+:W] = e`, the index computed by a `let` / wire that
    // (in half of the designs) is used nowhere else; the target is W * 2^k bits wide so that every index is in range
    let mut hidden: Vec<usize> = vec![];
    let mut hidden_ff: Vec<usize> = vec![];
    let mut dyn_decls: Vec<D> = vec![];
    // only in strata S0–S2: with wide (S3) or X/constant-only (S4) material the engines' other known
    // defect classes interact with dynamic stores in ways that are not classified yet
    if level <= 2 && g.r.chance(1, 2) {
        let k = g.r.range(1, 3) as usize;
        let w = *g.r.pick(&[1usize, 1, 2, 3, 4, 4, 8]);
        let tw = w << k;
        let srcs: Vec<usize> = avail.iter().copied().filter(|i| g.vars[*i].width >= k && !g.vars[*i].signed).collect();
        if let Some(src) = (!srcs.is_empty()).then(|| *g.r.pick(&srcs)) {
            let ix = g.vars.len();
            let let_kind = if g.r.chance(2, 3) { Kind::Let } else { Kind::Wire };
            g.vars.push(Var { kind: let_kind, width: k, signed: false });
            let sw = g.vars[src].width;
            let lo = g.r.range(0, (sw - k) as u64) as usize;
            let ie = if sw == k { E::Var(src) } else { E::Sel(src, lo, k) };
            let ie = if g.r.chance(1, 3) && sw > k { E::Bin("xor", Box::new(ie), Box::new(E::Sel(src, (lo + 1).min(sw - k), k))) } else { ie };
            dyn_decls.push(D::Assign(ix, 0, k, ie));
            let index_only = g.r.chance(1, 2);
            let t = g.vars.len();
            let seq_t = seq && g.r.chance(1, 2);
            g.vars.push(Var { kind: if seq_t { Kind::OutReg } else { Kind::OutComb }, width: tw, signed: false });
            // right-hand sides: arithmetic on W-bit operands, so that carries/borrows leave the window
            let operand = |g: &mut Gen, avail: &[usize]| -> E {
                let c: Vec<usize> = avail.iter().copied().filter(|i| g.vars[*i].width >= w && !g.vars[*i].signed).collect();
                if c.is_empty() || g.r.chance(1, 4) {
                    return E::Lit(w, false, rand_value(g.r, w));
                }
                let i = *g.r.pick(&c);
                let lo = g.r.range(0, (g.vars[i].width - w) as u64) as usize;
                if g.vars[i].width == w { E::Var(i) } else { E::Sel(i, lo, w) }
            };
            let mut dyn_rhs = |g: &mut Gen, avail: &[usize]| -> E {
                if g.r.chance(2, 3) {
                    let op = *g.r.pick(&["add", "sub", "sub", "add", "mul"]);
                    let a = operand(g, avail);
                    let b = operand(g, avail);
                    if has_var(&a) || has_var(&b) { E::Bin(op, Box::new(a), Box::new(b)) } else { operand(g, avail) }
                } else {
                    let e = g.rhs(avail);
                    let e = g.fit(e, w);
                    // below S4 the right-hand side is not wider than the window (the JIT does not clip it: known class)
                    if g.level < 4 && e.size(&g.vars) > w { operand(g, avail) } else { e }
                }
            };
            let av = avail.clone();
            let mut body = vec![];
            let nst = g.r.range(1, 2);
            for _ in 0..nst {
                let st = S::SetD(t, w, E::Var(ix), dyn_rhs(&mut g, &av));
                if g.r.chance(1, 3) {
                    let c = g.bit(1, &av);
                    body.push(S::If(c, vec![st], vec![]));
                } else {
                    body.push(st);
                }
            }
            if seq_t {
                let rl = E::Lit(tw.min(64), false, rand_value(g.r, tw.min(64)));
                dyn_decls.push(D::Ff(true, vec![S::Set(t, 0, tw, rl)], body));
            } else {
                let d0 = g.rhs(&av);
                let d0 = g.fit(d0, tw);
                let d0 = g.widen(d0, tw, true);
                let mut b = vec![S::Set(t, 0, tw, d0)];
                b.extend(body);
                dyn_decls.push(D::Comb(b));
            }
            if index_only {
                hidden.push(ix);
            } else if let_kind == Kind::Let && level < 4 {
                // a `let` used as a run-time index AND read by an always_ff is hoisted and read stale (known class)
                hidden_ff.push(ix);
            }
        }
    }
    // combinational part, in dependency order
    let _ = &hidden_ff;
    let mut k = 0;
    while k < combs.len() {
        let t = combs[k];
        if g.r.chance(1, 2) {
            for s in g.cover(t, &avail.clone()) {
                if let S::Set(v, lo, w, e) = s {
                    decls.push(D::Assign(v, lo, w, e));
                }
            }
            avail.push(t);
            k += 1;
        } else {
            let m = if k + 1 < combs.len() && g.r.chance(1, 3) { 2 } else { 1 };
            let ts: Vec<usize> = combs[k..k + m].to_vec();
            let mut body = vec![];
            let mut inner = avail.clone();
            for t in &ts {
                body.extend(g.cover(*t, &inner.clone()));
                // reading a target after its default exercises blocking read-after-write
                if g.r.chance(1, 3) {
                    inner.push(*t);
                }
            }
            let depth = *g.r.pick(&[1u32, 2, 2]);
            body.extend(g.stmts(depth, &ts, &inner.clone(), false, 3));
            decls.push(D::Comb(body));
            avail.extend(ts);
            k += m;
        }
    }
    // sequential part
    if !regs.is_empty() {
        let split = if regs.len() >= 2 && g.r.chance(1, 3) { g.r.range(1, regs.len() as u64 - 1) as usize } else { regs.len() };
        for ts in [&regs[..split], &regs[split..]] {
            if ts.is_empty() {
                continue;
            }
            let has_reset = level < 4 || g.r.chance(3, 4);
            let mut rst = vec![];
            if has_reset {
                for t in ts {
                    if level >= 4 && g.r.chance(1, 6) {
                        continue;
                    }
                    let w = g.vars[*t].width;
                    rst.push(S::Set(*t, 0, w, E::Lit(w.min(64), false, rand_value(g.r, w.min(64)))));
                }
            }
            let all: Vec<usize> = (0..g.vars.len()).filter(|i| !hidden.contains(i) && !hidden_ff.contains(i)).collect();
            let depth = *g.r.pick(&[0u32, 1, 2, 2]);
            let body = g.stmts(depth, ts, &all, true, 4);
            decls.push(D::Ff(has_reset && !rst.is_empty(), rst, body));
        }
    }
    decls.extend(dyn_decls);
    // declaration order is irrelevant to the semantics: shuffle
    for i in (1..decls.len()).rev() {
        let j = g.r.below(i as u64 + 1) as usize;
        decls.swap(i, j);
    }
    let vars = g.vars.clone();
    let mut c = Case { stratum: format!("S{level}"), vars, decls, stim: vec![] };
    c.stim = gen_stimulus(r, &c, if seq { 8 } else { 4 });
    c
}

fn gen_stimulus(r: &mut Rng, c: &Case, cycles: usize) -> Vec<(bool, Vec<String>)> {
    let ins = c.inputs();
    // S4: one design in five is driven with X/Z on its inputs (4-state engines only)
    let xz = c.stratum == "S4" && r.chance(1, 5);
    (0..cycles)
        .map(|k| {
            let reset = if k == 0 { c.stratum != "S4" || r.chance(3, 4) } else { r.chance(1, 12) };
            let vals = ins
                .iter()
                .map(|i| {
                    let w = c.vars[*i].width;
                    let p = rand_value(r, w);
                    if xz && r.chance(1, 2) {
                        let m = rand_value(r, w);
                        if m == "0" { p } else { format!("{p}.{m}") }
                    } else {
                        p
                    }
                })
                .collect();
            (reset, vals)
        })
        .collect()
}

// ───────────────────────── judging a reply ─────────────────────────

const E2: &[&str] = &["i2a", "i2b", "j2a", "j2b", "cca", "ccb"];
const E4: &[&str] = &["i4a", "i4b", "j4a", "j4b"];

fn is_failure_trace(t: &str) -> bool {
    t.starts_with("panic@") || t == "err" || t == "abort"
}

fn parse_reply(r: &str) -> Vec<(String, String)> {
    r.split(',').filter_map(|p| p.split_once('=')).map(|(a, b)| (a.to_string(), b.to_string())).collect()
}

/// cycles → (values, display)
fn split_trace(t: &str) -> Vec<(Vec<String>, String)> {
    t.split('/')
        .map(|c| {
            let (v, d) = c.split_once('~').unwrap_or((c, ""));
            (v.split(':').map(|x| x.to_string()).collect(), d.to_string())
        })
        .collect()
}

fn majority<'a>(traces: &[(&'a str, &'a str)]) -> Option<&'a str> {
    let mut best: Option<(&str, usize)> = None;
    for (_, t) in traces {
        if is_failure_trace(t) {
            continue;
        }
        let n = traces.iter().filter(|(_, u)| u == t).count();
        if best.is_none_or(|b| n > b.1) {
            best = Some((t, n));
        }
    }
    best.map(|b| b.0)
}

fn has_x(v: &str) -> bool {
    v.contains('.') || v.contains('x') || v.contains('X') || v.contains('z') || v.contains('Z')
}

/// Deviations of one reply: (engine label, kind). `model` = `r2=<trace> r4=<trace>` of `vmodel sim`
/// (a value `dc` in r2 = some divisor was zero: the 2-state engines may legitimately differ from
/// the reference there; r4 values with `.mask` = X/Z reaches the port).
fn judge(reply: &str, model: Option<&str>) -> Vec<(String, String)> {
    let eng = parse_reply(reply);
    let mut out: Vec<(String, String)> = vec![];
    for (l, t) in &eng {
        if is_failure_trace(t) {
            out.push((l.clone(), t.clone()));
        }
    }
    let (mut r2, mut r4) = (None, None);
    if let Some(m) = model {
        for p in m.split(' ') {
            if let Some(x) = p.strip_prefix("r2=") {
                r2 = Some(split_trace(x));
            }
            if let Some(x) = p.strip_prefix("r4=") {
                r4 = Some(split_trace(x));
            }
        }
    }
    let e2: Vec<(&str, &str)> = eng.iter().filter(|(l, _)| E2.contains(&l.as_str())).map(|(l, t)| (l.as_str(), t.as_str())).collect();
    let e4: Vec<(&str, &str)> = eng.iter().filter(|(l, _)| E4.contains(&l.as_str())).map(|(l, t)| (l.as_str(), t.as_str())).collect();
    let m2 = majority(&e2).map(split_trace);
    let m4 = majority(&e4).map(split_trace);
    // 2-state engines: equal to the reference wherever it is defined; equal to each other elsewhere
    for (l, t) in &e2 {
        if is_failure_trace(t) {
            continue;
        }
        let tr = split_trace(t);
        let mut kind: Option<&str> = None;
        if let Some(r2) = &r2 {
            if r2.len() != tr.len() {
                kind = Some("value");
            } else {
                for (k, (vals, disp)) in tr.iter().enumerate() {
                    let (rv, rd) = &r2[k];
                    if rv.len() != vals.len() {
                        kind = Some("value");
                        break;
                    }
                    for (a, b) in vals.iter().zip(rv.iter()) {
                        if b != "dc" && a != b {
                            kind = Some("value");
                        }
                    }
                    if !rd.contains("dc") && rd != disp {
                        kind = Some(if kind == Some("value") { "value" } else { "display" });
                    }
                }
            }
        }
        if kind.is_none()
            && let Some(m) = &m2
            && *m != tr
        {
            match &r2 {
                // no reference: any deviation from the majority
                None => kind = Some("value"),
                // the reference leaves a value open (a divisor was zero): the engines must still agree
                Some(r2) => {
                    for (k, (vals, disp)) in tr.iter().enumerate() {
                        if k >= m.len() || k >= r2.len() {
                            break;
                        }
                        for (j, a) in vals.iter().enumerate() {
                            if r2[k].0.get(j).is_some_and(|b| b == "dc") && m[k].0.get(j) != Some(a) {
                                kind = Some("div0");
                            }
                        }
                        if r2[k].1.contains("dc") && m[k].1 != *disp {
                            kind = Some("div0");
                        }
                    }
                }
            }
        }
        if let Some(k) = kind {
            out.push((l.to_string(), k.to_string()));
        }
    }
    // 4-state engines: identical to each other (X/Z included); equal to the reference on every
    // port/cycle where the reference is X-free
    for (l, t) in &e4 {
        if is_failure_trace(t) {
            continue;
        }
        let tr = split_trace(t);
        let mut kind: Option<&str> = None;
        // bit by bit against the 4-state reference (which is the embedding of the 2-state reference whenever no
        // X/Z comes in and no operator manufactures X: Props/C02.four_state_refines_two_state): every bit that
        // both the engine and the reference report as known must agree
        if let Some(r4) = &r4 {
            if r4.len() != tr.len() {
                kind = Some("value");
            } else {
                for (k, (vals, disp)) in tr.iter().enumerate() {
                    if vals.len() != r4[k].0.len() {
                        kind = Some("value");
                        break;
                    }
                    for (a, b) in vals.iter().zip(r4[k].0.iter()) {
                        if !known_bits_agree(a, b) {
                            kind = Some("value");
                        }
                    }
                    if !has_x(disp) && !has_x(&r4[k].1) && r4[k].1 != *disp {
                        kind = Some(if kind == Some("value") { "value" } else { "display" });
                    }
                }
            }
        } else if let Some(m) = &m2 {
            // no reference: heuristic for baselining only — cycles where this engine shows no X
            for (k, (vals, _)) in tr.iter().enumerate() {
                if k < m.len() && !vals.iter().any(|v| has_x(v)) && *vals != m[k].0 && tr[..=k].iter().all(|c| !c.0.iter().any(|v| has_x(v))) {
                    kind = Some("value");
                }
            }
        }
        if kind.is_none() {
            // mutual disagreement (X/Z included): if some 4-state engine reproduces the reference
            // exactly, the others deviate; otherwise everything off the majority does
            let exact = r4.as_ref().filter(|r| e4.iter().any(|(_, u)| !is_failure_trace(u) && split_trace(u) == **r));
            let arbiter = exact.or(m4.as_ref());
            if let Some(m) = arbiter
                && *m != tr
                && e4.iter().any(|(_, u)| !is_failure_trace(u) && *u != *t)
            {
                kind = Some("value4");
            }
        }
        if let Some(k) = kind {
            out.push((l.to_string(), k.to_string()));
        }
    }
    out.sort();
    out.dedup();
    out
}

/// `a`, `b` = `payload[.mask]` hex: the bits known in both agree
fn known_bits_agree(a: &str, b: &str) -> bool {
    let split = |v: &str| -> (Vec<u64>, Vec<u64>) {
        let (p, m) = v.split_once('.').unwrap_or((v, "0"));
        let w = 4 * p.len().max(m.len()).max(1);
        (hex_to_words(p, w), hex_to_words(m, w))
    };
    let (pa, ma) = split(a);
    let (pb, mb) = split(b);
    let n = pa.len().max(pb.len());
    let g = |v: &Vec<u64>, i: usize| v.get(i).copied().unwrap_or(0);
    (0..n).all(|i| (g(&pa, i) ^ g(&pb, i)) & !g(&ma, i) & !g(&mb, i) == 0)
}

fn show_failures(f: &[(String, String)]) -> String {
    if f.is_empty() { "ok".into() } else { format!("fail {}", f.iter().map(|(l, k)| format!("{l}:{k}")).collect::<Vec<_>>().join(",")) }
}

// ───────────────────────── modes ─────────────────────────

fn stats_of(c: &Case, log: &mut Log) {
    log.count(&format!("stratum.{}", c.stratum));
    log.count(if c.decls.iter().any(|d| matches!(d, D::Ff(..))) { "design.sequential" } else { "design.combinational" });
    for v in &c.vars {
        log.count(&format!("var.{}", v.kind.letter()));
        log.count(&format!("width.{}", match v.width { 1 => "1", 2..=8 => "2-8", 9..=32 => "9-32", 33..=64 => "33-64", 65..=128 => "65-128", _ => ">128" }));
        if v.signed {
            log.count("var.signed");
        }
    }
    fn st(s: &S, log: &mut Log, vars: &[Var]) {
        match s {
            S::Set(v, lo, w, _) => log.count(if *lo == 0 && *w == vars[*v].width { "stmt.set" } else { "stmt.set-part" }),
            S::SetD(_, w, _, _) => log.count(if *w == 1 { "stmt.set-dyn-bit" } else { "stmt.set-dyn-part" }),
            S::If(_, a, b) => {
                log.count(if b.is_empty() { "stmt.if" } else { "stmt.if-else" });
                a.iter().chain(b.iter()).for_each(|x| st(x, log, vars));
            }
            S::Case(_, arms, d) => {
                log.count("stmt.case");
                arms.iter().flat_map(|(_, b)| b.iter()).chain(d.iter()).for_each(|x| st(x, log, vars));
            }
            S::Disp(..) => log.count("stmt.display"),
        }
    }
    fn ex(e: &E, log: &mut Log) {
        log.count(&format!("op.{}", e.root()));
        e.children().iter().for_each(|c| ex(c, log));
    }
    for d in &c.decls {
        log.count(match d {
            D::Assign(..) => "decl.assign",
            D::Comb(_) => "decl.always_comb",
            D::Ff(true, ..) => "decl.always_ff-reset",
            D::Ff(false, ..) => "decl.always_ff",
        });
        d.stmts().iter().for_each(|s| st(s, log, &c.vars));
        d.exprs().iter().for_each(|e| ex(e, log));
    }
    log.add("cycles", c.stim.len() as u64);
    log.add("cycles.reset", c.stim.iter().filter(|s| s.0).count() as u64);
}

fn run_lines(lines: &[String], log: &mut Log, only: &str) {
    let mut pool = Pool::default();
    for l in lines {
        let Some(c) = Case::parse(l) else {
            log.push(l.clone(), "bad-op".into());
            continue;
        };
        let r = pool.eval(l, only);
        if r.starts_with("rejected") {
            log.count(&format!("{}.{}", c.stratum, r.replace(':', ".")));
        } else {
            log.count(&format!("{}.accepted", c.stratum));
            stats_of(&c, log);
            if r.contains("=abort") {
                log.count("engine.abort");
            }
            if r.contains("=panic@") {
                log.count("engine.panic");
            }
            if r.contains('~') {
                log.count("design.with-display-output");
            }
            log.sample(format!("{l} => {}", r.chars().take(200).collect::<String>()));
        }
        log.push(l.clone(), r);
    }
    log.add("worker.deaths", pool.deaths);
}

fn apply_toggles(opts: &Opts) {
    if let Some(t) = opts.get("toggles") {
        for kv in t.split(',').filter(|x| !x.is_empty()) {
            if let Some((k, v)) = kv.split_once('=') {
                // SAFETY: single-threaded, before anything reads the environment
                unsafe { std::env::set_var(k, v) };
            }
        }
    }
}

fn read_lines(path: &str) -> Vec<String> {
    std::fs::read_to_string(path).unwrap_or_default().lines().map(|s| s.to_string()).filter(|s| !s.trim().is_empty()).collect()
}

pub fn main(opts: &Opts) -> i32 {
    apply_toggles(opts);
    if std::env::var_os("VERYL_AOT_C_NICE").is_none() {
        unsafe { std::env::set_var("VERYL_AOT_C_NICE", "0") };
    }
    install_hook();
    if opts.get("worker").is_some() {
        return worker_main(opts);
    }
    if let Some(f) = opts.get("emit") {
        for l in read_lines(f) {
            match Case::parse(&l) {
                Some(c) => println!("// {l}\n{}", c.veryl()),
                None => println!("// bad-op: {l}"),
            }
        }
        return 0;
    }
    if let Some(d) = opts.get("judge") {
        let ops = read_lines(&format!("{d}/ops.txt"));
        let imp = read_lines(&format!("{d}/impl.txt"));
        let model = read_lines(&format!("{d}/model.txt"));
        let with_model = opts.get("nomodel").is_none();
        if imp.len() != ops.len() || (with_model && model.len() != ops.len()) {
            eprintln!("judge: stream lengths differ: ops {} impl {} model {}", ops.len(), imp.len(), model.len());
            return 1;
        }
        let mut out = String::new();
        for k in 0..ops.len() {
            let v = if imp[k].starts_with("rejected") || imp[k] == "bad-op" {
                if with_model && (model[k] == "bad-op") != (imp[k] == "bad-op") { "fail wellformedness:model".to_string() } else { "skip".to_string() }
            } else if with_model && !model[k].starts_with("r2=") && !model[k].starts_with("r4=") {
                format!("fail model:{}", model[k])
            } else {
                show_failures(&judge(&imp[k], with_model.then(|| model[k].as_str())))
            };
            out.push_str(&v);
            out.push('\n');
        }
        std::fs::write(format!("{d}/verdict.txt"), out).unwrap();
        return 0;
    }
    if let Some(f) = opts.get("shrink") {
        return shrink_main(opts, &read_lines(f));
    }
    let out = opts.out();
    let mut log = Log::new();
    let only = opts.get("only").unwrap_or("").to_string();
    if let Some(f) = opts.get("replay") {
        run_lines(&read_lines(f), &mut log, &only);
        log.write(&out);
        return 0;
    }
    let mut r = Rng::new(opts.seed());
    let n = opts.num("n", 20);
    let level = opts.num("stratum", 0) as u32;
    let seq_mode = opts.get("seq").unwrap_or("mix").to_string();
    let mut lines = vec![];
    for k in 0..n {
        let seq = match seq_mode.as_str() {
            "0" => false,
            "1" => true,
            _ => k % 3 != 0,
        };
        let mut rr = r.fork();
        lines.push(gen_design(&mut rr, level, seq).line());
    }
    if opts.get("gen").is_some() {
        // designs only (C03: the same file is replayed under every toggle set)
        std::fs::write(out.join("ops.txt"), lines.join("\n") + "\n").unwrap();
        return 0;
    }
    run_lines(&lines, &mut log, &only);
    log.write(&out);
    0
}

// ───────────────────────── shrinking + signatures ─────────────────────────

/// `vmodel sim`, asked line by line.
struct Model {
    child: Child,
    stdin: ChildStdin,
    stdout: BufReader<ChildStdout>,
}

impl Model {
    fn spawn(path: &str) -> Model {
        let mut child = Command::new(path).arg("sim").stdin(Stdio::piped()).stdout(Stdio::piped()).stderr(Stdio::null()).spawn().expect("spawn vmodel");
        let stdin = child.stdin.take().unwrap();
        let stdout = BufReader::new(child.stdout.take().unwrap());
        Model { child, stdin, stdout }
    }
    fn ask(&mut self, line: &str) -> String {
        if writeln!(self.stdin, "{line}").is_err() || self.stdin.flush().is_err() {
            return "model-dead".into();
        }
        let mut s = String::new();
        match self.stdout.read_line(&mut s) {
            Ok(n) if n > 0 => s.trim_end_matches('\n').to_string(),
            _ => "model-dead".into(),
        }
    }
}

impl Drop for Model {
    fn drop(&mut self) {
        let _ = self.child.kill();
        let _ = self.child.wait();
    }
}

/// failures of one case (engines of `only`, reference from the model); `None` = not a valid case
fn failures_of(c: &Case, m: &mut Model, pool: &mut Pool, only: &str) -> Option<Vec<(String, String)>> {
    let line = c.line();
    let r = pool.eval(&line, only);
    if r.starts_with("rejected") || r == "bad-op" || r.is_empty() {
        return None;
    }
    let mo = m.ask(&line);
    if !mo.starts_with("r2=") && !mo.starts_with("r4=") {
        return None;
    }
    Some(judge(&r, Some(&mo)))
}

fn stmt_list_variants(v: &[S], vars: &[Var]) -> Vec<Vec<S>> {
    let mut out = vec![];
    for i in 0..v.len() {
        // drop the statement
        let mut w = v.to_vec();
        w.remove(i);
        out.push(w);
        // replace a compound statement by one of its bodies
        let bodies: Vec<Vec<S>> = match &v[i] {
            S::If(_, a, b) => vec![a.clone(), b.clone()],
            S::Case(_, arms, d) => arms.iter().map(|x| x.1.clone()).chain(std::iter::once(d.clone())).collect(),
            _ => vec![],
        };
        for b in bodies {
            let mut w = v.to_vec();
            w.splice(i..=i, b);
            out.push(w);
        }
        // local variants of the statement
        for s2 in stmt_variants(&v[i], vars) {
            let mut w = v.to_vec();
            w[i] = s2;
            out.push(w);
        }
    }
    out
}

fn stmt_variants(s: &S, vars: &[Var]) -> Vec<S> {
    let mut out = vec![];
    match s {
        S::Set(v, lo, w, e) => {
            for e2 in e.shrinks(vars) {
                out.push(S::Set(*v, *lo, *w, e2));
            }
            if !(*lo == 0 && *w == vars[*v].width) {
                out.push(S::Set(*v, 0, vars[*v].width, e.clone()));
            }
        }
        S::SetD(v, w, i, e) => {
            for e2 in e.shrinks(vars) {
                out.push(S::SetD(*v, *w, i.clone(), e2));
            }
        }
        S::If(c, a, b) => {
            for c2 in c.shrinks(vars) {
                if has_var(&c2) {
                    out.push(S::If(c2, a.clone(), b.clone()));
                }
            }
            for a2 in stmt_list_variants(a, vars) {
                out.push(S::If(c.clone(), a2, b.clone()));
            }
            for b2 in stmt_list_variants(b, vars) {
                out.push(S::If(c.clone(), a.clone(), b2));
            }
        }
        S::Case(sel, arms, d) => {
            for k in 0..arms.len() {
                let mut a2 = arms.clone();
                a2.remove(k);
                out.push(S::Case(sel.clone(), a2, d.clone()));
                for b2 in stmt_list_variants(&arms[k].1, vars) {
                    let mut a2 = arms.clone();
                    a2[k].1 = b2;
                    out.push(S::Case(sel.clone(), a2, d.clone()));
                }
            }
            for d2 in stmt_list_variants(d, vars) {
                out.push(S::Case(sel.clone(), arms.clone(), d2));
            }
            for s2 in sel.shrinks(vars) {
                if s2.size(vars) == sel.size(vars) && has_var(&s2) {
                    out.push(S::Case(s2, arms.clone(), d.clone()));
                }
            }
        }
        S::Disp(id, args) => {
            for k in 0..args.len() {
                let mut a2 = args.clone();
                a2.remove(k);
                out.push(S::Disp(*id, a2));
            }
        }
    }
    out
}

const BOUNDARY: &[usize] = &[1, 2, 8, 32, 64, 65, 128, 129, 256];

/// the same design with variable `i` narrowed to `nw` bits (ranges clipped)
fn narrow_var(c: &Case, i: usize, nw: usize) -> Case {
    let mut c2 = c.clone();
    c2.vars[i].width = nw;
    let fix_e = |e: &E| -> E {
        e.map_leaves(&|l: &E| match l {
            E::Sel(v, lo, w) if *v == i => {
                let lo2 = if *lo >= nw { 0 } else { *lo };
                let w2 = (*w).min(nw - lo2);
                if lo2 == 0 && w2 == nw { E::Var(i) } else { E::Sel(i, lo2, w2) }
            }
            other => other.clone(),
        })
    };
    fn fix_s(s: &S, i: usize, nw: usize, old: usize) -> S {
        match s {
            S::Set(v, lo, w, e) if *v == i => {
                if *lo == 0 && *w == old {
                    S::Set(i, 0, nw, e.clone())
                } else {
                    let lo2 = if *lo >= nw { 0 } else { *lo };
                    S::Set(i, lo2, (*w).min(nw - lo2), e.clone())
                }
            }
            S::If(c, a, b) => S::If(c.clone(), a.iter().map(|x| fix_s(x, i, nw, old)).collect(), b.iter().map(|x| fix_s(x, i, nw, old)).collect()),
            S::Case(sel, arms, d) => S::Case(
                sel.clone(),
                arms.iter().map(|(l, b)| (l.clone(), b.iter().map(|x| fix_s(x, i, nw, old)).collect())).collect(),
                d.iter().map(|x| fix_s(x, i, nw, old)).collect(),
            ),
            other => other.clone(),
        }
    }
    let old = c.vars[i].width;
    c2.decls = c
        .decls
        .iter()
        .map(|d| {
            let d = d.map_exprs(&fix_e);
            match d {
                D::Assign(v, lo, w, e) if v == i => {
                    if lo == 0 && w == old {
                        D::Assign(i, 0, nw, e)
                    } else {
                        let lo2 = if lo >= nw { 0 } else { lo };
                        D::Assign(i, lo2, w.min(nw - lo2), e)
                    }
                }
                D::Comb(b) => D::Comb(b.iter().map(|x| fix_s(x, i, nw, old)).collect()),
                D::Ff(h, r, b) => D::Ff(h, r.iter().map(|x| fix_s(x, i, nw, old)).collect(), b.iter().map(|x| fix_s(x, i, nw, old)).collect()),
                other => other,
            }
        })
        .collect();
    // case labels follow the selector width
    fn fix_labels(s: &S, vars: &[Var]) -> S {
        match s {
            S::If(c, a, b) => S::If(c.clone(), a.iter().map(|x| fix_labels(x, vars)).collect(), b.iter().map(|x| fix_labels(x, vars)).collect()),
            S::Case(sel, arms, d) => {
                let w = sel.size(vars);
                S::Case(
                    sel.clone(),
                    arms.iter()
                        .map(|(l, b)| {
                            let l2 = match l {
                                E::Lit(_, s, v) => E::Lit(w, *s, words_to_hex(&hex_to_words(v, w))),
                                o => o.clone(),
                            };
                            (l2, b.iter().map(|x| fix_labels(x, vars)).collect())
                        })
                        .collect(),
                    d.iter().map(|x| fix_labels(x, vars)).collect(),
                )
            }
            other => other.clone(),
        }
    }
    let vars = c2.vars.clone();
    c2.decls = c2
        .decls
        .iter()
        .map(|d| match d {
            D::Comb(b) => D::Comb(b.iter().map(|x| fix_labels(x, &vars)).collect()),
            D::Ff(h, r, b) => D::Ff(*h, r.iter().map(|x| fix_labels(x, &vars)).collect(), b.iter().map(|x| fix_labels(x, &vars)).collect()),
            o => o.clone(),
        })
        .collect();
    if c.vars[i].kind == Kind::In {
        let k = c.inputs().iter().position(|x| *x == i).unwrap();
        for cyc in c2.stim.iter_mut() {
            let (p, m) = cyc.1[k].split_once('.').map(|(a, b)| (a.to_string(), Some(b.to_string()))).unwrap_or((cyc.1[k].clone(), None));
            let p2 = words_to_hex(&hex_to_words(&p, nw));
            cyc.1[k] = match m {
                Some(m) => {
                    let m2 = words_to_hex(&hex_to_words(&m, nw));
                    if m2 == "0" { p2 } else { format!("{p2}.{m2}") }
                }
                None => p2,
            };
        }
    }
    c2
}

/// remove variable `i` if nothing mentions it
fn remove_var(c: &Case, i: usize) -> Option<Case> {
    let mut used = false;
    for d in &c.decls {
        for e in d.exprs() {
            let mut r = vec![];
            e.reads(&mut r);
            used |= r.contains(&i);
        }
        fn writes(s: &S, i: usize) -> bool {
            match s {
                S::Set(v, ..) | S::SetD(v, ..) => *v == i,
                S::If(_, a, b) => a.iter().chain(b.iter()).any(|x| writes(x, i)),
                S::Case(_, arms, d) => arms.iter().flat_map(|x| x.1.iter()).chain(d.iter()).any(|x| writes(x, i)),
                S::Disp(..) => false,
            }
        }
        used |= d.stmts().iter().any(|s| writes(s, i));
        if let D::Assign(v, ..) = d {
            used |= *v == i;
        }
    }
    if used {
        return None;
    }
    let mut c2 = c.clone();
    if c.vars[i].kind == Kind::In {
        let k = c.inputs().iter().position(|x| *x == i).unwrap();
        for cyc in c2.stim.iter_mut() {
            cyc.1.remove(k);
        }
    }
    c2.vars.remove(i);
    let ren = |v: usize| if v > i { v - 1 } else { v };
    let fix_e = |e: &E| -> E {
        e.map_leaves(&|l: &E| match l {
            E::Var(v) => E::Var(ren(*v)),
            E::Sel(v, lo, w) => E::Sel(ren(*v), *lo, *w),
            o => o.clone(),
        })
    };
    fn fix_s(s: &S, i: usize) -> S {
        let ren = |v: usize| if v > i { v - 1 } else { v };
        match s {
            S::Set(v, lo, w, e) => S::Set(ren(*v), *lo, *w, e.clone()),
            S::SetD(v, w, ix, e) => S::SetD(ren(*v), *w, ix.clone(), e.clone()),
            S::If(c, a, b) => S::If(c.clone(), a.iter().map(|x| fix_s(x, i)).collect(), b.iter().map(|x| fix_s(x, i)).collect()),
            S::Case(sel, arms, d) => S::Case(sel.clone(), arms.iter().map(|(l, b)| (l.clone(), b.iter().map(|x| fix_s(x, i)).collect())).collect(), d.iter().map(|x| fix_s(x, i)).collect()),
            o => o.clone(),
        }
    }
    c2.decls = c
        .decls
        .iter()
        .map(|d| match d.map_exprs(&fix_e) {
            D::Assign(v, lo, w, e) => D::Assign(ren(v), lo, w, e),
            D::Comb(b) => D::Comb(b.iter().map(|x| fix_s(x, i)).collect()),
            D::Ff(h, r, b) => D::Ff(h, r.iter().map(|x| fix_s(x, i)).collect(), b.iter().map(|x| fix_s(x, i)).collect()),
        })
        .collect();
    if !c2.vars.iter().any(|v| v.kind.observed()) || c2.vars.is_empty() {
        return None;
    }
    Some(c2)
}

fn candidates(c: &Case) -> Vec<Case> {
    let mut out = vec![];
    // fewer cycles
    if c.stim.len() > 1 {
        let mut c2 = c.clone();
        c2.stim.pop();
        out.push(c2);
        for k in 0..c.stim.len() - 1 {
            let mut c2 = c.clone();
            c2.stim.remove(k);
            out.push(c2);
        }
    }
    // drop a declaration (and the variables that only it mentioned)
    for k in 0..c.decls.len() {
        let mut c2 = c.clone();
        c2.decls.remove(k);
        out.push(c2.clone());
        let mut changed = true;
        while changed {
            changed = false;
            for i in (0..c2.vars.len()).rev() {
                if let Some(c3) = remove_var(&c2, i) {
                    c2 = c3;
                    changed = true;
                    break;
                }
            }
        }
        out.push(c2);
    }
    // unused variables
    for i in (0..c.vars.len()).rev() {
        if let Some(c2) = remove_var(c, i) {
            out.push(c2);
        }
    }
    // statement structure
    for (k, d) in c.decls.iter().enumerate() {
        let vs: Vec<D> = match d {
            D::Assign(v, lo, w, e) => {
                let mut o: Vec<D> = e.shrinks(&c.vars).into_iter().map(|e2| D::Assign(*v, *lo, *w, e2)).collect();
                if !(*lo == 0 && *w == c.vars[*v].width) {
                    o.push(D::Assign(*v, 0, c.vars[*v].width, e.clone()));
                }
                o
            }
            D::Comb(b) => stmt_list_variants(b, &c.vars).into_iter().map(D::Comb).collect(),
            D::Ff(h, r, b) => {
                let mut o: Vec<D> = stmt_list_variants(b, &c.vars).into_iter().map(|b2| D::Ff(*h, r.clone(), b2)).collect();
                o.extend(stmt_list_variants(r, &c.vars).into_iter().map(|r2| D::Ff(*h && !r2.is_empty(), r2, b.clone())));
                if *h {
                    o.push(D::Ff(false, vec![], b.clone()));
                }
                o
            }
        };
        for d2 in vs {
            let mut c2 = c.clone();
            c2.decls[k] = d2;
            out.push(c2);
        }
    }
    // variables: narrower, unsigned, plain wire instead of port
    for i in 0..c.vars.len() {
        let w = c.vars[i].width;
        if let Some(nw) = BOUNDARY.iter().rev().find(|b| **b < w) {
            out.push(narrow_var(c, i, *nw));
        }
        if w > 1 {
            out.push(narrow_var(c, i, w - 1));
        }
        if c.vars[i].signed {
            let mut c2 = c.clone();
            c2.vars[i].signed = false;
            out.push(c2);
        }
    }
    // stimulus values
    for k in 0..c.stim.len() {
        for j in 0..c.stim[k].1.len() {
            for v in ["0", "1"] {
                if c.stim[k].1[j] != v {
                    let mut c2 = c.clone();
                    c2.stim[k].1[j] = v.to_string();
                    out.push(c2);
                }
            }
        }
        if c.stim[k].0 {
            let mut c2 = c.clone();
            c2.stim[k].0 = false;
            out.push(c2);
        }
    }
    out.retain(|x| x.well_scoped() && x.fully_driven() && x.dyn_ok() && x.lets_ok());
    out
}

fn cost(c: &Case) -> (usize, usize, usize, usize) {
    let nodes: usize = c.decls.iter().map(|d| 1 + d.stmts().iter().map(|s| s.count()).sum::<usize>() + d.exprs().iter().map(|e| e.nodes()).sum::<usize>()).sum();
    let widths: usize = c.vars.iter().map(|v| v.width + v.signed as usize).sum();
    let stim: usize = c.stim.iter().map(|s| 1 + s.0 as usize + s.1.iter().map(|v| v.len()).sum::<usize>()).sum();
    (nodes + c.vars.len(), widths, stim, c.max_width())
}

fn kind_class(k: &str) -> String {
    k.to_string()
}

fn matches_target(f: &[(String, String)], target: &(String, String)) -> bool {
    f.iter().any(|(l, k)| l[..2] == target.0[..2] && kind_class(k) == kind_class(&target.1))
}

fn engines_for(target: &(String, String)) -> &'static str {
    if target.0.starts_with("cc") { "i2,j2,cc" } else { "i2,j2,i4,j4" }
}

fn shrink(c: &Case, target: &(String, String), m: &mut Model, pool: &mut Pool, budget: &mut usize) -> Case {
    let mut cur = c.clone();
    let only = engines_for(target);
    let f0 = facts(c);
    // a candidate must not acquire a defect-relevant feature the original case lacks (the class predicates are
    // evaluated on the witness)
    let no_new_feature = |x: &Case| {
        let f = facts(x);
        (!f.sel_of_signed || f0.sel_of_signed)
            && (!f.signed_1bit || f0.signed_1bit)
            && (!f.const_only_op || f0.const_only_op)
            && (!f.ctx_over_64 || f0.ctx_over_64)
            && (!f.ctx_over_128 || f0.ctx_over_128)
            && (!f.has_div || f0.has_div)
            && (!f.unreset_reg || f0.unreset_reg)
            && (!f.partset || f0.partset)
            && (!f.shr_of_unary64 || f0.shr_of_unary64)
            && (!f.dyn_lhs || f0.dyn_lhs)
            && (!f.dyn_wide_rhs || f0.dyn_wide_rhs)
            && (!f.dyn_let_ff || f0.dyn_let_ff)
    };
    'outer: loop {
        let mut cands = candidates(&cur);
        cands.sort_by_key(cost);
        let here = cost(&cur);
        for cand in cands {
            if cost(&cand) >= here || !no_new_feature(&cand) {
                continue;
            }
            if *budget == 0 {
                break 'outer;
            }
            *budget -= 1;
            if let Some(f) = failures_of(&cand, m, pool, only)
                && matches_target(&f, target)
            {
                cur = cand;
                continue 'outer;
            }
        }
        break;
    }
    cur
}

fn regime(w: usize) -> &'static str {
    match w {
        0..=64 => "w64",
        65..=128 => "w128",
        _ => "wide",
    }
}

/// `<engine classes>:<construct>:<width regime>:<signedness>:<kind>` of a shrunk failing case
fn signature(c: &Case, f: &[(String, String)], target: &(String, String)) -> String {
    let mut classes: Vec<String> = f.iter().filter(|(_, k)| kind_class(k) == kind_class(&target.1)).map(|(l, _)| l[..2].to_string()).collect();
    classes.sort();
    classes.dedup();
    let mut decl_kinds = vec![];
    let mut stmt_kinds = vec![];
    let mut ops = vec![];
    fn sk(s: &S, vars: &[Var], out: &mut Vec<String>) {
        match s {
            S::Set(v, lo, w, _) => {
                if !(*lo == 0 && *w == vars[*v].width) {
                    out.push("partset".into())
                }
            }
            S::SetD(..) => out.push("dynset".into()),
            S::If(_, a, b) => {
                out.push("if".into());
                a.iter().chain(b.iter()).for_each(|x| sk(x, vars, out));
            }
            S::Case(_, arms, d) => {
                out.push("case".into());
                arms.iter().flat_map(|x| x.1.iter()).chain(d.iter()).for_each(|x| sk(x, vars, out));
            }
            S::Disp(..) => out.push("display".into()),
        }
    }
    fn ek(e: &E, out: &mut Vec<String>) {
        if !matches!(e, E::Var(_) | E::Lit(..)) {
            out.push(e.root().to_string());
        }
        e.children().iter().for_each(|c| ek(c, out));
    }
    for d in &c.decls {
        decl_kinds.push(match d {
            D::Assign(v, lo, w, _) => if *lo == 0 && *w == c.vars[*v].width { "assign" } else { "assign-part" },
            D::Comb(_) => "comb",
            D::Ff(true, ..) => "ffr",
            D::Ff(false, ..) => "ff",
        }
        .to_string());
        d.stmts().iter().for_each(|s| sk(s, &c.vars, &mut stmt_kinds));
        d.exprs().iter().for_each(|e| ek(e, &mut ops));
    }
    for v in [&mut decl_kinds, &mut stmt_kinds, &mut ops] {
        v.sort();
        v.dedup();
    }
    let construct = format!("{}/{}/{}", decl_kinds.join("+"), stmt_kinds.join("+"), ops.join("+"));
    let signed = c.vars.iter().any(|v| v.signed) || c.decls.iter().any(|d| d.exprs().iter().any(|e| has_signed_lit(e)));
    format!("{}:{}:{}:{}:{}", classes.join("+"), construct, regime(c.max_width()), if signed { "s" } else { "u" }, kind_class(&target.1))
}

/// Facts about a (shrunk) failing case that the defect-class predicates look at.
struct Facts {
    sel_of_signed: bool,
    signed_1bit: bool,
    any_signed: bool,
    ctx_over_64: bool,
    ctx_over_128: bool,
    has_div: bool,
    const_only_op: bool,
    partset: bool,
    unreset_reg: bool,
    x_stim: bool,
    shr_of_unary64: bool,
    dyn_lhs: bool,
    dyn_wide_rhs: bool,
    dyn_let_ff: bool,
}

fn facts(c: &Case) -> Facts {
    let mut f = Facts {
        sel_of_signed: false,
        signed_1bit: c.vars.iter().any(|v| v.signed && v.width == 1),
        any_signed: c.vars.iter().any(|v| v.signed),
        ctx_over_64: c.max_width() > 64,
        ctx_over_128: c.max_width() > 128,
        has_div: false,
        const_only_op: false,
        partset: false,
        unreset_reg: false,
        x_stim: c.has_x_stim(),
        shr_of_unary64: false,
        dyn_lhs: false,
        dyn_wide_rhs: false,
        dyn_let_ff: false,
    };
    fn walk(e: &E, vars: &[Var], f: &mut Facts) {
        match e {
            E::Sel(i, _, _) => f.sel_of_signed |= vars[*i].signed,
            E::Lit(w, s, _) => {
                f.any_signed |= *s;
                f.signed_1bit |= *s && *w == 1;
            }
            _ => {}
        }
        if !matches!(e, E::Var(_) | E::Sel(..) | E::Lit(..)) && !has_var(e) {
            f.const_only_op = true;
        }
        if matches!(e.root(), "div" | "mod") {
            f.has_div = true;
        }
        if let E::Bin(op, a, b) = e
            && matches!(*op, "shr" | "ashr" | "lt" | "le" | "gt" | "ge" | "div" | "mod")
            && (matches!(a.root(), "not" | "neg") || (!matches!(*op, "shr" | "ashr") && matches!(b.root(), "not" | "neg")))
            && e.children().iter().map(|c| c.size(vars)).max().unwrap_or(0) >= 64
        {
            f.shr_of_unary64 = true;
        }
        let sz = e.size(vars);
        f.ctx_over_64 |= sz > 64;
        f.ctx_over_128 |= sz > 128;
        e.children().iter().for_each(|c| walk(c, vars, f));
    }
    fn st(s: &S, vars: &[Var], f: &mut Facts) {
        match s {
            S::Set(v, lo, w, _) => f.partset |= !(*lo == 0 && *w == vars[*v].width),
            S::SetD(_, w, _, e) => {
                f.dyn_lhs = true;
                f.dyn_wide_rhs |= e.size(vars) > *w;
            }
            S::If(c, a, b) => {
                f.const_only_op |= !has_var(c);
                a.iter().chain(b.iter()).for_each(|x| st(x, vars, f))
            }
            S::Case(sel, arms, d) => {
                f.const_only_op |= !has_var(sel);
                arms.iter().flat_map(|x| x.1.iter()).chain(d.iter()).for_each(|x| st(x, vars, f))
            }
            S::Disp(..) => {}
        }
    }
    let mut reset_regs: Vec<usize> = vec![];
    for d in &c.decls {
        d.exprs().iter().for_each(|e| walk(e, &c.vars, &mut f));
        d.stmts().iter().for_each(|s| st(s, &c.vars, &mut f));
        if let D::Assign(v, lo, w, _) = d {
            f.partset |= !(*lo == 0 && *w == c.vars[*v].width);
        }
        if let D::Ff(true, r, _) = d {
            for s in r {
                if let S::Set(v, lo, w, _) = s
                    && *lo == 0
                    && *w == c.vars[*v].width
                {
                    reset_regs.push(*v);
                }
            }
        }
    }
    // `let` variables used as a run-time index and read inside an always_ff
    let mut idx_vars: Vec<usize> = vec![];
    fn idx_of(s: &S, out: &mut Vec<usize>) {
        match s {
            S::SetD(_, _, i, _) => i.reads(out),
            S::If(_, a, b) => a.iter().chain(b.iter()).for_each(|x| idx_of(x, out)),
            S::Case(_, arms, d) => arms.iter().flat_map(|x| x.1.iter()).chain(d.iter()).for_each(|x| idx_of(x, out)),
            _ => {}
        }
    }
    c.decls.iter().for_each(|d| d.stmts().iter().for_each(|s| idx_of(s, &mut idx_vars)));
    for d in &c.decls {
        if let D::Ff(..) = d {
            for e in d.exprs() {
                let mut r = vec![];
                e.reads(&mut r);
                f.dyn_let_ff |= r.iter().any(|i| idx_vars.contains(i) && c.vars[*i].kind == Kind::Let);
            }
        }
    }
    let first_is_reset = c.stim.first().is_some_and(|s| s.0);
    f.unreset_reg = !first_is_reset || (0..c.vars.len()).any(|i| c.vars[i].kind.is_reg() && !reset_regs.contains(&i));
    f
}

/// Defect class of a shrunk failing case: `<class>` whose predicate (mechanism evidence on the
/// witness: deviating engines, failure kind, construct facts) holds, or `unclassified:<signature>`.
/// `r4_has_x`: the 4-state reference trace of the witness carries X/Z somewhere.
fn classify(c: &Case, f: &[(String, String)], target: &(String, String), r4_has_x: bool) -> String {
    let fx = facts(c);
    let kind = target.1.as_str();
    let mut classes: Vec<&str> = f.iter().filter(|(_, k)| k == kind).map(|(l, _)| &l[..2]).collect();
    classes.sort();
    classes.dedup();
    let only = |set: &[&str]| classes.iter().all(|c| set.contains(c));
    if kind == "div0" {
        return "div0:engines-differ-after-zero-divisor".into();
    }
    if kind.contains("isa/x64/lower/isle.rs") && only(&["j2", "j4", "cc"]) {
        return format!("cranelift-isle-panic:{}", if fx.ctx_over_64 { "ctx>64" } else { "ctx<=64" });
    }
    if is_failure_trace(kind) {
        let loc = kind.rsplit('/').next().unwrap_or(kind);
        return format!("crash:{}:{}", classes.join("+"), loc);
    }
    if (kind == "value4" || kind == "value" || kind == "display") && only(&["i4", "j4"]) && r4_has_x && (fx.unreset_reg || fx.x_stim || fx.has_div) {
        return "x-propagation:4state-engines".into();
    }
    if fx.dyn_wide_rhs && only(&["j2", "j4"]) {
        return "run-time-indexed-store:jit-does-not-clip-rhs-wider-than-window".into();
    }
    if fx.dyn_let_ff {
        return "run-time-indexed-store:let-index-also-read-by-always_ff-is-stale".into();
    }
    if fx.dyn_lhs {
        return format!("run-time-indexed-store:{}", classes.join("+"));
    }
    if fx.shr_of_unary64 && only(&["cc"]) {
        return "cc:64bit-unary-not-or-neg-result-is-signed".into();
    }
    if fx.sel_of_signed {
        return "select-of-signed-variable".into();
    }
    if fx.signed_1bit {
        return "signed-1bit-operand".into();
    }
    if fx.const_only_op {
        return "constant-only-operand".into();
    }
    if fx.ctx_over_64 {
        return format!("wide-context{}:{}", if fx.ctx_over_128 { ">128" } else { ">64" }, if fx.partset { "partset" } else { "full" });
    }
    if fx.any_signed {
        return format!("signed-arith:{}", signature(c, f, target).split(':').nth(1).unwrap_or(""));
    }
    format!("unclassified:{}", signature(c, f, target))
}

/// `~e` / `-e` → `e` (the cc backend types a 64-bit unary result as a signed C value: known defect class)
fn strip_unary(e: E) -> E {
    match e {
        E::Un(op, a) if matches!(op, "not" | "neg") => strip_unary(*a),
        e => e,
    }
}

fn has_var(e: &E) -> bool {
    matches!(e, E::Var(_) | E::Sel(..)) || e.children().iter().any(|c| has_var(c))
}

fn has_signed_lit(e: &E) -> bool {
    matches!(e, E::Lit(_, true, _)) || e.children().iter().any(|c| has_signed_lit(c))
}

const CLASS_ORDER: &[&str] = &["i2", "i4", "j2", "j4", "cc"];

/// `--shrink FILE --vmodel PATH [--budget N]`: one result line per input line in `shrink.txt`:
/// `ok` (no failure when replayed) | `bad-op` | `key=<signature> witness=<line with | for space> ;; <veryl, one line>`
fn shrink_main(opts: &Opts, lines: &[String]) -> i32 {
    let out = opts.out();
    let vm = opts.get("vmodel").unwrap_or("/verif/lean/.lake/build/bin/vmodel").to_string();
    let mut model = Model::spawn(&vm);
    let mut pool = Pool::default();
    let mut res = vec![];
    for l in lines {
        let Some(c) = Case::parse(l) else {
            res.push("bad-op".to_string());
            continue;
        };
        let Some(f) = failures_of(&c, &mut model, &mut pool, "") else {
            res.push("rejected".to_string());
            continue;
        };
        if f.is_empty() {
            res.push("ok".to_string());
            continue;
        }
        // target: the first failing engine class in a fixed order (interpreter first: a reference-side
        // or interpreter problem explains the most), crashes before values
        let mut target = f[0].clone();
        'pick: for kinds in [true, false] {
            for cl in CLASS_ORDER {
                if let Some(x) = f.iter().find(|(l, k)| l.starts_with(cl) && (is_failure_trace(k) == kinds)) {
                    target = x.clone();
                    break 'pick;
                }
            }
        }
        let mut budget = if target.1 == "div0" { 0 } else { opts.num("budget", 300) as usize };
        let small = shrink(&c, &target, &mut model, &mut pool, &mut budget);
        let f2 = failures_of(&small, &mut model, &mut pool, "").unwrap_or_default();
        let f2 = if matches_target(&f2, &target) { f2 } else { vec![target.clone()] };
        let sig = signature(&small, &f2, &target);
        let r4x = model.ask(&small.line()).split(' ').any(|p| p == "x4=1");
        let mut key = classify(&small, &f2, &target, r4x);
        // mechanism check: 2-state engines only deviate, and not when comb fusion is switched off
        let cls: Vec<&str> = f2.iter().filter(|(_, k)| *k == target.1).map(|(l, _)| &l[..2]).collect();
        if target.1 == "value" && !cls.is_empty() && cls.iter().all(|c| ["i2", "j2", "cc"].contains(c)) {
            let mut eng: Vec<&str> = cls.clone();
            eng.sort();
            eng.dedup();
            let off = failures_of(&small, &mut model, &mut pool, &format!("{}@VERYL_COMB_FUSION=0", eng.join(",")));
            if off.is_some_and(|f| f.is_empty()) {
                key = "comb-fusion:2state-engines-deviate-only-with-fusion-on".into();
            }
        }
        res.push(format!("key={key} sig={sig} witness={} ;; {}", small.line().replace(' ', "|"), small.veryl().replace('\n', " ")));
    }
    std::fs::write(out.join("shrink.txt"), res.join("\n") + "\n").unwrap();
    0
}
