//! Shared by the domains `fmt`, `smap`, `emitopts` (C08/C09/C13/C26): the testcase corpus, token-gap
//! mutants of Veryl source texts, and "analyse a set of files as one project, then emit single files
//! under arbitrary build/format options" (fresh thread = fresh analyzer tables, as `vsets::run`).
use crate::rng::Rng;
use std::panic;
use std::path::PathBuf;
use veryl_analyzer::ir as air;
use veryl_analyzer::{Analyzer, Context};
use veryl_emitter::Emitter;
use veryl_metadata::{Metadata, NewlineStyle};
use veryl_parser::Parser;
use veryl_parser::resource_table;
use veryl_parser::token_collector::TokenCollector;
use veryl_parser::veryl_token::Token;
use veryl_parser::veryl_walker::VerylWalker;
use veryl_pretty::doc::Doc;
use veryl_pretty::render::RenderOpts;

pub type FileSet = Vec<(String, String)>;

/// Testcases that need other projects / external files (as `vsets::excluded`).
pub fn needs_outside(name: &str) -> bool {
    name.starts_with("25_") || name.starts_with("68_") || name.starts_with("52_") || name.starts_with("67_")
}

/// All files of /repo/testcases/veryl, sorted by name.
pub fn testcases() -> FileSet {
    let mut files = vec![];
    if let Ok(rd) = std::fs::read_dir("/repo/testcases/veryl") {
        for e in rd.flatten() {
            let p = e.path();
            if p.extension().is_some_and(|x| x == "veryl") {
                let name = p.file_name().unwrap().to_string_lossy().to_string();
                if let Ok(text) = std::fs::read_to_string(&p) {
                    files.push((name, text));
                }
            }
        }
    }
    files.sort();
    files
}

// ---------------------------------------------------------------------------------------------
// options
// ---------------------------------------------------------------------------------------------

/// `[format]` + the presentation-only `[build]` options. Encoded as one token
/// `<indent>.<max_width>.<vertical_align>.<newline a|u|w>.<strip_comments>.<expand_inside>` (hex numbers).
#[derive(Clone, Copy, Debug, PartialEq, Eq)]
pub struct Opt {
    pub indent: usize,
    pub width: usize,
    pub valign: bool,
    pub newline: char,
    pub strip: bool,
    pub expand: bool,
}

impl Opt {
    pub const DEFAULT: Opt = Opt { indent: 4, width: 120, valign: true, newline: 'a', strip: false, expand: false };

    pub fn show(&self) -> String {
        format!(
            "{:x}.{:x}.{}.{}.{}.{}",
            self.indent, self.width, self.valign as u8, self.newline, self.strip as u8, self.expand as u8
        )
    }

    pub fn parse(s: &str) -> Option<Opt> {
        let p: Vec<&str> = s.split('.').collect();
        if p.len() != 6 {
            return None;
        }
        let b = |x: &str| match x {
            "0" => Some(false),
            "1" => Some(true),
            _ => None,
        };
        let nl = match p[3] {
            "a" => 'a',
            "u" => 'u',
            "w" => 'w',
            _ => return None,
        };
        Some(Opt {
            indent: usize::from_str_radix(p[0], 16).ok()?,
            width: usize::from_str_radix(p[1], 16).ok()?,
            valign: b(p[2])?,
            newline: nl,
            strip: b(p[4])?,
            expand: b(p[5])?,
        })
    }

    pub fn metadata(&self) -> Metadata {
        let mut m = Metadata::create_default("prj").unwrap();
        m.format.indent_width = self.indent;
        m.format.max_width = self.width;
        m.format.vertical_align = self.valign;
        m.format.newline_style = match self.newline {
            'u' => NewlineStyle::Unix,
            'w' => NewlineStyle::Windows,
            _ => NewlineStyle::Auto,
        };
        m.build.strip_comments = self.strip;
        m.build.expand_inside_operation = self.expand;
        m
    }
}

// ---------------------------------------------------------------------------------------------
// token streams
// ---------------------------------------------------------------------------------------------

/// Tokens and their attached comments in walk order (what `TokenCollector::new(true)` collects), but
/// remembering which is which: a token whose TEXT begins with `//` or `/*` (embedded foreign code may) is
/// still a token.
#[derive(Default)]
struct StreamCollector(Vec<(Token, bool)>);

impl VerylWalker for StreamCollector {
    fn veryl_token(&mut self, arg: &veryl_parser::veryl_token::VerylToken) {
        self.0.push((arg.token, false));
        for c in &arg.comments {
            self.0.push((*c, true));
        }
    }
}

/// `(text, is_comment, token)` of every token and comment, in `TokenCollector` order.
pub fn token_stream(p: &Parser) -> Vec<(String, bool, Token)> {
    let mut tc = StreamCollector::default();
    tc.veryl(&p.veryl);
    // same sequence as the repository's own collector
    let mut reference = TokenCollector::new(true);
    reference.veryl(&p.veryl);
    debug_assert_eq!(reference.tokens.len(), tc.0.len());
    tc.0.iter().map(|(t, c)| (resource_table::get_str_value(t.text).unwrap_or_default(), *c, *t)).collect()
}

pub fn parse_quiet(src: &str, name: &str) -> Option<Parser> {
    match panic::catch_unwind(panic::AssertUnwindSafe(|| Parser::parse(src, &name))) {
        Ok(Ok(p)) => Some(p),
        _ => None,
    }
}

// ---------------------------------------------------------------------------------------------
// token-gap mutants
// ---------------------------------------------------------------------------------------------

pub const MUT_KINDS: &[&str] = &[
    "blank+", "blank-", "join", "split", "spaces", "tabs", "cmt-line", "cmt-block", "cmt-multi", "cmt-mb", "crlf", "mixed-nl",
    "sep-toggle", "split-all", "join-all", "cmt-sep", "mb-string",
];

const LINE_CMTS: &[&str] = &["// c\n", "//\n", "// é日本語 \n", "/// doc\n", "// trailing blanks   \n", "//a\n"];
const BLOCK_CMTS: &[&str] = &["/* c */", "/**/", "/* é日本 */", "/* ß→λ 😀 */", "/* x */ /* y */"];
const MULTI_CMTS: &[&str] = &["/* a\n   b */", "/*\n*/", "/* é\n日本 */", "/* l1  \n l2\t\n l3 */", "/*\n\n*/"];

/// The text split into `pre, tok0, gap0, tok1, gap1, …, tokN, post` along the token/comment stream
/// (byte offsets `pos`/`length`). `None` if the stream does not tile the text with whitespace gaps.
fn split_gaps(src: &str, toks: &[(String, bool, Token)]) -> Option<(String, Vec<(String, bool)>, Vec<String>, String)> {
    let mut v: Vec<(usize, usize, bool)> = toks.iter().map(|(_, c, t)| (t.pos as usize, t.length as usize, *c)).collect();
    v.sort();
    v.dedup();
    let mut texts = vec![];
    let mut gaps = vec![];
    let mut at = 0usize;
    let mut pre = String::new();
    for (k, (pos, len, c)) in v.iter().enumerate() {
        if *pos < at || pos + len > src.len() || !src.is_char_boundary(*pos) || !src.is_char_boundary(pos + len) {
            return None;
        }
        let gap = &src[at..*pos];
        if !gap.chars().all(|ch| ch.is_whitespace()) {
            return None;
        }
        if k == 0 {
            pre = gap.to_string();
        } else {
            gaps.push(gap.to_string());
        }
        texts.push((src[*pos..pos + len].to_string(), *c));
        at = pos + len;
    }
    let post = src[at..].to_string();
    if !post.chars().all(|ch| ch.is_whitespace()) {
        return None;
    }
    Some((pre, texts, gaps, post))
}

fn is_closer(s: &str) -> bool {
    matches!(s, ")" | "}" | "]" | ">")
}

/// One mutant of `src` (edits confined to the gaps between tokens, plus toggling of optional trailing
/// separators) that still parses. Returns the text and the kinds of the edits applied.
pub fn mutant(r: &mut Rng, src: &str, name: &str) -> Option<(String, Vec<&'static str>)> {
    let p = parse_quiet(src, name)?;
    let toks = token_stream(&p);
    let (pre, texts, gaps0, post) = split_gaps(src, &toks)?;
    if texts.len() < 2 {
        return None;
    }
    for _attempt in 0..6 {
        let mut gaps = gaps0.clone();
        let mut texts = texts.clone();
        let mut kinds: Vec<&'static str> = vec![];
        let n_edits = 1 + r.below(5);
        for _ in 0..n_edits {
            let kind = *r.pick(MUT_KINDS);
            let g = r.below(gaps.len() as u64) as usize;
            // a gap may be emptied only between tokens that cannot merge; keep it simple: never empty a
            // non-empty gap, and fill an empty gap only with comments
            let has_nl = gaps[g].contains('\n');
            let after_line_comment = texts[g].1 && texts[g].0.starts_with("//");
            let _ = after_line_comment;
            match kind {
                "blank+" => {
                    // more blank lines in some gap that already has a newline
                    if let Some(k) = (0..gaps.len()).cycle().skip(g).take(gaps.len()).find(|k| gaps[*k].contains('\n')) {
                        let extra = "\n".repeat(1 + r.below(3) as usize);
                        let at = gaps[k].find('\n').unwrap();
                        gaps[k].insert_str(at, &extra);
                        kinds.push(kind);
                    }
                }
                "blank-" => {
                    if let Some(k) = (0..gaps.len()).cycle().skip(g).take(gaps.len()).find(|k| gaps[*k].matches('\n').count() > 1) {
                        gaps[k] = "\n".to_string();
                        kinds.push(kind);
                    }
                }
                "join" => {
                    if has_nl {
                        gaps[g] = " ".to_string();
                        kinds.push(kind);
                    }
                }
                "split" => {
                    if !gaps[g].is_empty() && !has_nl {
                        gaps[g] = format!("\n{}", " ".repeat(r.below(9) as usize));
                        kinds.push(kind);
                    }
                }
                "spaces" => {
                    if !gaps[g].is_empty() && !has_nl {
                        gaps[g] = " ".repeat(1 + r.below(8) as usize);
                        kinds.push(kind);
                    }
                }
                "tabs" => {
                    if !gaps[g].is_empty() {
                        gaps[g] = gaps[g].replace("    ", "\t").replace(' ', "\t");
                        kinds.push(kind);
                    }
                }
                "cmt-line" | "cmt-block" | "cmt-multi" | "cmt-mb" => {
                    let c = match kind {
                        "cmt-line" => *r.pick(LINE_CMTS),
                        "cmt-block" => *r.pick(BLOCK_CMTS),
                        "cmt-multi" => *r.pick(MULTI_CMTS),
                        _ => *r.pick(&["// é日本語\n", "/* ß→λ 😀 */", "/* é\n日本 */"]),
                    };
                    let lead = *r.pick(&["", " ", "  ", "\n", "\n\n", "\n    "]);
                    let trail = if c.ends_with('\n') { *r.pick(&["", "    ", "\n"]) } else { *r.pick(&["", " ", "\n", "\n\n"]) };
                    let old = gaps[g].clone();
                    gaps[g] = format!("{lead}{c}{trail}{old}");
                    kinds.push(kind);
                }
                "crlf" => {
                    for x in gaps.iter_mut() {
                        *x = x.replace("\r\n", "\n").replace('\n', "\r\n");
                    }
                    for t in texts.iter_mut() {
                        if t.1 {
                            t.0 = t.0.replace("\r\n", "\n").replace('\n', "\r\n");
                        }
                    }
                    kinds.push(kind);
                }
                "mixed-nl" => {
                    if has_nl {
                        gaps[g] = gaps[g].replace("\r\n", "\n").replacen('\n', "\r\n", 1);
                        kinds.push(kind);
                    }
                }
                "cmt-sep" => {
                    // a comment right after a separator (`,`) — where list walkers take comments from
                    let commas: Vec<usize> = (0..gaps.len()).filter(|k| !texts[*k].1 && texts[*k].0 == ",").collect();
                    if !commas.is_empty() {
                        let k = *r.pick(&commas);
                        let c = *r.pick(&[" /* s */", " // s\n", " /* é */ ", "\n// s\n"]);
                        let old = gaps[k].clone();
                        gaps[k] = format!("{c}{old}");
                        kinds.push(kind);
                    }
                }
                "mb-string" => {
                    // multi-byte text inside a string literal: an anchored multi-byte token in the emitted SV
                    let strs: Vec<usize> = (0..texts.len()).filter(|k| !texts[*k].1 && texts[*k].0.starts_with('"') && texts[*k].0.len() >= 2).collect();
                    if !strs.is_empty() {
                        let k = *r.pick(&strs);
                        texts[k].0.insert_str(1, *r.pick(&["温度センサ ", "é", "ß→λ 😀 "]));
                        kinds.push(kind);
                    }
                }
                "sep-toggle" => {
                    // remove an optional trailing separator, or add one before a closer
                    let cands: Vec<usize> = (0..texts.len() - 1)
                        .filter(|k| !texts[*k].1 && texts[*k].0 == "," && {
                            let mut j = k + 1;
                            while j < texts.len() && texts[j].1 {
                                j += 1;
                            }
                            j < texts.len() && is_closer(&texts[j].0)
                        })
                        .collect();
                    if !cands.is_empty() && r.chance(1, 2) {
                        let k = *r.pick(&cands);
                        texts[k].0 = String::new();
                        kinds.push(kind);
                    } else {
                        let cl: Vec<usize> = (1..texts.len())
                            .filter(|k| !texts[*k].1 && matches!(texts[*k].0.as_str(), ")" | "}") && !texts[k - 1].1 && !matches!(texts[k - 1].0.as_str(), "," | "(" | "{" | ";" | "}"))
                            .collect();
                        if !cl.is_empty() {
                            let k = *r.pick(&cl);
                            texts[k - 1].0.push(',');
                            kinds.push(kind);
                        }
                    }
                }
                "split-all" => {
                    let pr = 1 + r.below(4);
                    for x in gaps.iter_mut() {
                        if !x.is_empty() && !x.contains('\n') && r.chance(pr, 20) {
                            *x = "\n".to_string();
                        }
                    }
                    kinds.push(kind);
                }
                _ => {
                    // join-all
                    let pr = 5 + r.below(12);
                    for x in gaps.iter_mut() {
                        if x.contains('\n') && r.chance(pr, 20) {
                            *x = " ".to_string();
                        }
                    }
                    kinds.push(kind);
                }
            }
        }
        if kinds.is_empty() {
            continue;
        }
        let mut out = pre.clone();
        for (k, (t, _)) in texts.iter().enumerate() {
            out.push_str(t);
            if k < gaps.len() {
                out.push_str(&gaps[k]);
            }
        }
        out.push_str(&post);
        if out != src && parse_quiet(&out, name).is_some() {
            return Some((out, kinds));
        }
    }
    None
}

/// A comment after EVERY `,` of the text (alternating block / line comments with distinct texts), and — if
/// `add_trailing` — an optional trailing `,` plus comment in every bracketed list that lacks one (imports, ports,
/// parameters, arguments, members, keys …). `None` if nothing changes or the result does not parse.
pub fn separator_mutant(src: &str, name: &str, add_trailing: bool) -> Option<String> {
    let p = parse_quiet(src, name)?;
    let toks = token_stream(&p);
    let (pre, mut texts, mut gaps, post) = split_gaps(src, &toks)?;
    let code: Vec<usize> = (0..texts.len()).filter(|k| !texts[*k].1).collect();
    let mut n = 0usize;
    if add_trailing {
        // bracket pairs over the code tokens; a pair with a top-level `,` is a list
        let mut stack: Vec<(usize, bool)> = vec![];
        let mut add_after: Vec<usize> = vec![];
        for (ci, &k) in code.iter().enumerate() {
            match texts[k].0.as_str() {
                "(" | "{" | "[" | "#(" | "'{" => stack.push((ci, false)),
                "," => {
                    if let Some(top) = stack.last_mut() {
                        top.1 = true;
                    }
                }
                ")" | "}" | "]" => {
                    if let Some((_, has_comma)) = stack.pop() {
                        if has_comma && ci > 0 && texts[code[ci - 1]].0 != "," {
                            add_after.push(code[ci - 1]);
                        }
                    }
                }
                _ => {}
            }
        }
        for k in add_after {
            n += 1;
            texts[k].0.push_str(&format!(", /* t{n} */"));
        }
    }
    for k in 0..gaps.len() {
        if !texts[k].1 && texts[k].0 == "," {
            n += 1;
            let old = gaps[k].clone();
            gaps[k] = if n % 2 == 0 { format!(" /* s{n} */{old}") } else { format!(" // s{n}\n{old}") };
        }
    }
    if n == 0 {
        return None;
    }
    let mut out = pre;
    for (k, (t, _)) in texts.iter().enumerate() {
        out.push_str(t);
        if k < gaps.len() {
            out.push_str(&gaps[k]);
        }
    }
    out.push_str(&post);
    parse_quiet(&out, name).map(|_| out)
}

/// Multi-byte text put into EVERY string literal of the text. `None` if there is none.
pub fn mb_strings_mutant(src: &str, name: &str) -> Option<String> {
    let p = parse_quiet(src, name)?;
    let toks = token_stream(&p);
    let (pre, mut texts, gaps, post) = split_gaps(src, &toks)?;
    let mut n = 0;
    for t in texts.iter_mut() {
        if !t.1 && t.0.starts_with('"') && t.0.len() >= 2 {
            t.0.insert_str(1, ["温度センサ ", "é→", "😀 ß "][n % 3]);
            n += 1;
        }
    }
    if n == 0 {
        return None;
    }
    let mut out = pre;
    for (k, (t, _)) in texts.iter().enumerate() {
        out.push_str(t);
        if k < gaps.len() {
            out.push_str(&gaps[k]);
        }
    }
    out.push_str(&post);
    parse_quiet(&out, name).map(|_| out)
}

// ---------------------------------------------------------------------------------------------
// analysis context + emission
// ---------------------------------------------------------------------------------------------

/// Location and message of the most recent panic (set by `install_panic_hook`).
pub static LAST_PANIC: std::sync::Mutex<String> = std::sync::Mutex::new(String::new());

/// Quiet panic hook that remembers `file:line::message` of the last panic.
pub fn install_panic_hook() {
    panic::set_hook(Box::new(|info| {
        let loc = info.location().map(|l| format!("{}:{}", l.file().rsplit("/crates/").next().unwrap_or(l.file()), l.line())).unwrap_or_default();
        let msg = if let Some(s) = info.payload().downcast_ref::<&str>() {
            s.to_string()
        } else if let Some(s) = info.payload().downcast_ref::<String>() {
            s.clone()
        } else {
            "?".into()
        };
        let msg: String = msg.chars().take(60).collect();
        *LAST_PANIC.lock().unwrap() = format!("{loc}::{}", msg.replace(['\n', ' '], "_"));
    }));
}

pub struct Emitted {
    pub sv: String,
    pub map: Vec<u8>,
    /// the document and options handed to the renderer (captured through `verif_tap`)
    pub doc: Option<(Doc, RenderOpts)>,
}

pub struct Project<'a> {
    pub files: &'a [(String, String)],
    pub parsers: Vec<Option<Parser>>,
    /// number of analyzer errors (all passes)
    pub errors: usize,
}

impl Project<'_> {
    /// Emit file `i` under `opt`. `None`: the file did not parse or the emitter panicked.
    #[allow(unexpected_cfgs)]
    pub fn emit(&self, i: usize, opt: &Opt) -> Option<Emitted> {
        let p = self.parsers[i].as_ref()?;
        let (name, code) = &self.files[i];
        let metadata = opt.metadata();
        let pb = PathBuf::from(name);
        #[cfg(veryl_verif)]
        veryl_pretty::render::verif_tap::start();
        let r = panic::catch_unwind(panic::AssertUnwindSafe(|| {
            let mut emitter = Emitter::new(&metadata, "prj", &pb, &pb.with_extension("sv"), &pb.with_extension("sv.map"));
            emitter.emit(&p.veryl, code);
            let sv = emitter.as_str().to_string();
            let map = emitter.source_map().to_bytes().unwrap_or_else(|_| b"MAPERR".to_vec());
            (sv, map)
        }));
        #[cfg(veryl_verif)]
        let mut docs = veryl_pretty::render::verif_tap::take();
        #[cfg(not(veryl_verif))]
        let mut docs: Vec<(Doc, RenderOpts)> = vec![];
        let (sv, map) = r.ok()?;
        let doc = if docs.len() == 1 { docs.pop() } else { None };
        Some(Emitted { sv, map, doc })
    }
}

/// Analyse `files` as one project (`veryl build` order: pass 1 of all, post-pass 1, pass 2 of all,
/// post-pass 2) in a FRESH thread and hand the result to `f` there (documents are not `Send`).
pub fn with_project<R: Send + 'static>(
    files: FileSet,
    f: impl FnOnce(&Project) -> R + Send + 'static,
) -> Result<R, String> {
    let h = std::thread::Builder::new()
        .stack_size(512 << 20)
        .spawn(move || {
            panic::catch_unwind(panic::AssertUnwindSafe(|| {
                let metadata = Metadata::create_default("prj").unwrap();
                let analyzer = Analyzer::new(&metadata);
                let mut errors = 0usize;
                let mut parsers: Vec<Option<Parser>> = vec![];
                for (name, code) in &files {
                    match parse_quiet(code, name) {
                        Some(p) => {
                            let r = panic::catch_unwind(panic::AssertUnwindSafe(|| analyzer.analyze_pass1("prj", &p.veryl)));
                            match r {
                                Ok(e) => errors += e.iter().filter(|x| x.is_error()).count(),
                                Err(_) => errors += 1,
                            }
                            parsers.push(Some(p));
                        }
                        None => {
                            errors += 1;
                            parsers.push(None);
                        }
                    }
                }
                match panic::catch_unwind(Analyzer::analyze_post_pass1) {
                    Ok(e) => errors += e.iter().filter(|x| x.is_error()).count(),
                    Err(_) => errors += 1,
                }
                let mut context = Context::default();
                let mut ir = air::Ir::default();
                for p in parsers.iter().flatten() {
                    let r = panic::catch_unwind(panic::AssertUnwindSafe(|| analyzer.analyze_pass2(&p.veryl, &mut context, Some(&mut ir))));
                    match r {
                        Ok(e) => errors += e.iter().filter(|x| x.is_error()).count(),
                        Err(_) => errors += 1,
                    }
                }
                match panic::catch_unwind(panic::AssertUnwindSafe(|| Analyzer::analyze_post_pass2(&ir))) {
                    Ok(e) => errors += e.iter().filter(|x| x.is_error()).count(),
                    Err(_) => errors += 1,
                }
                let prj = Project { files: &files, parsers, errors };
                f(&prj)
            }))
            .map_err(|_| "panic".to_string())
        })
        .map_err(|e| e.to_string())?;
    h.join().map_err(|_| "panic".to_string())?
}
