//! Domain `reuse` (C34): test suites whose top modules share sub-modules (same child at different
//! offsets, twice in one parent, in different parents, with different parameters) are converted
//!   (a) each test alone, from scratch (`build_ir`, same engine: the oracle),
//!   (b) in several orders (identity, reverse, every test twice shuffled; + 2 shuffles in the thorough
//!       tier) through one `ProtoModuleCache` (`build_ir_cached`),
//!   (c) the same with `Config::dut_reuse` (the CLI's cross-test DUT reuse: `GLOBAL_STMT_CACHE`
//!       relocation, whole-comb / chunk caches) after `compute_recurring_set`, as `veryl test` does,
//!   (d) the same WITHOUT `compute_recurring_set` (the first-seer fallback of non-CLI callers),
//! every order in its own child process (the reuse caches are process-global statics).
//! A second suite family, `reads` (every third suite): tops with an IDENTICAL comb part whose
//! `always_ff` blocks read different comb signals of it (see `gen_reads_suite`).
//!
//! Lines:
//!   `suite <sseed> engine=<e> tops=<m> minbytes=<n>`          impl `ok` | `rejected …`
//!   `test <sseed> mode=<m> order=<o> pos=<j> top=<i>`         impl = port trace of that test in that
//!                                                             sequence, oracle = trace of the test alone
//!   `layout <sseed> mode=<m> top=<i>`                         impl `same`|`differs`: variable layout and
//!                                                             per-step full state identical in every order
//!                                                             (oracle `same` for mode=reuse; `?` for reusefs)
//!   `twin <sseed> mode=<m> order=<o>`                         impl `eq`|`diff`: the two twin tops (same DUT
//!                                                             behind different amounts of padding state,
//!                                                             same stimulus) hold the same DUT-internal
//!                                                             bytes after every step (oracle `eq`)
//!   `reloc A=[k:off:nb,…] ffB=<o> combB=<o>`                  impl = the second instance's offsets
//!                                                             `[k:off:nb,…]` read from the real `Ir`;
//!                                                             model = `A` shifted by one (ff, comb) delta
use crate::rng::Rng;
use crate::simutil::bits_of;
use crate::util::{Log, Opts};
use std::collections::BTreeMap;
use std::io::Write;
use std::panic::{AssertUnwindSafe, catch_unwind};
use std::process::{Command, Stdio};
use veryl_analyzer::ir as air;
use veryl_analyzer::value::Value;
use veryl_analyzer::{Analyzer, Context};
use veryl_metadata::Metadata;
use veryl_parser::Parser;
use veryl_simulator::ir as sir;
use veryl_simulator::{Config, Simulator};

// ------------------------------------------------------------------------------------------------
// suite generator
// ------------------------------------------------------------------------------------------------

pub struct Top {
    pub name: String,
    pub outs: Vec<String>,
    /// (instance path below the top, component signature) of every `Core` instance, nested ones too
    pub insts: Vec<(String, String)>,
    /// the instances directly inside the top: (instance name, `Core<…>` | `Mid`)
    pub units: Vec<(String, String)>,
    pub ops: String,
    pub stim: Vec<(u64, u64)>,
}

pub struct Suite {
    pub code: String,
    pub tops: Vec<Top>,
    /// indices of the twin tops, if the suite has a pair
    pub twin: Option<(usize, usize)>,
}

const CORE_INTERNALS: &[&str] = &["mem", "p", "acc", "m"];

fn core_module(r: &mut Rng) -> String {
    let upd = *r.pick(&["a + K", "a ^ K", "(a << 1) + K", "a - K"]);
    let accu = *r.pick(&["acc ^ mem[p]", "acc + mem[p]", "(acc << 1) ^ mem[p]"]);
    let outp = *r.pick(&["m ^ K", "m + 1", "~m"]);
    format!(
        "module Core #(\n    param W: u32 = 8,\n    param K: u32 = 3,\n    param D: u32 = 16,\n) (\n    clk: input clock,\n    rst: input reset,\n    a: input logic<W>,\n    y: output logic<W>,\n) {{\n    var mem: logic<W> [D];\n    var p: logic<8>;\n    var acc: logic<W>;\n    always_ff {{\n        if_reset {{\n            p = 0;\n            acc = 0;\n        }} else {{\n            mem[p] = {upd};\n            if p == D - 1 {{\n                p = 0;\n            }} else {{\n                p = p + 1;\n            }}\n            acc = {accu};\n        }}\n    }}\n    let m: logic<W> = acc + a;\n    assign y = {outp};\n}}\n"
    )
}

fn sig(p: &(usize, u64, usize)) -> String {
    format!("Core<{},{},{}>", p.0, p.1, p.2)
}

/// Suite family `reads` (seeds with the two low bits set): tops whose COMB part is identical
/// (same declarations, same `let`s, same assigns, hence the same layout and the same comb-pipeline
/// fingerprint) while their `always_ff` blocks READ different comb signals of it — a `let` nobody
/// reads is dropped by dead-variable DCE, so a comb pipeline (with its dead set) cached for one top
/// must not serve another.  Variants: reads c1 only / c2 only / both / neither.
pub fn gen_reads_suite(sseed: u64, cycles: usize) -> Suite {
    let mut r = Rng::new(sseed ^ 0x5245_4144);
    const EXPRS: &[&str] = &["a + b", "a ^ (b << 1)", "(a & b) + 32'd1", "a - b", "(~a) | b", "(a >> 2) ^ b", "(a << 3) + b", "a * 32'd3 + b"];
    let e1 = *r.pick(EXPRS);
    let e2 = loop {
        let e = *r.pick(EXPRS);
        if e != e1 {
            break e;
        }
    };
    let e3 = *r.pick(EXPRS);
    let comb = format!(
        "    let c1: logic<32> = {e1};\n    let c2: logic<32> = {e2};\n    let c3: logic<32> = {e3};\n    var q: logic<32>;\n    var s: logic<32>;\n    assign y = q;\n    assign z = c3 ^ s;\n"
    );
    // (what q accumulates, what s accumulates)
    // the two single-reader variants are the point of the family; 1–2 of the others join them
    // (a `let` read by exactly ONE always_ff is hoisted into it by comb_to_ff_hoist, which changes the
    // comb list; read by both always_ff blocks it stays in the comb part — hence q and s live in two
    // blocks and the single-signal variants read their signal in both)
    let mut others: Vec<(&str, &str)> = vec![("c1", "c2"), ("a", "b"), ("c1 ^ c2", "c2 + c1"), ("c2", "c1")];
    for i in (1..others.len()).rev() {
        others.swap(i, r.below(i as u64 + 1) as usize);
    }
    others.truncate(1 + r.below(2) as usize);
    let mut variants: Vec<(&str, &str)> = vec![("c1", "c1"), ("c2", "c2")];
    variants.extend(others);
    for i in (1..variants.len()).rev() {
        variants.swap(i, r.below(i as u64 + 1) as usize);
    }
    let mut code = String::new();
    let mut tops = vec![];
    // one stimulus for all tops
    let mut ops = String::from("nrg");
    let mut stim = vec![];
    for _ in 0..cycles {
        ops.push_str("sc");
        if r.below(5) != 0 {
            ops.push('g');
        }
        stim.push((r.next() & 0xffff_ffff, r.next() & 0xffff_ffff));
    }
    ops.push('g');
    for (i, (rq, rs)) in variants.iter().enumerate() {
        let name = format!("T{i}");
        code.push_str(&format!(
            "module {name} (\n    clk: input clock,\n    rst: input reset,\n    a: input logic<32>,\n    b: input logic<32>,\n    y: output logic<32>,\n    z: output logic<32>,\n) {{\n{comb}    always_ff {{\n        if_reset {{\n            q = 0;\n        }} else {{\n            q = q + {rq};\n        }}\n    }}\n    always_ff {{\n        if_reset {{\n            s = 0;\n        }} else {{\n            s = s ^ ({rs});\n        }}\n    }}\n}}\n"
        ));
        tops.push(Top { name, outs: vec!["y".to_string(), "z".to_string()], insts: vec![], units: vec![], ops: ops.clone(), stim: stim.clone() });
    }
    Suite { code, tops, twin: None }
}

pub fn is_reads_family(sseed: u64) -> bool {
    sseed & 3 == 3
}

pub fn gen_suite(sseed: u64, cycles: usize) -> Suite {
    if is_reads_family(sseed) {
        return gen_reads_suite(sseed, cycles);
    }
    let mut r = Rng::new(sseed ^ 0x5245_5553);
    let mut code = core_module(&mut r);
    // two parameter sets so that components recur across tops (and differ)
    let pool: Vec<(usize, u64, usize)> = (0..2).map(|_| (*r.pick(&[8usize, 16, 32]), r.below(15) + 1, *r.pick(&[4usize, 16, 40, 64]))).collect();
    let pm = pool[r.below(2) as usize];
    let pm2 = pool[r.below(2) as usize];
    code.push_str(&format!(
        "module Mid (\n    clk: input clock,\n    rst: input reset,\n    a: input logic<32>,\n    y0: output logic<32>,\n    y1: output logic<32>,\n) {{\n    var h: logic<32>;\n    always_ff {{\n        if_reset {{\n            h = 0;\n        }} else {{\n            h = h + a;\n        }}\n    }}\n    var w0: logic<{w0}>;\n    var w1: logic<{w1}>;\n    inst c0: Core #(W: {w0}, K: {k0}, D: {d0}) (clk, rst, a: a[{w0m}:0], y: w0);\n    inst c1: Core #(W: {w1}, K: {k1}, D: {d1}) (clk, rst, a: h[{w1m}:0], y: w1);\n    assign y0 = w0 as 32;\n    assign y1 = w1 as 32;\n}}\n",
        w0 = pm.0, k0 = pm.1, d0 = pm.2, w0m = pm.0 - 1, w1 = pm2.0, k1 = pm2.1, d1 = pm2.2, w1m = pm2.0 - 1
    ));
    let ntops = 3 + r.below(3) as usize;
    let has_twin = r.below(3) != 0;
    let mut tops: Vec<Top> = vec![];
    let mut twin_shape: Option<Vec<u8>> = None;
    let mut twin_params: Vec<(usize, u64, usize)> = vec![];
    for i in 0..ntops {
        let name = format!("T{i}");
        let padw = *r.pick(&[1usize, 2, 7, 33, 94]);
        // shape: list of 0 = Core direct, 1 = Mid
        let is_twin = has_twin && i < 2;
        let shape: Vec<u8> = if is_twin && twin_shape.is_some() {
            twin_shape.clone().unwrap()
        } else {
            let n = 1 + r.below(3) as usize;
            (0..n).map(|_| if r.below(3) == 0 { 1 } else { 0 }).collect()
        };
        let params: Vec<(usize, u64, usize)> = if is_twin && twin_shape.is_some() { twin_params.clone() } else { shape.iter().map(|_| pool[r.below(2) as usize]).collect() };
        if is_twin && twin_shape.is_none() {
            twin_shape = Some(shape.clone());
            twin_params = params.clone();
        }
        let mut ports = String::from("    clk: input clock,\n    rst: input reset,\n    a: input logic<32>,\n    b: input logic<32>,\n    yp: output logic<32>,\n");
        let mut body = format!("    var padr: logic<32> [{padw}];\n    always_ff {{\n        if_reset {{\n            padr[0] = 0;\n        }} else {{\n            padr[0] = padr[0] + a;\n        }}\n    }}\n    assign yp = padr[0];\n");
        let mut outs = vec!["yp".to_string()];
        let mut insts = vec![];
        let mut units = vec![];
        let mut oi = 0;
        for (j, s) in shape.iter().enumerate() {
            let src = if j % 2 == 0 { "a" } else { "b" };
            if *s == 0 {
                let p = params[j];
                ports.push_str(&format!("    y{oi}: output logic<32>,\n"));
                body.push_str(&format!("    var v{j}: logic<{w}>;\n    inst u{j}: Core #(W: {w}, K: {k}, D: {d}) (clk, rst, a: {src}[{wm}:0], y: v{j});\n    assign y{oi} = v{j} as 32;\n", w = p.0, k = p.1, d = p.2, wm = p.0 - 1));
                outs.push(format!("y{oi}"));
                oi += 1;
                insts.push((format!("u{j}"), sig(&p)));
                units.push((format!("u{j}"), sig(&p)));
            } else {
                ports.push_str(&format!("    y{oi}: output logic<32>,\n    y{}: output logic<32>,\n", oi + 1));
                body.push_str(&format!("    inst u{j}: Mid (clk, rst, a: {src}, y0: y{oi}, y1: y{});\n", oi + 1));
                outs.push(format!("y{oi}"));
                outs.push(format!("y{}", oi + 1));
                oi += 2;
                units.push((format!("u{j}"), "Mid".to_string()));
                insts.push((format!("u{j}.c0"), sig(&pm)));
                insts.push((format!("u{j}.c1"), sig(&pm2)));
            }
        }
        code.push_str(&format!("module {name} (\n{ports}) {{\n{body}}}\n"));
        // stimulus (twins share it)
        let (ops, stim) = if is_twin && i == 1 {
            (tops[0].ops.clone(), tops[0].stim.clone())
        } else {
            let mut ops = String::from("nrg");
            let mut stim = vec![];
            for _ in 0..cycles {
                ops.push_str("sc");
                if r.below(5) != 0 {
                    ops.push('g');
                }
                stim.push((if r.below(4) == 0 { u32::MAX as u64 } else { r.next() & 0xffff_ffff }, r.next() & 0xffff_ffff));
            }
            ops.push('g');
            (ops, stim)
        };
        tops.push(Top { name, outs, insts, units, ops, stim });
    }
    Suite { code, tops, twin: if has_twin { Some((0, 1)) } else { None } }
}

// ------------------------------------------------------------------------------------------------
// child: one sequence of tests in one mode
// ------------------------------------------------------------------------------------------------

fn analyze(code: &str) -> Result<air::Ir, String> {
    veryl_analyzer::symbol_table::clear();
    let metadata = Metadata::create_default("prj").map_err(|e| format!("{e:?}"))?;
    let parser = Parser::parse(code, &"").map_err(|e| format!("parse: {e}"))?;
    let analyzer = Analyzer::new(&metadata);
    let mut context = Context::default();
    let mut ir = air::Ir::default();
    let mut errors = vec![];
    errors.append(&mut analyzer.analyze_pass1("prj", &parser.veryl));
    errors.append(&mut Analyzer::analyze_post_pass1());
    errors.append(&mut analyzer.analyze_pass2(&parser.veryl, &mut context, Some(&mut ir)));
    errors.append(&mut Analyzer::analyze_post_pass2(&ir));
    let hard: Vec<String> = errors
        .iter()
        .filter(|e| e.is_error())
        .map(|e| e.to_string().replace('\n', " "))
        .collect();
    if !hard.is_empty() {
        return Err(format!("analyzer: {}", hard.join(" / ")));
    }
    Ok(ir)
}

fn engine_config(engine: &str, dut_reuse: bool) -> Config {
    match engine {
        "interp" => Config { dut_reuse, ..Default::default() },
        "cc" => Config { use_jit: true, aot_c: true, aot_c_event: true, aot_c_async: false, dut_reuse, ..Default::default() },
        _ => Config { use_jit: true, dut_reuse, ..Default::default() },
    }
}

fn hexs(b: &[u8]) -> String {
    b.iter().map(|x| format!("{x:02x}")).collect()
}

/// `path:k:off:nb` of every variable element, hierarchical instance path, sorted.
fn layout(ir: &sir::Ir) -> Vec<(String, char, usize, usize)> {
    fn walk(m: &sir::ModuleVariables, prefix: &str, ffb: usize, ffl: usize, cb: usize, cl: usize, out: &mut Vec<(String, char, usize, usize)>) {
        for v in m.variables.values() {
            for (i, p) in v.current_values.iter().enumerate() {
                let a = *p as usize;
                let (k, off) = if a >= ffb && a < ffb + ffl { ('f', a - ffb) } else if a >= cb && a < cb + cl { ('c', a - cb) } else { ('?', 0) };
                out.push((format!("{prefix}{}[{i}]", v.path), k, off, v.native_bytes));
            }
        }
        for c in &m.children {
            walk(c, &format!("{prefix}{}.", c.name), ffb, ffl, cb, cl, out);
        }
    }
    let mut out = vec![];
    walk(&ir.module_variables, "", ir.ff_values.as_ptr() as usize, ir.ff_values.len(), ir.comb_values.as_ptr() as usize, ir.comb_values.len(), &mut out);
    out.sort();
    out
}

fn bits_hex(v: &Value) -> String {
    let b = bits_of(v);
    if b.contains('x') || b.contains('z') {
        return b;
    }
    let padn = (4 - b.len() % 4) % 4;
    let s = "0".repeat(padn) + &b;
    s.as_bytes().chunks(4).map(|c| format!("{:x}", u8::from_str_radix(std::str::from_utf8(c).unwrap(), 2).unwrap())).collect()
}

/// The hypothesis of `cache_hit_eq_miss` on the real code: one `ProtoModuleCache` used across TWO
/// analyses that both define `Top` returns the first analysis' module for the second (the cache key
/// is the name).  Not a CLI path (one analysis per process); recorded as evidence, never a violation.
fn stale_probe() -> i32 {
    let src = |k: u32| format!("module Top (\n    a: input logic<8>,\n    o: output logic<8>,\n) {{\n    assign o = a + {k};\n}}\n");
    let config = Config::default();
    let mut cache = sir::ProtoModuleCache::default();
    let mut outs = vec![];
    for k in [1u32, 2] {
        let air = match analyze(&src(k)) {
            Ok(x) => x,
            Err(e) => {
                println!("probe error {e}");
                return 0;
            }
        };
        let top = veryl_parser::resource_table::insert_str("Top");
        let Ok(ir) = sir::build_ir_cached(&air, top, &config, &mut cache) else {
            println!("probe error build");
            return 0;
        };
        let mut sim = Simulator::new(ir, None);
        sim.set("a", Value::new(10, 8, false));
        outs.push(sim.get("o").map(|v| bits_hex(&v)).unwrap_or_default());
    }
    println!("probe {}", outs.join(","));
    0
}

fn child(opts: &Opts) -> i32 {
    if opts.get("mode") == Some("stale-probe") {
        return stale_probe();
    }
    let sseed = u64::from_str_radix(opts.get("sseed").unwrap_or("1"), 16).unwrap_or(1);
    let cycles = opts.num("cycles", 8) as usize;
    let mode = opts.get("mode").unwrap_or("fresh").to_string();
    let engine = opts.get("engine").unwrap_or("jit").to_string();
    let order: Vec<usize> = opts.get("order").unwrap_or("0").split(',').filter_map(|x| x.parse().ok()).collect();
    let suite = gen_suite(sseed, cycles);
    std::panic::set_hook(Box::new(|info| {
        eprintln!("PANICMSG {}", info.location().map(|l| format!("{}:{}", l.file(), l.line())).unwrap_or_default());
    }));
    let air = match catch_unwind(AssertUnwindSafe(|| analyze(&suite.code))) {
        Ok(Ok(x)) => x,
        Ok(Err(e)) => {
            println!("rejected {e}");
            return 0;
        }
        Err(_) => {
            println!("rejected analyzer-panic");
            return 0;
        }
    };
    let dut_reuse = mode == "reuse" || mode == "reusefs";
    let config = engine_config(&engine, dut_reuse);
    if mode == "reuse" {
        // what cmd_test does before converting the native tests: all tops of the run
        let mut seen = vec![];
        for i in &order {
            if !seen.contains(i) {
                seen.push(*i);
            }
        }
        let tops: Vec<_> = seen.iter().map(|i| veryl_parser::resource_table::insert_str(&suite.tops[*i].name)).collect();
        veryl_simulator::backend::inst::compute_recurring_set(&air, &tops);
    }
    let mut cache = sir::ProtoModuleCache::default();
    let out = std::io::stdout();
    for (pos, ti) in order.iter().enumerate() {
        let t = &suite.tops[*ti];
        let res = catch_unwind(AssertUnwindSafe(|| -> Result<(String, String, String, String), String> {
            let top = veryl_parser::resource_table::insert_str(&t.name);
            let ir = if mode == "fresh" { sir::build_ir(&air, top, &config) } else { sir::build_ir_cached(&air, top, &config, &mut cache) }.map_err(|e| format!("build: {e:?}").replace('\n', " "))?;
            let lay = layout(&ir);
            let lays: Vec<String> = lay.iter().map(|(p, k, o, n)| format!("{p}:{k}:{o}:{n}")).collect();
            let mut sim = Simulator::new(ir, None);
            let clk = sim.get_clock("clk").ok_or("no clk")?;
            let rst = sim.get_reset("rst").ok_or("no rst")?;
            let mut trace = vec![];
            let mut states = vec![];
            let mut duts = vec![];
            let mut si = 0;
            for op in t.ops.chars() {
                match op {
                    'n' => {}
                    'r' => sim.step_reset(&clk, &rst),
                    's' => {
                        sim.set("a", Value::new(t.stim[si].0, 32, false));
                        sim.set("b", Value::new(t.stim[si].1, 32, false));
                        si += 1;
                    }
                    'c' => sim.step(&clk),
                    'g' => {
                        let vals: Vec<String> = t.outs.iter().map(|o| sim.get(o).map(|v| bits_hex(&v)).unwrap_or("none".into())).collect();
                        trace.push(vals.join(","));
                        states.push(format!("{}/{}", hexs(&sim.ir.ff_values), hexs(&sim.ir.comb_values)));
                        // DUT-internal bytes, instance by instance, variable by variable (sorted by path)
                        let mut d = String::new();
                        for (ipath, _) in &t.insts {
                            for (p, k, o, n) in &lay {
                                let Some(rest) = p.strip_prefix(&format!("{ipath}.")) else { continue };
                                let base = rest.split('[').next().unwrap_or("");
                                if !CORE_INTERNALS.contains(&base) {
                                    continue;
                                }
                                let buf: &[u8] = if *k == 'f' { &sim.ir.ff_values } else { &sim.ir.comb_values };
                                if *k != '?' && *o + *n <= buf.len() {
                                    d.push_str(&hexs(&buf[*o..*o + *n]));
                                }
                            }
                            d.push(';');
                        }
                        duts.push(d);
                    }
                    _ => return Err("bad op".into()),
                }
            }
            Ok((trace.join("|"), lays.join(","), states.join("|"), duts.join("|")))
        }));
        let mut o = out.lock();
        match res {
            Ok(Ok((tr, lay, st, du))) => {
                writeln!(o, "test {pos} {ti} {tr}").ok();
                writeln!(o, "layout {pos} {ti} {lay}").ok();
                writeln!(o, "states {pos} {ti} {st}").ok();
                writeln!(o, "duts {pos} {ti} {du}").ok();
            }
            Ok(Err(e)) => {
                writeln!(o, "test {pos} {ti} error:{}", e.split_whitespace().take(8).collect::<Vec<_>>().join("_")).ok();
            }
            Err(_) => {
                writeln!(o, "test {pos} {ti} panic").ok();
            }
        }
    }
    0
}

// ------------------------------------------------------------------------------------------------
// parent
// ------------------------------------------------------------------------------------------------

#[derive(Default, Clone)]
struct SeqRun {
    status: String,
    /// per position: (top, trace, layout, states, duts)
    tests: Vec<(usize, String, String, String, String)>,
    panic_at: String,
}

fn spawn(exe: &std::path::Path, sseed: u64, cycles: usize, mode: &str, engine: &str, order: &[usize], minbytes: u64, cache: &std::path::Path) -> std::process::Child {
    spawn_env(exe, sseed, cycles, mode, engine, order, minbytes, cache, &[])
}

#[allow(clippy::too_many_arguments)]
fn spawn_env(exe: &std::path::Path, sseed: u64, cycles: usize, mode: &str, engine: &str, order: &[usize], minbytes: u64, cache: &std::path::Path, env: &[(&str, &str)]) -> std::process::Child {
    let mut c = Command::new(exe);
    for (k, v) in env {
        c.env(k, v);
    }
    c.arg("reuse").arg("--child").arg("1").arg("--sseed").arg(format!("{sseed:x}")).arg("--cycles").arg(cycles.to_string());
    c.arg("--mode").arg(mode).arg("--engine").arg(engine);
    c.arg("--order").arg(order.iter().map(|x| x.to_string()).collect::<Vec<_>>().join(","));
    c.env("VERYL_AOT_CACHE_DIR", cache).env("VERYL_DUT_REUSE_MIN_BYTES", minbytes.to_string()).env("RUST_BACKTRACE", "0");
    c.stdin(Stdio::null()).stdout(Stdio::piped()).stderr(Stdio::piped());
    c.spawn().expect("spawn child")
}

fn collect(ch: std::process::Child) -> SeqRun {
    let out = ch.wait_with_output().expect("child output");
    let so = String::from_utf8_lossy(&out.stdout).to_string();
    let se = String::from_utf8_lossy(&out.stderr).to_string();
    let mut r = SeqRun { status: if out.status.success() { "ok".into() } else { "crash".into() }, ..Default::default() };
    for l in so.lines() {
        let t: Vec<&str> = l.splitn(4, ' ').collect();
        if l.starts_with("rejected") {
            r.status = l.to_string();
            continue;
        }
        if t.len() < 3 {
            continue;
        }
        let pos: usize = t[1].parse().unwrap_or(0);
        let top: usize = t[2].parse().unwrap_or(0);
        let body = t.get(3).unwrap_or(&"").to_string();
        while r.tests.len() <= pos {
            r.tests.push((top, String::new(), String::new(), String::new(), String::new()));
        }
        r.tests[pos].0 = top;
        match t[0] {
            "test" => r.tests[pos].1 = body,
            "layout" => r.tests[pos].2 = body,
            "states" => r.tests[pos].3 = body,
            "duts" => r.tests[pos].4 = body,
            _ => {}
        }
    }
    if let Some(p) = se.lines().find(|l| l.starts_with("PANICMSG")) {
        r.panic_at = p.trim_start_matches("PANICMSG ").trim().to_string();
    }
    r
}

/// Is `path` (below a unit) a variable the unit owns (not a port aliased to the parent)?
fn unit_internal(rest: &str) -> bool {
    let leaf_path = rest.split('[').next().unwrap_or("");
    let leaf = leaf_path.rsplit('.').next().unwrap_or("");
    let depth = leaf_path.matches('.').count();
    if depth == 0 { CORE_INTERNALS.contains(&leaf) || ["h", "w0", "w1"].contains(&leaf) } else { CORE_INTERNALS.contains(&leaf) }
}

/// Model-correspondence lines (mode `reuse`, size floor 0): a component directly inside a top that
/// recurs across the tops of the sequence is the reuse boundary; `A` = its first conversion in the
/// process, `B` = a later instance, which `try_reuse_or_claim` serves by relocating `A`'s subtree.
fn reloc_lines(suite: &Suite, order: &[usize], run: &SeqRun, log: &mut Log, budget: &mut usize) {
    let mut first: BTreeMap<String, Vec<(String, char, i64, usize)>> = BTreeMap::new();
    // unit signature -> number of distinct tops of this sequence containing it (at any depth)
    let mut present: BTreeMap<String, Vec<usize>> = BTreeMap::new();
    for ti in order {
        let t = &suite.tops[*ti];
        for sg in t.units.iter().map(|u| &u.1).chain(t.insts.iter().map(|i| &i.1)) {
            let e = present.entry(sg.clone()).or_default();
            if !e.contains(ti) {
                e.push(*ti);
            }
        }
    }
    for (top, _, lay, _, _) in &run.tests {
        let entries: Vec<(String, char, i64, usize)> = lay
            .split(',')
            .filter_map(|e| {
                let p: Vec<&str> = e.rsplitn(4, ':').collect();
                if p.len() != 4 { return None; }
                Some((p[3].to_string(), p[2].chars().next()?, p[1].parse().ok()?, p[0].parse().ok()?))
            })
            .collect();
        for (ipath, sg) in &suite.tops[*top].units {
            if present.get(sg).map(|v| v.len()).unwrap_or(0) < 2 {
                continue;
            }
            let mut tab: Vec<(String, char, i64, usize)> = entries
                .iter()
                .filter_map(|(p, k, o, n)| {
                    let rest = p.strip_prefix(&format!("{ipath}."))?;
                    if unit_internal(rest) && *k != '?' { Some((rest.to_string(), *k, *o, *n)) } else { None }
                })
                .collect();
            tab.sort();
            if tab.is_empty() {
                continue;
            }
            match first.get(sg) {
                None => {
                    first.insert(sg.clone(), tab);
                }
                Some(a) => {
                    if *budget == 0 {
                        continue;
                    }
                    let fmt = |t: &Vec<(String, char, i64, usize)>| t.iter().map(|(_, k, o, n)| format!("{k}:{o}:{n}")).collect::<Vec<_>>().join(",");
                    let ffb = tab.iter().find(|x| x.1 == 'f').map(|x| x.2).unwrap_or(0);
                    let cb = tab.iter().find(|x| x.1 == 'c').map(|x| x.2).unwrap_or(0);
                    let same_names = a.iter().map(|x| &x.0).eq(tab.iter().map(|x| &x.0));
                    let imp = if same_names { format!("[{}]", fmt(&tab)) } else { "names-differ".to_string() };
                    log.push3(format!("reloc A=[{}] ffB={ffb} combB={cb}", fmt(a)), imp, "?".into());
                    log.count("reloc.lines");
                    log.count(if sg == "Mid" { "reloc.unit.Mid" } else { "reloc.unit.Core" });
                    if a.iter().map(|x| x.2).ne(tab.iter().map(|x| x.2)) {
                        log.count("reloc.nonzero_delta");
                    }
                    *budget -= 1;
                }
            }
        }
    }
}

fn run_suite(exe: &std::path::Path, sseed: u64, cycles: usize, par: usize, cache: &std::path::Path, thorough: bool, log: &mut Log) {
    let suite = gen_suite(sseed, cycles);
    let m = suite.tops.len();
    let mut r = Rng::new(sseed ^ 0x6f72_6465);
    let engine = *r.pick(&["jit", "jit", "interp", "cc"]);
    let minbytes: u64 = *r.pick(&[0u64, 0, 256]);
    // oracle: every test alone, from scratch, with the SAME engine (C34 compares an engine with
    // itself); the interpreter runs alone too, only to count engine disagreements as evidence
    let run_alone = |eng: &str| -> Vec<SeqRun> {
        let mut v = vec![];
        for chunk in (0..m).collect::<Vec<_>>().chunks(par.max(1)) {
            let chs: Vec<_> = chunk.iter().map(|i| spawn(exe, sseed, cycles, "fresh", eng, &[*i], minbytes, cache)).collect();
            for ch in chs {
                v.push(collect(ch));
            }
        }
        v
    };
    let alone = run_alone(engine);
    if engine != "interp" && thorough {
        let ia = run_alone("interp");
        let dis = ia.iter().zip(alone.iter()).filter(|(a, b)| a.tests.first().map(|t| &t.1) != b.tests.first().map(|t| &t.1)).count();
        if dis > 0 {
            log.count("suites.engines_already_disagree_with_interpreter");
        }
    }
    if alone.iter().any(|a| a.status != "ok" || a.tests.len() != 1 || a.tests[0].1.starts_with("error") || a.tests[0].1 == "panic") {
        let why = alone.iter().map(|a| if a.status != "ok" { a.status.clone() } else { a.tests.first().map(|t| t.1.clone()).unwrap_or_default() }).find(|s| s.starts_with("rejected") || s.starts_with("error") || s == "panic").unwrap_or("crash".into());
        log.push3(format!("suite {sseed:x} engine={engine} tops={m} minbytes={minbytes}"), format!("rejected {}", why.split_whitespace().take(8).collect::<Vec<_>>().join("_")), "?".into());
        log.count("suites.rejected");
        return;
    }
    log.push3(format!("suite {sseed:x} engine={engine} tops={m} minbytes={minbytes}"), "ok".into(), "?".into());
    log.count("suites");
    log.count(if is_reads_family(sseed) { "family.reads" } else { "family.core" });
    log.count(&format!("engine.{engine}"));
    log.count(&format!("minbytes.{minbytes}"));
    log.count(&format!("tops.{m}"));
    let oracle: Vec<String> = alone.iter().map(|a| a.tests[0].1.clone()).collect();
    // orders
    let ident: Vec<usize> = (0..m).collect();
    let mut orders: Vec<Vec<usize>> = vec![ident.clone(), ident.iter().rev().cloned().collect()];
    for _ in 0..(if thorough { 2 } else { 0 }) {
        let mut p = ident.clone();
        for i in (1..m).rev() {
            p.swap(i, r.below(i as u64 + 1) as usize);
        }
        if !orders.contains(&p) {
            orders.push(p);
        }
    }
    // every test twice (second conversions hit the ProtoModuleCache), shuffled
    let mut rep = ident.clone();
    rep.extend(ident.iter().rev());
    for i in (1..rep.len()).rev() {
        rep.swap(i, r.below(i as u64 + 1) as usize);
    }
    orders.push(rep);
    let modes = ["cached", "reuse", "reusefs"];
    let mut jobs: Vec<(&str, Vec<usize>)> = vec![("fresh", ident.clone())];
    for md in modes {
        for o in &orders {
            jobs.push((md, o.clone()));
        }
    }
    let mut results: Vec<(&str, Vec<usize>, SeqRun)> = vec![];
    for chunk in jobs.chunks(par.max(1)) {
        let chs: Vec<_> = chunk.iter().map(|(md, o)| (*md, o.clone(), spawn(exe, sseed, cycles, md, engine, o, minbytes, cache))).collect();
        for (md, o, ch) in chs {
            results.push((md, o, collect(ch)));
        }
    }
    let mut reloc_budget = 10usize;
    for (md, o, run) in &results {
        let os = o.iter().map(|x| x.to_string()).collect::<Vec<_>>().join(",");
        log.count("sequences");
        for (pos, ti) in o.iter().enumerate() {
            let imp = match run.tests.get(pos) {
                Some(t) if run.status == "ok" => {
                    if t.1 == "panic" { format!("panic@{}", run.panic_at) } else { t.1.clone() }
                }
                _ => format!("{} {}", run.status, run.panic_at),
            };
            log.push3(format!("test {sseed:x} mode={md} order={os} pos={pos} top={ti}"), imp, oracle[*ti].clone());
            log.count("tests");
            log.count(&format!("tests.{md}"));
        }
        // twins
        if let Some((a, b)) = suite.twin {
            let pa = o.iter().position(|x| *x == a);
            let pb = o.iter().position(|x| *x == b);
            if let (Some(pa), Some(pb)) = (pa, pb) {
                if let (Some(ta), Some(tb)) = (run.tests.get(pa), run.tests.get(pb)) {
                    let imp = if !ta.4.is_empty() && ta.4 == tb.4 { "eq" } else { "diff" };
                    log.push3(format!("twin {sseed:x} mode={md} order={os}"), imp.into(), "eq".into());
                    log.count("twin.lines");
                }
            }
        }

    }
    // model correspondence of the relocation: one more run, without the comb relayout pass
    // (`VERYL_COMB_LAYOUT=0`: that pass permutes the final comb space, relocation acts before it)
    if minbytes == 0 {
        for o in orders.iter().take(if thorough { 2 } else { 1 }) {
            let run = collect(spawn_env(exe, sseed, cycles, "reuse", engine, o, minbytes, cache, &[("VERYL_COMB_LAYOUT", "0")]));
            if run.status == "ok" {
                reloc_lines(&suite, o, &run, log, &mut reloc_budget);
            }
        }
    }
    // layout + full state of every top must not depend on the order (per mode)
    for md in ["cached", "reuse", "reusefs"] {
        for ti in 0..m {
            let mut seen: Vec<(String, String)> = vec![];
            for (rmd, o, run) in &results {
                if *rmd != md || run.status != "ok" {
                    continue;
                }
                for (pos, x) in o.iter().enumerate() {
                    if *x == ti {
                        if let Some(t) = run.tests.get(pos) {
                            let key = (t.2.clone(), t.3.clone());
                            if !seen.contains(&key) {
                                seen.push(key);
                            }
                        }
                    }
                }
            }
            let imp = if seen.len() <= 1 { "same" } else { "differs" };
            // `reads` family under dut_reuse: two tops with the same comb part AND the same event census
            // legitimately share one cached comb pipeline, whose relayout order was fixed by whichever
            // came first — the layout may differ by order there (traces may not): evidence only
            let strict = md != "reusefs" && !(is_reads_family(sseed) && md == "reuse");
            log.push3(format!("layout {sseed:x} mode={md} top={ti}"), imp.into(), if strict { "same".into() } else { "?".into() });
            log.count(&format!("layout.{md}.{imp}"));
        }
    }
    if log.samples.len() < 2 {
        log.sample(format!("{sseed:x} engine={engine} {}", suite.code.replace('\n', "⏎")).chars().take(1400).collect());
    }
}

pub fn main(opts: &Opts) -> i32 {
    if opts.get("child").is_some() {
        return child(opts);
    }
    let out = opts.out();
    let exe = std::env::current_exe().expect("current exe");
    let cache = out.join("aotcache");
    let _ = std::fs::create_dir_all(&cache);
    let cycles = opts.num("cycles", 8) as usize;
    let par = opts.num("par", 4) as usize;
    let mut log = Log::new();
    if let Some(ds) = opts.get("dump") {
        let ds = u64::from_str_radix(ds, 16).unwrap_or(1);
        std::fs::write(out.join("suite.veryl"), gen_suite(ds, cycles).code).unwrap();
        return 0;
    }
    if let Some(f) = opts.get("replay") {
        let text = std::fs::read_to_string(f).unwrap_or_default();
        let mut done = vec![];
        for l in text.lines() {
            let t: Vec<&str> = l.split_whitespace().collect();
            if t.len() >= 2 && ["suite", "test", "layout", "twin"].contains(&t[0]) {
                if let Ok(s) = u64::from_str_radix(t[1], 16) {
                    if !done.contains(&s) {
                        done.push(s);
                        run_suite(&exe, s, cycles, par, &cache, true, &mut log);
                    }
                }
            }
        }
    } else {
        let mut r = Rng::new(opts.seed() ^ 0x3434);
        let t0 = std::time::Instant::now();
        let budget = opts.num("budget-s", 100_000);
        let min_n = opts.num("min-n", 2);
        let thorough = opts.num("thorough", 0) != 0;
        for i in 0..opts.num("n", 5) {
            if i >= min_n && t0.elapsed().as_secs() > budget {
                log.count("stopped_early_on_time_budget");
                break;
            }
            // every third suite (the first one included) is of the `reads` family (low bits 11)
            let s = if i % 3 == 0 { (r.next() >> 16) | 3 } else { (r.next() >> 16) & !1 };
            run_suite(&exe, s, cycles, par, &cache, thorough, &mut log);
        }
    }
    // hypothesis probe (evidence only)
    if let Ok(o) = Command::new(&exe).args(["reuse", "--child", "1", "--mode", "stale-probe"]).output() {
        let t = String::from_utf8_lossy(&o.stdout).to_string();
        // first analysis: a + 1 = 0b; second analysis defines a + 2 = 0c; a stale hit answers 0b again
        log.count(match t.trim() {
            "probe 0b,0b" => "probe.cache_across_analyses.stale_hit_reproduced",
            "probe 0b,0c" => "probe.cache_across_analyses.no_stale_hit",
            _ => "probe.cache_across_analyses.inconclusive",
        });
    }
    let _ = std::fs::remove_dir_all(&cache);
    log.write(&out);
    0
}
