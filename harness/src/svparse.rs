//! A small SystemVerilog AST for the subset `veryl-emitter` produces for the `emit` domain's
//! designs (and that the `translate` domain feeds to `veryl-translator`), with
//!   * a recursive-descent parser for the emitted text (operator chains are kept FLAT and
//!     parentheses are kept: precedence is resolved by the Lean model `SV.resolve`, not here),
//!   * a printer to SystemVerilog text (input of the translator),
//!   * a printer to the comma-separated Polish notation read by `vmodel sv`.
//! Anything outside the subset is `Err(reason)` = "unsupported" (counted, never a violation).
use std::collections::BTreeMap;

#[derive(Clone, Debug, PartialEq)]
pub enum SvExpr {
    Var(String),
    BitSel(String, u64),
    PartSel(String, u64, u64),
    /// width, signed, value (lower-case hex, no leading zeros)
    Lit(u64, bool, String),
    /// unsized decimal (32-bit signed)
    Dec(String),
    Fill(bool),
    Un(&'static str, Box<SvExpr>),
    Chain(Box<SvExpr>, Vec<(&'static str, SvExpr)>),
    Paren(Box<SvExpr>),
    Cond(Box<SvExpr>, Box<SvExpr>, Box<SvExpr>),
    Cat(Vec<SvExpr>),
    Rep(u64, Box<SvExpr>),
    SizeCast(u64, Box<SvExpr>),
    /// byte'/shortint'/int'/longint'
    TypeCast(u64, Box<SvExpr>),
    /// sys: `$signed(..)` rather than `signed'(..)`
    SignCast(bool, bool, Box<SvExpr>),
}

#[derive(Clone, Debug, PartialEq)]
pub enum SvLhs {
    Var(String),
    BitSel(String, u64),
    PartSel(String, u64, u64),
}

#[derive(Clone, Debug, PartialEq)]
pub enum SvStmt {
    Skip,
    Assign(bool, SvLhs, SvExpr),
    Block(Vec<SvStmt>),
    If(SvExpr, Box<SvStmt>, Box<SvStmt>),
    Case(SvExpr, Vec<(Vec<SvExpr>, SvStmt)>, Box<SvStmt>),
}

#[derive(Clone, Debug, PartialEq)]
pub struct SvDecl {
    pub name: String,
    pub width: u64,
    pub signed: bool,
    /// 0 = input, 1 = output, 2 = internal
    pub kind: u8,
}

#[derive(Clone, Debug, PartialEq)]
pub enum SvItem {
    Comb(SvStmt),
    /// clock edge is posedge, clock, optional (reset edge is posedge, reset), body
    Ff(bool, String, Option<(bool, String)>, SvStmt),
}

#[derive(Clone, Debug, PartialEq)]
pub struct SvModule {
    pub name: String,
    pub decls: Vec<SvDecl>,
    pub items: Vec<SvItem>,
}

pub const UNOPS: &[(&str, &str)] = &[
    ("+", "pos"),
    ("-", "neg"),
    ("~", "not"),
    ("!", "lnot"),
    ("&", "rand"),
    ("|", "ror"),
    ("^", "rxor"),
    ("~&", "rnand"),
    ("~|", "rnor"),
    ("~^", "rxnor"),
];

pub const BINOPS: &[(&str, &str)] = &[
    ("**", "pow"),
    ("*", "mul"),
    ("/", "div"),
    ("%", "mod"),
    ("+", "add"),
    ("-", "sub"),
    ("<<<", "ashl"),
    (">>>", "ashr"),
    ("<<", "shl"),
    (">>", "shr"),
    ("<=", "le"),
    (">=", "ge"),
    ("<", "lt"),
    (">", "gt"),
    ("==", "eq"),
    ("!=", "ne"),
    ("&&", "land"),
    ("||", "lor"),
    ("&", "and"),
    ("~^", "xnor"),
    ("^", "xor"),
    ("|", "or"),
];

pub fn unop_name(sym: &str) -> &'static str {
    UNOPS.iter().find(|x| x.0 == sym).map(|x| x.1).unwrap_or("?")
}
pub fn binop_name(sym: &str) -> &'static str {
    BINOPS.iter().find(|x| x.0 == sym).map(|x| x.1).unwrap_or("?")
}
fn unop_static(sym: &str) -> Option<&'static str> {
    UNOPS.iter().find(|x| x.0 == sym).map(|x| x.0)
}
fn binop_static(sym: &str) -> Option<&'static str> {
    BINOPS.iter().find(|x| x.0 == sym).map(|x| x.0)
}

// ------------------------------------------------------------------------------------------------
// tokens

#[derive(Clone, Debug, PartialEq)]
pub enum Tok {
    Id(String),
    /// plain decimal digits (no base)
    Num(String),
    /// based literal: width (None = unsized), signed, base char, digits
    Based(Option<u64>, bool, char, String),
    Fill(char),
    /// `'(` of a cast
    CastOpen,
    Sym(&'static str),
}

const SYMS: &[&str] = &[
    "<<<", ">>>", "<<", ">>", "<=", ">=", "==", "!=", "&&", "||", "**", "++", "--", "~^", "^~", "~&", "~|", "(", ")", "[", "]", "{", "}", ",", ";", ":", "?", "@", "=", "+",
    "-", "*", "/", "%", "<", ">", "&", "|", "^", "~", "!", "#", ".",
];

pub fn lex(src: &str) -> Result<Vec<Tok>, String> {
    let b = src.as_bytes();
    let mut i = 0;
    let mut out = vec![];
    while i < b.len() {
        let c = b[i] as char;
        if c.is_ascii_whitespace() {
            i += 1;
            continue;
        }
        if c == '/' && i + 1 < b.len() && b[i + 1] == b'/' {
            while i < b.len() && b[i] != b'\n' {
                i += 1;
            }
            continue;
        }
        if c == '/' && i + 1 < b.len() && b[i + 1] == b'*' {
            i += 2;
            while i + 1 < b.len() && !(b[i] == b'*' && b[i + 1] == b'/') {
                i += 1;
            }
            i += 2;
            continue;
        }
        if c.is_ascii_alphabetic() || c == '_' || c == '$' {
            let st = i;
            i += 1;
            while i < b.len() && ((b[i] as char).is_ascii_alphanumeric() || b[i] == b'_' || b[i] == b'$') {
                i += 1;
            }
            out.push(Tok::Id(src[st..i].to_string()));
            if i + 1 < b.len() && b[i] == b'\'' && b[i + 1] == b'(' {
                out.push(Tok::CastOpen);
                i += 2;
            }
            continue;
        }
        if c.is_ascii_digit() || c == '\'' {
            let st = i;
            while i < b.len() && ((b[i] as char).is_ascii_digit() || b[i] == b'_') {
                i += 1;
            }
            let digits: String = src[st..i].chars().filter(|x| *x != '_').collect();
            if i < b.len() && b[i] == b'\'' {
                if i + 1 < b.len() && b[i + 1] == b'(' {
                    if digits.is_empty() {
                        return Err("lex: '( without a prefix".into());
                    }
                    out.push(Tok::Num(digits));
                    out.push(Tok::CastOpen);
                    i += 2;
                    continue;
                }
                i += 1;
                if i >= b.len() {
                    return Err("lex: dangling '".into());
                }
                let mut signed = false;
                let mut ch = (b[i] as char).to_ascii_lowercase();
                if digits.is_empty() && matches!(ch, '0' | '1' | 'x' | 'z') {
                    // '0 '1 (but not '0 followed by more digits of a based literal)
                    out.push(Tok::Fill(ch));
                    i += 1;
                    continue;
                }
                if ch == 's' {
                    signed = true;
                    i += 1;
                    ch = (b[i] as char).to_ascii_lowercase();
                }
                if !matches!(ch, 'b' | 'o' | 'd' | 'h') {
                    return Err(format!("lex: base {ch}"));
                }
                i += 1;
                let st2 = i;
                while i < b.len() && ((b[i] as char).is_ascii_alphanumeric() || b[i] == b'_' || b[i] == b'?') {
                    i += 1;
                }
                let val: String = src[st2..i].chars().filter(|x| *x != '_').collect::<String>().to_ascii_lowercase();
                let width = if digits.is_empty() { None } else { Some(digits.parse::<u64>().map_err(|e| e.to_string())?) };
                out.push(Tok::Based(width, signed, ch, val));
                continue;
            }
            out.push(Tok::Num(digits));
            continue;
        }
        let mut matched = false;
        for s in SYMS {
            if src[i..].starts_with(s) {
                out.push(Tok::Sym(s));
                i += s.len();
                matched = true;
                break;
            }
        }
        if !matched {
            return Err(format!("lex: character {c:?}"));
        }
    }
    Ok(out)
}

/// digits in `base` -> lower-case hex without leading zeros (u128 range for decimal)
pub fn to_hex(base: char, digits: &str) -> Result<String, String> {
    if digits.is_empty() {
        return Err("empty literal".into());
    }
    if digits.chars().any(|c| matches!(c, 'x' | 'z' | '?')) {
        return Err("x/z literal".into());
    }
    let bits_per = match base {
        'b' => 1,
        'o' => 3,
        'h' => 4,
        'd' => {
            let v: u128 = digits.parse().map_err(|_| "decimal literal beyond 128 bits".to_string())?;
            return Ok(format!("{v:x}"));
        }
        _ => return Err("base".into()),
    };
    let mut bits: Vec<u8> = vec![];
    for c in digits.chars() {
        let d = c.to_digit(16).ok_or("digit")?;
        if d >= (1 << bits_per) {
            return Err("digit out of base".into());
        }
        for k in (0..bits_per).rev() {
            bits.push(((d >> k) & 1) as u8);
        }
    }
    while bits.len() % 4 != 0 {
        bits.insert(0, 0);
    }
    let mut s = String::new();
    for ch in bits.chunks(4) {
        let d = ch.iter().fold(0u32, |a, b| a * 2 + *b as u32);
        s.push(std::char::from_digit(d, 16).unwrap());
    }
    let t = s.trim_start_matches('0');
    Ok(if t.is_empty() { "0".into() } else { t.to_string() })
}

/// keep the low `w` bits of a hex string
pub fn hex_trunc(h: &str, w: u64) -> String {
    let nd = w.div_ceil(4) as usize;
    let mut s: String = if h.len() > nd { h[h.len() - nd..].to_string() } else { h.to_string() };
    let rem = (w % 4) as u32;
    if rem != 0 && s.len() == nd {
        let d = s.chars().next().unwrap().to_digit(16).unwrap() & ((1 << rem) - 1);
        s.replace_range(0..1, &std::char::from_digit(d, 16).unwrap().to_string());
    }
    let t = s.trim_start_matches('0');
    if t.is_empty() { "0".into() } else { t.to_string() }
}

// ------------------------------------------------------------------------------------------------
// parser

pub struct P {
    t: Vec<Tok>,
    i: usize,
}

type R<T> = Result<T, String>;

impl P {
    pub fn new(src: &str) -> R<P> {
        Ok(P { t: lex(src)?, i: 0 })
    }
    fn peek(&self) -> Option<&Tok> {
        self.t.get(self.i)
    }
    fn peek2(&self) -> Option<&Tok> {
        self.t.get(self.i + 1)
    }
    fn next(&mut self) -> R<Tok> {
        let t = self.t.get(self.i).cloned().ok_or("unexpected end")?;
        self.i += 1;
        Ok(t)
    }
    fn is_sym(&self, s: &str) -> bool {
        matches!(self.peek(), Some(Tok::Sym(x)) if *x == s)
    }
    fn is_id(&self, s: &str) -> bool {
        matches!(self.peek(), Some(Tok::Id(x)) if x == s)
    }
    fn eat_sym(&mut self, s: &str) -> bool {
        if self.is_sym(s) {
            self.i += 1;
            true
        } else {
            false
        }
    }
    fn eat_id(&mut self, s: &str) -> bool {
        if self.is_id(s) {
            self.i += 1;
            true
        } else {
            false
        }
    }
    fn expect_sym(&mut self, s: &str) -> R<()> {
        if self.eat_sym(s) { Ok(()) } else { Err(format!("expected {s} at token {} ({:?})", self.i, self.peek())) }
    }
    fn expect_id(&mut self, s: &str) -> R<()> {
        if self.eat_id(s) { Ok(()) } else { Err(format!("expected {s} at token {} ({:?})", self.i, self.peek())) }
    }
    fn ident(&mut self) -> R<String> {
        match self.next()? {
            Tok::Id(x) => Ok(x),
            t => Err(format!("expected identifier, got {t:?}")),
        }
    }
    fn number(&mut self) -> R<u64> {
        match self.next()? {
            Tok::Num(x) => x.parse::<u64>().map_err(|e| e.to_string()),
            t => Err(format!("expected number, got {t:?}")),
        }
    }
    pub fn at_end(&self) -> bool {
        self.i >= self.t.len()
    }

    /// `[N-1:0]` or `[H:L]` -> width; absent -> 1
    fn packed_dim(&mut self) -> R<u64> {
        if !self.eat_sym("[") {
            return Ok(1);
        }
        let hi = self.const_expr()?;
        self.expect_sym(":")?;
        let lo = self.const_expr()?;
        self.expect_sym("]")?;
        if lo != 0 || hi < lo {
            return Err("packed dimension with non-zero low bound".into());
        }
        Ok(hi - lo + 1)
    }

    /// `N`, `N-1`, `N+1`
    fn const_expr(&mut self) -> R<u64> {
        let mut v = self.number()?;
        loop {
            if self.eat_sym("-") {
                let x = self.number()?;
                v = v.checked_sub(x).ok_or("negative constant")?;
            } else if self.eat_sym("+") {
                v += self.number()?;
            } else {
                return Ok(v);
            }
        }
    }

    fn data_type(&mut self) -> R<(u64, bool)> {
        // [var] logic|bit [signed] [dim]
        self.eat_id("var");
        if !(self.eat_id("logic") || self.eat_id("bit")) {
            return Err(format!("type {:?}", self.peek()));
        }
        let mut signed = false;
        if self.eat_id("signed") {
            signed = true;
        } else {
            self.eat_id("unsigned");
        }
        let w = self.packed_dim()?;
        if self.is_sym("[") {
            return Err("multi-dimensional".into());
        }
        Ok((w, signed))
    }

    pub fn module(&mut self) -> R<SvModule> {
        self.expect_id("module")?;
        let name = self.ident()?;
        let mut decls = vec![];
        if self.is_sym("#") {
            return Err("parameters".into());
        }
        self.expect_sym("(")?;
        if !self.is_sym(")") {
            loop {
                let kind = if self.eat_id("input") {
                    0
                } else if self.eat_id("output") {
                    1
                } else {
                    return Err(format!("port direction {:?}", self.peek()));
                };
                let (width, signed) = self.data_type()?;
                let name = self.ident()?;
                if self.is_sym("[") {
                    return Err("unpacked port".into());
                }
                decls.push(SvDecl { name, width, signed, kind });
                if !self.eat_sym(",") {
                    break;
                }
            }
        }
        self.expect_sym(")")?;
        self.expect_sym(";")?;
        let mut items = vec![];
        loop {
            if self.eat_id("endmodule") {
                break;
            }
            if self.is_id("logic") || self.is_id("bit") || self.is_id("var") {
                let (width, signed) = self.data_type()?;
                loop {
                    let name = self.ident()?;
                    if self.is_sym("[") || self.is_sym("=") {
                        return Err("unpacked array / initialiser".into());
                    }
                    decls.push(SvDecl { name, width, signed, kind: 2 });
                    if !self.eat_sym(",") {
                        break;
                    }
                }
                self.expect_sym(";")?;
            } else if self.eat_id("always_comb") {
                items.push(SvItem::Comb(self.stmt()?));
            } else if self.eat_id("assign") {
                let l = self.lhs()?;
                self.expect_sym("=")?;
                let e = self.expr()?;
                self.expect_sym(";")?;
                items.push(SvItem::Comb(SvStmt::Assign(false, l, e)));
            } else if self.eat_id("always_ff") {
                self.expect_sym("@")?;
                self.expect_sym("(")?;
                let ce = self.edge()?;
                let clk = self.ident()?;
                let rst = if self.eat_sym(",") || self.eat_id("or") {
                    let re = self.edge()?;
                    Some((re, self.ident()?))
                } else {
                    None
                };
                self.expect_sym(")")?;
                items.push(SvItem::Ff(ce, clk, rst, self.stmt()?));
            } else {
                return Err(format!("module item {:?}", self.peek()));
            }
        }
        Ok(SvModule { name, decls, items })
    }

    fn edge(&mut self) -> R<bool> {
        if self.eat_id("posedge") {
            Ok(true)
        } else if self.eat_id("negedge") {
            Ok(false)
        } else {
            Err(format!("edge {:?}", self.peek()))
        }
    }

    fn lhs(&mut self) -> R<SvLhs> {
        let name = self.ident()?;
        if self.eat_sym("[") {
            let hi = self.const_expr()?;
            let r = if self.eat_sym(":") {
                let lo = self.const_expr()?;
                if lo > hi {
                    return Err("descending select".into());
                }
                SvLhs::PartSel(name, hi, lo)
            } else {
                SvLhs::BitSel(name, hi)
            };
            self.expect_sym("]")?;
            if self.is_sym("[") {
                return Err("multi-dimensional select".into());
            }
            Ok(r)
        } else {
            Ok(SvLhs::Var(name))
        }
    }

    pub fn stmt(&mut self) -> R<SvStmt> {
        if self.eat_sym(";") {
            return Ok(SvStmt::Skip);
        }
        if self.eat_id("begin") {
            if self.eat_sym(":") {
                return Err("named block".into());
            }
            let mut v = vec![];
            while !self.eat_id("end") {
                v.push(self.stmt()?);
            }
            return Ok(SvStmt::Block(v));
        }
        if self.is_id("unique") || self.is_id("unique0") || self.is_id("priority") {
            return Err("unique/priority".into());
        }
        if self.eat_id("if") {
            self.expect_sym("(")?;
            let c = self.expr()?;
            self.expect_sym(")")?;
            let t = self.stmt()?;
            let e = if self.eat_id("else") { self.stmt()? } else { SvStmt::Skip };
            return Ok(SvStmt::If(c, Box::new(t), Box::new(e)));
        }
        if self.eat_id("case") {
            self.expect_sym("(")?;
            let sel = self.expr()?;
            self.expect_sym(")")?;
            if self.is_id("inside") {
                return Err("case inside".into());
            }
            let mut arms = vec![];
            let mut dflt = SvStmt::Skip;
            loop {
                if self.eat_id("endcase") {
                    break;
                }
                if self.eat_id("default") {
                    self.eat_sym(":");
                    dflt = self.stmt()?;
                    continue;
                }
                let mut labels = vec![self.expr()?];
                while self.eat_sym(",") {
                    labels.push(self.expr()?);
                }
                self.expect_sym(":")?;
                let body = self.stmt()?;
                arms.push((labels, body));
            }
            return Ok(SvStmt::Case(sel, arms, Box::new(dflt)));
        }
        if self.is_id("casez") || self.is_id("casex") || self.is_id("for") || self.is_id("while") {
            return Err(format!("statement {:?}", self.peek()));
        }
        let l = self.lhs()?;
        let nb = if self.eat_sym("=") {
            false
        } else if self.eat_sym("<=") {
            true
        } else {
            return Err(format!("assignment operator {:?}", self.peek()));
        };
        let e = self.expr()?;
        self.expect_sym(";")?;
        Ok(SvStmt::Assign(nb, l, e))
    }

    /// chain [ ? expr : expr ]
    pub fn expr(&mut self) -> R<SvExpr> {
        let c = self.chain()?;
        if self.eat_sym("?") {
            let a = self.expr()?;
            self.expect_sym(":")?;
            let b = self.expr()?;
            return Ok(SvExpr::Cond(Box::new(c), Box::new(a), Box::new(b)));
        }
        Ok(c)
    }

    fn chain(&mut self) -> R<SvExpr> {
        let first = self.unary()?;
        let mut rest = vec![];
        loop {
            let op = match self.peek() {
                Some(Tok::Sym(s)) => match binop_static(if *s == "^~" { "~^" } else { s }) {
                    Some(op) => op,
                    None => break,
                },
                _ => break,
            };
            self.i += 1;
            rest.push((op, self.unary()?));
        }
        if rest.is_empty() { Ok(first) } else { Ok(SvExpr::Chain(Box::new(first), rest)) }
    }

    fn unary(&mut self) -> R<SvExpr> {
        if self.is_sym("++") || self.is_sym("--") {
            return Err("increment/decrement operator (two unary operators glued)".into());
        }
        if let Some(Tok::Sym(s)) = self.peek() {
            let s = if *s == "^~" { "~^" } else { s };
            if let Some(op) = unop_static(s) {
                self.i += 1;
                let a = self.unary()?;
                return Ok(SvExpr::Un(op, Box::new(a)));
            }
        }
        self.primary()
    }

    fn primary(&mut self) -> R<SvExpr> {
        match self.next()? {
            Tok::Num(d) => {
                if matches!(self.peek(), Some(Tok::CastOpen)) {
                    self.i += 1;
                    let e = self.expr()?;
                    self.expect_sym(")")?;
                    let n: u64 = d.parse().map_err(|_| "cast width")?;
                    return Ok(SvExpr::SizeCast(n, Box::new(e)));
                }
                let h = to_hex('d', &d)?;
                if u128::from_str_radix(&h, 16).map_err(|_| "decimal")? >= (1u128 << 32) {
                    return Err("unsized decimal beyond 32 bits".into());
                }
                Ok(SvExpr::Dec(h))
            }
            Tok::Based(w, s, base, digits) => {
                let w = w.ok_or("unsized based literal")?;
                if w == 0 {
                    return Err("zero-width literal".into());
                }
                let h = to_hex(base, &digits)?;
                Ok(SvExpr::Lit(w, s, hex_trunc(&h, w)))
            }
            Tok::Fill(c) => match c {
                '0' => Ok(SvExpr::Fill(false)),
                '1' => Ok(SvExpr::Fill(true)),
                _ => Err("'x / 'z".into()),
            },
            Tok::Sym("(") => {
                let e = self.expr()?;
                self.expect_sym(")")?;
                if matches!(self.peek(), Some(Tok::CastOpen)) {
                    return Err("(N)'(x) cast".into());
                }
                Ok(SvExpr::Paren(Box::new(e)))
            }
            Tok::Sym("{") => {
                let first = self.expr()?;
                if self.eat_sym("{") {
                    // {n{a, b}}
                    let n = match &first {
                        SvExpr::Dec(h) => u64::from_str_radix(h, 16).map_err(|e| e.to_string())?,
                        _ => return Err("replication count".into()),
                    };
                    let mut v = vec![self.expr()?];
                    while self.eat_sym(",") {
                        v.push(self.expr()?);
                    }
                    self.expect_sym("}")?;
                    self.expect_sym("}")?;
                    let inner = if v.len() == 1 { v.pop().unwrap() } else { SvExpr::Cat(v) };
                    return Ok(SvExpr::Rep(n, Box::new(inner)));
                }
                let mut v = vec![first];
                while self.eat_sym(",") {
                    v.push(self.expr()?);
                }
                self.expect_sym("}")?;
                Ok(SvExpr::Cat(v))
            }
            Tok::Id(name) => {
                if matches!(self.peek(), Some(Tok::CastOpen)) {
                    self.i += 1;
                    let e = self.expr()?;
                    self.expect_sym(")")?;
                    return match name.as_str() {
                        "signed" => Ok(SvExpr::SignCast(false, true, Box::new(e))),
                        "unsigned" => Ok(SvExpr::SignCast(false, false, Box::new(e))),
                        "byte" => Ok(SvExpr::TypeCast(8, Box::new(e))),
                        "shortint" => Ok(SvExpr::TypeCast(16, Box::new(e))),
                        "int" => Ok(SvExpr::TypeCast(32, Box::new(e))),
                        "longint" => Ok(SvExpr::TypeCast(64, Box::new(e))),
                        _ => Err(format!("cast to {name}")),
                    };
                }
                if name == "$signed" || name == "$unsigned" {
                    self.expect_sym("(")?;
                    let e = self.expr()?;
                    self.expect_sym(")")?;
                    return Ok(SvExpr::SignCast(true, name == "$signed", Box::new(e)));
                }
                if name.starts_with('$') {
                    return Err(format!("system function {name}"));
                }
                if self.is_sym("(") || self.is_sym(".") {
                    return Err("call / hierarchical name".into());
                }
                if self.eat_sym("[") {
                    let hi = match (self.peek(), self.peek2()) {
                        (Some(Tok::Num(_)), _) => self.const_expr()?,
                        _ => return Err("non-constant select".into()),
                    };
                    let r = if self.eat_sym(":") {
                        let lo = self.const_expr()?;
                        if lo > hi {
                            return Err("descending select".into());
                        }
                        SvExpr::PartSel(name, hi, lo)
                    } else if self.is_sym("+") || self.is_sym("-") {
                        return Err("indexed part select".into());
                    } else {
                        SvExpr::BitSel(name, hi)
                    };
                    self.expect_sym("]")?;
                    if self.is_sym("[") {
                        return Err("multi-dimensional select".into());
                    }
                    return Ok(r);
                }
                Ok(SvExpr::Var(name))
            }
            t => Err(format!("primary {t:?}")),
        }
    }
}

pub fn parse_module(src: &str) -> Result<SvModule, String> {
    let mut p = P::new(src)?;
    let m = p.module()?;
    if !p.at_end() {
        return Err("trailing text after endmodule".into());
    }
    Ok(m)
}

// ------------------------------------------------------------------------------------------------
// Polish notation for `vmodel sv`

pub type Ids = BTreeMap<String, usize>;

fn id_of(ids: &Ids, n: &str) -> Result<usize, String> {
    ids.get(n).copied().ok_or_else(|| format!("unknown name {n}"))
}

pub fn expr_polish(e: &SvExpr, ids: &Ids, out: &mut Vec<String>) -> Result<(), String> {
    match e {
        SvExpr::Var(n) => out.push(format!("v{}", id_of(ids, n)?)),
        SvExpr::BitSel(n, i) => out.push(format!("b{}:{}", id_of(ids, n)?, i)),
        SvExpr::PartSel(n, h, l) => out.push(format!("s{}:{}:{}", id_of(ids, n)?, h, l)),
        SvExpr::Lit(w, s, v) => out.push(format!("l{}:{}:{}", w, if *s { "s" } else { "u" }, v)),
        SvExpr::Dec(v) => out.push(format!("d{v}")),
        SvExpr::Fill(b) => out.push(format!("f{}", *b as u8)),
        SvExpr::Un(op, a) => {
            out.push(unop_name(op).to_string());
            expr_polish(a, ids, out)?;
        }
        SvExpr::Chain(f, rest) => {
            out.push("chain".into());
            out.push(rest.len().to_string());
            expr_polish(f, ids, out)?;
            for (op, x) in rest {
                out.push(binop_name(op).to_string());
                expr_polish(x, ids, out)?;
            }
        }
        SvExpr::Paren(a) => {
            out.push("par".into());
            expr_polish(a, ids, out)?;
        }
        SvExpr::Cond(c, a, b) => {
            out.push("cond".into());
            expr_polish(c, ids, out)?;
            expr_polish(a, ids, out)?;
            expr_polish(b, ids, out)?;
        }
        SvExpr::Cat(v) => {
            // n-ary -> right-nested binary
            if v.is_empty() {
                return Err("empty concatenation".into());
            }
            let mut tmp: Vec<Vec<String>> = vec![];
            for x in v {
                let mut o = vec![];
                expr_polish(x, ids, &mut o)?;
                tmp.push(o);
            }
            // right-nested: cat a (cat b c) = `cat a cat b c` in prefix form
            let n = v.len();
            if n == 1 {
                // `{x}` = `{1{x}}`: self-determined, unsigned
                out.push("rep1".into());
            }
            for (k, o) in tmp.into_iter().enumerate() {
                if k + 1 < n {
                    out.push("cat".into());
                }
                out.extend(o);
            }
        }
        SvExpr::Rep(n, a) => {
            out.push(format!("rep{n}"));
            expr_polish(a, ids, out)?;
        }
        SvExpr::SizeCast(n, a) => {
            out.push(format!("sz{n}"));
            expr_polish(a, ids, out)?;
        }
        SvExpr::TypeCast(w, a) => {
            out.push(format!("ty{w}"));
            expr_polish(a, ids, out)?;
        }
        SvExpr::SignCast(sys, s, a) => {
            out.push(format!("{}sg{}", if *sys { "s" } else { "" }, if *s { "s" } else { "u" }));
            expr_polish(a, ids, out)?;
        }
    }
    Ok(())
}

pub fn lhs_polish(l: &SvLhs, ids: &Ids) -> Result<String, String> {
    Ok(match l {
        SvLhs::Var(n) => format!("v{}", id_of(ids, n)?),
        SvLhs::BitSel(n, i) => format!("b{}:{}", id_of(ids, n)?, i),
        SvLhs::PartSel(n, h, l) => format!("s{}:{}:{}", id_of(ids, n)?, h, l),
    })
}

pub fn stmt_polish(s: &SvStmt, ids: &Ids, out: &mut Vec<String>) -> Result<(), String> {
    match s {
        SvStmt::Skip => out.push("skip".into()),
        SvStmt::Assign(nb, l, e) => {
            out.push(if *nb { "nba".into() } else { "ba".into() });
            out.push(lhs_polish(l, ids)?);
            expr_polish(e, ids, out)?;
        }
        SvStmt::Block(v) => {
            if v.is_empty() {
                out.push("skip".into());
            } else {
                for (k, x) in v.iter().enumerate() {
                    if k + 1 < v.len() {
                        out.push("seq".into());
                    }
                    stmt_polish(x, ids, out)?;
                }
            }
        }
        SvStmt::If(c, t, e) => {
            out.push("if".into());
            expr_polish(c, ids, out)?;
            stmt_polish(t, ids, out)?;
            stmt_polish(e, ids, out)?;
        }
        SvStmt::Case(sel, arms, d) => {
            out.push("case".into());
            expr_polish(sel, ids, out)?;
            out.push(arms.len().to_string());
            for (labels, body) in arms {
                out.push(labels.len().to_string());
                for l in labels {
                    expr_polish(l, ids, out)?;
                }
                stmt_polish(body, ids, out)?;
            }
            stmt_polish(d, ids, out)?;
        }
    }
    Ok(())
}

/// `mod <ndecl> <w><s|u>… <nin> ids… <nout> ids… <nitems> items…`; `order` = names by identifier
/// (every declared name of the module must be in it), `ins`/`outs` = data ports in trace order.
pub fn module_polish(m: &SvModule, order: &[String], ins: &[String], outs: &[String]) -> Result<String, String> {
    let mut ids = Ids::new();
    for (i, n) in order.iter().enumerate() {
        ids.insert(n.clone(), i);
    }
    let mut out: Vec<String> = vec!["mod".into(), order.len().to_string()];
    for n in order {
        let d = m.decls.iter().find(|d| &d.name == n).ok_or_else(|| format!("name {n} not declared in the module"))?;
        out.push(format!("{}{}", d.width, if d.signed { "s" } else { "u" }));
    }
    for d in &m.decls {
        if !ids.contains_key(&d.name) {
            return Err(format!("extra declaration {}", d.name));
        }
    }
    out.push(ins.len().to_string());
    for n in ins {
        out.push(id_of(&ids, n)?.to_string());
    }
    out.push(outs.len().to_string());
    for n in outs {
        out.push(id_of(&ids, n)?.to_string());
    }
    out.push(m.items.len().to_string());
    for it in &m.items {
        match it {
            SvItem::Comb(s) => {
                out.push("comb".into());
                stmt_polish(s, &ids, &mut out)?;
            }
            SvItem::Ff(ce, clk, rst, s) => {
                out.push("ff".into());
                out.push(if *ce { "p".into() } else { "n".into() });
                out.push(id_of(&ids, clk)?.to_string());
                match rst {
                    None => out.push("-".into()),
                    Some((re, r)) => {
                        out.push(if *re { "p".into() } else { "n".into() });
                        out.push(id_of(&ids, r)?.to_string());
                    }
                }
                stmt_polish(s, &ids, &mut out)?;
            }
        }
    }
    Ok(out.join(","))
}

// ------------------------------------------------------------------------------------------------
// SystemVerilog text (input of the translator)

pub fn expr_text(e: &SvExpr) -> String {
    match e {
        SvExpr::Var(n) => n.clone(),
        SvExpr::BitSel(n, i) => format!("{n}[{i}]"),
        SvExpr::PartSel(n, h, l) => format!("{n}[{h}:{l}]"),
        SvExpr::Lit(w, s, v) => format!("{}'{}h{}", w, if *s { "s" } else { "" }, v),
        SvExpr::Dec(v) => format!("{}", u128::from_str_radix(v, 16).unwrap_or(0)),
        SvExpr::Fill(b) => format!("'{}", *b as u8),
        // IEEE 1800 Annex A: `unary_operator primary` — a nested unary operator needs parentheses
        SvExpr::Un(op, a) => {
            if matches!(**a, SvExpr::Un(..)) {
                format!("{}({})", op, expr_text(a))
            } else {
                format!("{}{}", op, expr_text(a))
            }
        }
        SvExpr::Chain(f, rest) => {
            let mut s = expr_text(f);
            for (op, x) in rest {
                s.push_str(&format!(" {} {}", op, expr_text(x)));
            }
            s
        }
        SvExpr::Paren(a) => format!("({})", expr_text(a)),
        SvExpr::Cond(c, a, b) => format!("{} ? {} : {}", expr_text(c), expr_text(a), expr_text(b)),
        SvExpr::Cat(v) => format!("{{{}}}", v.iter().map(expr_text).collect::<Vec<_>>().join(", ")),
        SvExpr::Rep(n, a) => format!("{{{}{{{}}}}}", n, expr_text(a)),
        SvExpr::SizeCast(n, a) => format!("{}'({})", n, expr_text(a)),
        SvExpr::TypeCast(w, a) => format!(
            "{}'({})",
            match w {
                8 => "byte",
                16 => "shortint",
                32 => "int",
                _ => "longint",
            },
            expr_text(a)
        ),
        SvExpr::SignCast(sys, s, a) => {
            if *sys {
                format!("${}({})", if *s { "signed" } else { "unsigned" }, expr_text(a))
            } else {
                format!("{}'({})", if *s { "signed" } else { "unsigned" }, expr_text(a))
            }
        }
    }
}

pub fn lhs_text(l: &SvLhs) -> String {
    match l {
        SvLhs::Var(n) => n.clone(),
        SvLhs::BitSel(n, i) => format!("{n}[{i}]"),
        SvLhs::PartSel(n, h, l) => format!("{n}[{h}:{l}]"),
    }
}

pub fn stmt_text(s: &SvStmt, ind: usize, out: &mut String) {
    let pad = " ".repeat(ind);
    match s {
        SvStmt::Skip => out.push_str(&format!("{pad};\n")),
        SvStmt::Assign(nb, l, e) => out.push_str(&format!("{pad}{} {} {};\n", lhs_text(l), if *nb { "<=" } else { "=" }, expr_text(e))),
        SvStmt::Block(v) => {
            out.push_str(&format!("{pad}begin\n"));
            for x in v {
                stmt_text(x, ind + 4, out);
            }
            out.push_str(&format!("{pad}end\n"));
        }
        SvStmt::If(c, t, e) => {
            out.push_str(&format!("{pad}if ({})\n", expr_text(c)));
            stmt_text(t, ind + 4, out);
            if **e != SvStmt::Skip {
                out.push_str(&format!("{pad}else\n"));
                stmt_text(e, ind + 4, out);
            }
        }
        SvStmt::Case(sel, arms, d) => {
            out.push_str(&format!("{pad}case ({})\n", expr_text(sel)));
            for (labels, body) in arms {
                out.push_str(&format!("{pad}    {}:\n", labels.iter().map(expr_text).collect::<Vec<_>>().join(", ")));
                stmt_text(body, ind + 8, out);
            }
            out.push_str(&format!("{pad}    default:\n"));
            stmt_text(d, ind + 8, out);
            out.push_str(&format!("{pad}endcase\n"));
        }
    }
}

fn block_of(st: &SvStmt) -> SvStmt {
    match st {
        SvStmt::Block(_) => st.clone(),
        x => SvStmt::Block(vec![x.clone()]),
    }
}

pub fn module_text(m: &SvModule) -> String {
    let mut s = format!("module {} (\n", m.name);
    let ports: Vec<&SvDecl> = m.decls.iter().filter(|d| d.kind < 2).collect();
    for (i, d) in ports.iter().enumerate() {
        let dim = if d.width == 1 { String::new() } else { format!("[{}:0] ", d.width - 1) };
        s.push_str(&format!(
            "    {} logic {}{}{}{}\n",
            if d.kind == 0 { "input " } else { "output" },
            if d.signed { "signed " } else { "" },
            dim,
            d.name,
            if i + 1 < ports.len() { "," } else { "" }
        ));
    }
    s.push_str(");\n");
    for d in m.decls.iter().filter(|d| d.kind == 2) {
        let dim = if d.width == 1 { String::new() } else { format!("[{}:0] ", d.width - 1) };
        s.push_str(&format!("    logic {}{}{};\n", if d.signed { "signed " } else { "" }, dim, d.name));
    }
    for it in &m.items {
        match it {
            SvItem::Comb(st) => {
                if let SvStmt::Assign(false, l, e) = st {
                    s.push_str(&format!("    assign {} = {};\n", lhs_text(l), expr_text(e)));
                } else {
                    s.push_str("    always_comb\n");
                    stmt_text(&block_of(st), 8, &mut s);
                }
            }
            SvItem::Ff(ce, clk, rst, st) => {
                s.push_str(&format!("    always_ff @(\n        {} {}", if *ce { "posedge" } else { "negedge" }, clk));
                if let Some((re, r)) = rst {
                    s.push_str(&format!(" or {} {}", if *re { "posedge" } else { "negedge" }, r));
                }
                s.push_str(")\n");
                stmt_text(&block_of(st), 8, &mut s);
            }
        }
    }
    s.push_str("endmodule\n");
    s
}
