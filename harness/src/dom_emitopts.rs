//! Domain `emitopts` (C26 "presentation-only build options never change behaviour").
//!
//! The self-contained testcases (round 0) and token-gap mutants of them (round k: one project in which
//! every file is replaced by a mutant) are emitted under a base option set and under variants of ONE
//! option family each; the outputs are compared with a mini SV lexer (`svlex`), independent of the
//! emitter and of the models. Request lines (oracle = all `ok`):
//! * `opts <round>:<file> strip <optA> <optB> <hex src>`   `tokens=` the SV token streams are equal; `nocomment=`
//!     the stripped output contains no comment; `nonws=` the stripped output equals the unstripped one with
//!     the comments' characters deleted, whitespace ignored (`strip_comments_removes_only_comments`).
//! * `opts … newline …`   `lf=` both outputs are equal once "\r\n" is read as "\n"; `exact=` (if no Doc text
//!     contains a newline and the LF output has no '\r': the hypothesis of `newline_only_stripped_partial`)
//!     the CRLF output IS the LF output with every "\n" replaced by "\r\n", else `na`.
//! * `opts … layout …`    indent_width / max_width / vertical_align: `tokens=` equal token streams, `comments=`
//!     equal comments, `nonws=` equal non-whitespace character streams.
//! * `opts … expand …`    expand_inside_operation: `struct=` the token streams are equal up to rewriting every
//!     `(X) inside {items}` into the `||` chain of `inside_element_operation` (Props/C26 `inside_expanded_equiv`);
//!     `newcomments=` the expansion invents no comment (it may drop the comments of the `{ , }` tokens it does not
//!     write and repeat those inside the tested expression: comments are not behaviour).
//! * `rstrip <ropts> <doc>`  the REAL unstripped Doc; impl = the non-whitespace stream of the real output under
//!     strip_comments; model = the same of M-Pretty applied to the Doc with its `Comments` nodes deleted.
//! * `dflags <doc>`, `render <ropts> <doc>` as in the domain `smap`.
use crate::dom_fmt::{doc_flags, expect_flags};
use crate::dom_pretty::{doc_to_sexp, rendered_to_reply};
use crate::emitctx::{self, Opt};
use crate::rng::Rng;
use crate::svlex::{self, Kind};
use crate::util::{Log, Opts, hex};
use veryl_pretty::render::render_with_anchors;

fn b(x: bool) -> &'static str {
    if x { "ok" } else { "BAD" }
}

fn nonws(s: &str) -> String {
    s.chars().filter(|c| !matches!(c, ' ' | '\t' | '\n' | '\r')).collect()
}

/// `s` with the characters of its comments deleted (by the lexer's spans).
fn without_comments(s: &str) -> String {
    let toks = svlex::lex(s);
    let mut out = String::new();
    for t in toks {
        if t.kind != Kind::Comment {
            out.push_str(&t.text);
            out.push(' ');
        }
    }
    out
}

/// The comments of the output that come from the source: all but the `//# sourceMappingURL=` link the
/// emitter appends itself.
fn source_comments(s: &str) -> Vec<String> {
    svlex::comments(s).into_iter().filter(|c| !c.starts_with("//# sourceMappingURL=")).collect()
}

/// Comments inside embedded SystemVerilog (`embed (inline) sv{{{ … }}}`): part of a token, not comments of
/// the Veryl source; `strip_comments` leaves them alone.
fn embed_comments(stream: &[(String, bool, veryl_parser::veryl_token::Token)]) -> Vec<String> {
    let mut v = vec![];
    for (t, is_comment, _) in stream {
        if !*is_comment && (t.contains("//") || t.contains("/*")) && !t.starts_with('"') {
            v.extend(svlex::comments(t));
        }
    }
    v
}

/// Comments attached to the `;` of an `import` declaration (signature of the known defect: the emitter
/// re-emits them through `process_comment` directly, bypassing the `strip_comments` test).
fn import_trailing_comments(stream: &[(String, bool, veryl_parser::veryl_token::Token)]) -> Vec<String> {
    let mut v = vec![];
    let mut in_import = false;
    let mut after_import_semicolon = false;
    for (t, is_comment, _) in stream {
        if *is_comment {
            if after_import_semicolon {
                v.push(t.lines().map(|l| l.trim_end()).collect::<Vec<_>>().join("\n").trim_end().to_string());
            }
            continue;
        }
        after_import_semicolon = false;
        if t == "import" {
            in_import = true;
        } else if t == ";" {
            after_import_semicolon = in_import;
            in_import = false;
        }
    }
    v
}

/// Verdict on the comments left in the stripped output: `ok`, `BAD:import` (only comments after
/// `import …;` survive — known defect), `BAD`.
fn stripped_comment_verdict(stripped_sv: &str, stream: &[(String, bool, veryl_parser::veryl_token::Token)]) -> &'static str {
    let mut left = source_comments(stripped_sv);
    for c in embed_comments(stream) {
        if let Some(k) = left.iter().position(|x| *x == c) {
            left.remove(k);
        }
    }
    if left.is_empty() {
        return "ok";
    }
    if std::env::var("HX_DUMP").is_ok() {
        eprintln!("LEFT {:?}\nEMBED {:?}", left, embed_comments(stream));
    }
    let mut imp = import_trailing_comments(stream);
    for c in &left {
        match imp.iter().position(|x| x == c) {
            Some(k) => {
                imp.remove(k);
            }
            None => return "BAD",
        }
    }
    "BAD:import"
}

// ---- expand_inside_operation: structural comparison ------------------------------------------

fn matching(t: &[String], open: usize) -> Option<usize> {
    let (o, c) = match t[open].as_str() {
        "(" => ("(", ")"),
        "{" => ("{", "}"),
        "[" => ("[", "]"),
        _ => return None,
    };
    let mut d = 0i64;
    for (k, x) in t.iter().enumerate().skip(open) {
        if x == o {
            d += 1;
        } else if x == c {
            d -= 1;
            if d == 0 {
                return Some(k);
            }
        }
    }
    None
}

/// Split `t[from..to]` at top-level occurrences of `sep`.
fn split_top(t: &[String], from: usize, to: usize, sep: &str) -> Vec<(usize, usize)> {
    let mut v = vec![];
    let mut d = 0i64;
    let mut st = from;
    for k in from..to {
        match t[k].as_str() {
            "(" | "{" | "[" => d += 1,
            ")" | "}" | "]" => d -= 1,
            x if x == sep && d == 0 => {
                v.push((st, k));
                st = k + 1;
            }
            _ => {}
        }
    }
    v.push((st, to));
    v
}

enum Part {
    Lit(&'static str),
    Sub(usize, usize),
}

/// `inside_element_operation(X, K)` for one key `K = base[ks..ke]`: the candidate expansions.
fn element_parts(base: &[String], x: (usize, usize), ks: usize, ke: usize) -> Option<Vec<Vec<Part>>> {
    if ke > ks && base[ks] == "[" && base[ke - 1] == "]" && matching(base, ks) == Some(ke - 1) {
        let parts = split_top(base, ks + 1, ke - 1, ":");
        if parts.len() != 2 {
            return None;
        }
        let (a, bb) = (parts[0], parts[1]);
        let mk = |op: &'static str, hi: (usize, usize)| -> Vec<Part> {
            vec![
                Part::Lit("("), Part::Lit("("), Part::Sub(x.0, x.1), Part::Lit(")"), Part::Lit(">="), Part::Lit("("),
                Part::Sub(a.0, a.1), Part::Lit(")"), Part::Lit(")"), Part::Lit("&&"), Part::Lit("("), Part::Lit("("),
                Part::Sub(x.0, x.1), Part::Lit(")"), Part::Lit(op), Part::Lit("("), Part::Sub(hi.0, hi.1), Part::Lit(")"),
                Part::Lit(")"),
            ]
        };
        let mut cands = vec![];
        // `a..b` is emitted as `[a:(b)-1]`, `a..=b` as `[a:b]`
        if bb.1 - bb.0 >= 4 && base[bb.0] == "(" && matching(base, bb.0) == Some(bb.1 - 3) && base[bb.1 - 2] == "-" && base[bb.1 - 1] == "1" {
            cands.push(mk("<", (bb.0 + 1, bb.1 - 3)));
        }
        cands.push(mk("<=", bb));
        Some(cands)
    } else {
        Some(vec![vec![
            Part::Lit("("), Part::Sub(x.0, x.1), Part::Lit(")"), Part::Lit("==?"), Part::Lit("("), Part::Sub(ks, ke), Part::Lit(")"),
        ]])
    }
}

/// The keys `base[from..to]` (separated by top-level `sep`) against their expansions joined by `join`.
fn keys(base: &[String], x: (usize, usize), from: usize, to: usize, join: &str, e: &[String], mut ej: usize, n: &mut u64) -> Option<usize> {
    let mut first = true;
    for (ks, ke) in split_top(base, from, to, ",") {
        if !first {
            if e.get(ej).map(|s| s.as_str()) != Some(join) {
                return None;
            }
            ej += 1;
        }
        first = false;
        let mut done = false;
        for c in element_parts(base, x, ks, ke)? {
            if let Some(j) = seq(base, &c, e, ej, n) {
                ej = j;
                done = true;
                break;
            }
        }
        if !done {
            return None;
        }
    }
    Some(ej)
}

/// Consume from `e[ej..]` what `base[bi..bend]` turns into under `expand_inside_operation`:
/// (A) `( X ) inside { K, … }`            ->  `E(X,K) || …`            (inside / outside / case expressions)
/// (B) `case ( X ) [inside] K, … : S …`   ->  `case ( 1'b1 ) E(X,K), … : S …`   (case statements)
/// with `E(X,[A:(B)-1]) = ((X) >= (A)) && ((X) < (B))`, `E(X,[A:B]) = ((X) >= (A)) && ((X) <= (B))`,
/// `E(X,C) = (X) ==? (C)`. Returns the new position in `e`.
fn walk(base: &[String], mut bi: usize, bend: usize, e: &[String], mut ej: usize, n_rewrites: &mut u64) -> Option<usize> {
    let mut ctx: Vec<(usize, usize)> = vec![];
    while bi < bend {
        // (A)
        if base[bi] == "(" {
            if let Some(m) = matching(base, bi) {
                if m + 2 < bend && base[m + 1] == "inside" && base[m + 2] == "{" {
                    let close = matching(base, m + 2)?;
                    if close >= bend {
                        return None;
                    }
                    ej = keys(base, (bi + 1, m), m + 3, close, "||", e, ej, n_rewrites)?;
                    *n_rewrites += 1;
                    bi = close + 1;
                    continue;
                }
            }
        }
        // (B) header
        if base[bi] == "case" && bi + 1 < bend && base[bi + 1] == "(" {
            if let Some(m) = matching(base, bi + 1) {
                let has_inside = base.get(m + 1).map(|s| s.as_str()) == Some("inside");
                let lit = |k: usize, s: &str| e.get(ej + k).map(|x| x.as_str()) == Some(s);
                let already = m == bi + 4 && base[bi + 2] == "1" && base[bi + 3] == "'b1" && !has_inside;
                if !already && lit(0, "case") && lit(1, "(") && lit(2, "1") && lit(3, "'b1") && lit(4, ")") {
                    ctx.push((bi + 2, m));
                    bi = m + 1 + has_inside as usize;
                    ej += 5;
                    *n_rewrites += 1;
                    continue;
                }
            }
        }
        // (B) keys of an item
        if let Some(x) = ctx.last().copied() {
            let prev = if bi > 0 { base[bi - 1].as_str() } else { "" };
            if matches!(prev, ")" | "inside" | ";" | "end" | "endcase") && e.get(ej).map(|s| s.as_str()) == Some("(") && base[bi] != "default" {
                let mut d = 0i64;
                let mut colon = None;
                for k in bi..bend {
                    match base[k].as_str() {
                        "(" | "{" | "[" => d += 1,
                        ")" | "}" | "]" => d -= 1,
                        ":" if d == 0 => {
                            colon = Some(k);
                            break;
                        }
                        ";" | "begin" | "end" | "endcase" if d == 0 => break,
                        _ => {}
                    }
                }
                if let Some(c) = colon {
                    if let Some(j) = keys(base, x, bi, c, ",", e, ej, n_rewrites) {
                        ej = j;
                        bi = c;
                        continue;
                    }
                }
            }
        }
        if base[bi] == "endcase" {
            ctx.pop();
        }
        if e.get(ej) != Some(&base[bi]) {
            return None;
        }
        bi += 1;
        ej += 1;
    }
    Some(ej)
}

fn seq(base: &[String], parts: &[Part], e: &[String], mut ej: usize, n: &mut u64) -> Option<usize> {
    for p in parts {
        match p {
            Part::Lit(s) => {
                if e.get(ej).map(|x| x.as_str()) != Some(*s) {
                    return None;
                }
                ej += 1;
            }
            Part::Sub(a, bnd) => {
                ej = walk(base, *a, *bnd, e, ej, n)?;
            }
        }
    }
    Some(ej)
}

/// Are the two SV token streams equal up to the expansion of `inside`? Also returns the number of
/// `inside` expressions rewritten.
fn expand_equiv(base: &[String], expanded: &[String]) -> (bool, u64) {
    let mut n = 0;
    let r = walk(base, 0, base.len(), expanded, 0, &mut n);
    if r != Some(expanded.len()) && std::env::var("HX_DUMP").is_ok() {
        let k = base.iter().zip(expanded.iter()).position(|(a, b)| a != b).unwrap_or(0);
        eprintln!("EXPAND base: {}", base[k.saturating_sub(6)..(k + 40).min(base.len())].join(" "));
        eprintln!("EXPAND  exp: {}", expanded[k.saturating_sub(6)..(k + 60).min(expanded.len())].join(" "));
    }
    (r == Some(expanded.len()), n)
}

// ---------------------------------------------------------------------------------------------

struct Line {
    op: String,
    imp: String,
    oracle: String,
}

fn sexp_only(s: &str) -> String {
    s.rsplit(' ').next().unwrap_or("").to_string()
}

fn run_project(files: emitctx::FileSet, round: u64, seed: u64, nlayout: u64, render_every: u64) -> Result<(Vec<Line>, Vec<(String, u64)>), String> {
    emitctx::with_project(files, move |prj| {
        let mut lines = vec![];
        let mut log = Log::new();
        let mut r = Rng::new(seed ^ round.wrapping_mul(0x51ED_270B));
        log.add("analyzer_errors", prj.errors as u64);
        let base = Opt { newline: 'u', ..Opt::DEFAULT };
        for i in 0..prj.files.len() {
            let (name, src) = &prj.files[i];
            if prj.parsers[i].is_none() {
                continue;
            }
            let Some(eb) = prj.emit(i, &base) else {
                log.count("emit_failed");
                continue;
            };
            log.count("files_emitted");
            let hs = hex(src.as_bytes());
            let tb = svlex::code_tokens(&eb.sv);
            let cb = svlex::comments(&eb.sv);
            let id = format!("{round:x}:{name}");
            let flags = eb.doc.as_ref().map(|(d, _)| doc_flags(d)).unwrap_or_default();
            let nlfree = flags.contains("nlfree=1");
            // ---- strip_comments
            let o = Opt { strip: true, ..base };
            if let Some(e) = prj.emit(i, &o) {
                let t = svlex::code_tokens(&e.sv);
                let stream = emitctx::token_stream(prj.parsers[i].as_ref().unwrap());
                let v = format!(
                    "tokens={} nocomment={} nonws={}",
                    b(t == tb),
                    stripped_comment_verdict(&e.sv, &stream),
                    b(nonws(&without_comments(&eb.sv)) == nonws(&without_comments(&e.sv)))
                );
                lines.push(Line { op: format!("opts {id} strip {} {} {hs}", base.show(), o.show()), imp: v, oracle: "tokens=ok nocomment=ok nonws=ok".into() });
                log.add("comments_stripped", cb.len() as u64);
                // the real unstripped Doc, comments deleted by the model, must render to the real stripped output
                if let Some((d, ro)) = &eb.doc {
                    if i as u64 % render_every == 0 {
                        // (the real stripped text may have a blank line where a comment line stood: the emitter's
                        // blank-line rule looks at source lines; so the comparison is on the non-whitespace stream)
                        lines.push(Line { op: format!("rstrip {}", doc_to_sexp(d, ro)), imp: hex(nonws(&e.sv).as_bytes()), oracle: "?".into() });
                        log.count("rstrip_requests");
                    }
                }
            } else {
                log.count("emit_failed_strip");
            }
            // ---- strip_comments without vertical alignment (the emitter then makes a single walk)
            let oa = Opt { valign: false, ..base };
            let ob = Opt { valign: false, strip: true, ..base };
            if let Some(ea) = prj.emit(i, &oa) {
                let v = match prj.emit(i, &ob) {
                    Some(e) => format!(
                        "tokens={} nocomment={} nonws={}",
                        b(svlex::code_tokens(&e.sv) == svlex::code_tokens(&ea.sv)),
                        stripped_comment_verdict(&e.sv, &emitctx::token_stream(prj.parsers[i].as_ref().unwrap())),
                        b(nonws(&without_comments(&ea.sv)) == nonws(&without_comments(&e.sv)))
                    ),
                    None => format!("noemit:{}", emitctx::LAST_PANIC.lock().unwrap()),
                };
                lines.push(Line { op: format!("opts {id} strip {} {} {hs}", oa.show(), ob.show()), imp: v, oracle: "tokens=ok nocomment=ok nonws=ok".into() });
            }
            // ---- newline_style
            let o = Opt { newline: 'w', ..base };
            if let Some(e) = prj.emit(i, &o) {
                let lf = e.sv.replace("\r\n", "\n") == eb.sv.replace("\r\n", "\n");
                let hyp = nlfree && !eb.sv.contains('\r');
                let exact = if hyp { b(e.sv == eb.sv.replace('\n', "\r\n")) } else { "na" };
                log.count(if hyp { "newline_exact_applicable" } else { "newline_exact_na" });
                lines.push(Line {
                    op: format!("opts {id} newline {} {} {hs}", base.show(), o.show()),
                    imp: format!("lf={} exact={}", b(lf), exact),
                    oracle: format!("lf=ok exact={}", if hyp { "ok" } else { "na" }),
                });
            }
            // ---- widths / alignment
            for _ in 0..nlayout {
                let o = Opt {
                    indent: *r.pick(&[2usize, 4, 8]),
                    width: *r.pick(&[20usize, 40, 80, 120]),
                    valign: r.chance(1, 2),
                    ..base
                };
                if o == base {
                    continue;
                }
                log.count(&format!("layout_width_{}", o.width));
                if let Some(e) = prj.emit(i, &o) {
                    let v = format!(
                        "tokens={} comments={} nonws={}",
                        b(svlex::code_tokens(&e.sv) == tb),
                        b(svlex::comments(&e.sv) == cb),
                        b(nonws(&e.sv) == nonws(&eb.sv))
                    );
                    lines.push(Line { op: format!("opts {id} layout {} {} {hs}", base.show(), o.show()), imp: v, oracle: "tokens=ok comments=ok nonws=ok".into() });
                } else {
                    log.count("emit_failed_layout");
                    lines.push(Line { op: format!("opts {id} layout {} {} {hs}", base.show(), o.show()), imp: "noemit".into(), oracle: "tokens=ok comments=ok nonws=ok".into() });
                }
            }
            // ---- expand_inside_operation
            let o = Opt { expand: true, ..base };
            if let Some(e) = prj.emit(i, &o) {
                let te = svlex::code_tokens(&e.sv);
                let (ok, n) = expand_equiv(&tb, &te);
                log.add("inside_rewritten", n);
                if n > 0 {
                    log.count("files_with_inside");
                }
                // Comments are not behaviour, and the expansion cannot keep them in place: the `{`, `,`, `}` tokens
                // of the set are not written (their comments go), the tested expression is written once per
                // element (its comments repeat). Checked: the expansion invents no comment; the rest is a statistic.
                let ce = svlex::comments(&e.sv);
                let invented = ce.iter().filter(|c| !cb.contains(c)).count();
                log.add("expand_comments_dropped", cb.iter().filter(|c| !ce.contains(c)).count() as u64);
                log.add("expand_comments_repeated", ce.len().saturating_sub(cb.len()) as u64);
                let v = format!("struct={} newcomments={}", b(ok), b(invented == 0));
                lines.push(Line { op: format!("opts {id} expand {} {} {hs}", base.show(), o.show()), imp: v, oracle: "struct=ok newcomments=ok".into() });
            }
            // ---- side conditions + rendering of the real Doc
            if let Some((d, ro)) = &eb.doc {
                if i as u64 % render_every == 0 {
                    let req = doc_to_sexp(d, ro);
                    lines.push(Line { op: format!("dflags {}", sexp_only(&req)), imp: flags.clone(), oracle: expect_flags(&flags, false) });
                    let rd = render_with_anchors(d, ro);
                    lines.push(Line { op: format!("render {req}"), imp: rendered_to_reply(&rd), oracle: "?".into() });
                }
            }
        }
        let stats: Vec<(String, u64)> = log.stats.iter().map(|(a, b)| (a.clone(), *b)).collect();
        (lines, stats)
    })
}

fn unhex(s: &str) -> Option<String> {
    if s.len() % 2 != 0 {
        return None;
    }
    let mut v = Vec::with_capacity(s.len() / 2);
    for i in (0..s.len()).step_by(2) {
        v.push(u8::from_str_radix(s.get(i..i + 2)?, 16).ok()?);
    }
    String::from_utf8(v).ok()
}

fn replay(log: &mut Log, path: &str) {
    let body = std::fs::read_to_string(path).unwrap_or_default();
    let corpus: emitctx::FileSet = emitctx::testcases().into_iter().filter(|x| !emitctx::needs_outside(&x.0)).collect();
    for line in body.lines() {
        let t: Vec<&str> = line.split(' ').filter(|x| !x.is_empty()).collect();
        match t.as_slice() {
            ["opts", id, fam, oa, ob, hexsrc] => {
                let name = id.split_once(':').map(|x| x.1).unwrap_or(id).to_string();
                let (Some(oa), Some(ob), Some(src)) = (Opt::parse(oa), Opt::parse(ob), unhex(hexsrc)) else {
                    log.push3(line.to_string(), "bad-op".into(), "?".into());
                    continue;
                };
                let fam = fam.to_string();
                let mut files = corpus.clone();
                let idx = match files.iter().position(|f| f.0 == name) {
                    Some(i) => {
                        files[i].1 = src;
                        i
                    }
                    None => {
                        files.push((name, src));
                        files.len() - 1
                    }
                };
                let r = emitctx::with_project(files, move |prj| {
                    let ea = prj.emit(idx, &oa)?;
                    let eb = prj.emit(idx, &ob)?;
                    let stream = emitctx::token_stream(prj.parsers[idx].as_ref()?);
                    let (ta, tb2) = (svlex::code_tokens(&ea.sv), svlex::code_tokens(&eb.sv));
                    let (ca, cb) = (svlex::comments(&ea.sv), svlex::comments(&eb.sv));
                    Some(match fam.as_str() {
                        "strip" => (
                            format!("tokens={} nocomment={} nonws={}", b(ta == tb2), stripped_comment_verdict(&eb.sv, &stream), b(nonws(&without_comments(&ea.sv)) == nonws(&without_comments(&eb.sv)))),
                            "tokens=ok nocomment=ok nonws=ok".to_string(),
                        ),
                        "newline" => {
                            let nlfree = ea.doc.as_ref().map(|(d, _)| doc_flags(d)).unwrap_or_default().contains("nlfree=1");
                            let hyp = nlfree && !ea.sv.contains('\r');
                            (
                                format!(
                                    "lf={} exact={}",
                                    b(ea.sv.replace("\r\n", "\n") == eb.sv.replace("\r\n", "\n")),
                                    if hyp { b(eb.sv == ea.sv.replace('\n', "\r\n")) } else { "na" }
                                ),
                                format!("lf=ok exact={}", if hyp { "ok" } else { "na" }),
                            )
                        }
                        "layout" => (
                            format!("tokens={} comments={} nonws={}", b(ta == tb2), b(ca == cb), b(nonws(&ea.sv) == nonws(&eb.sv))),
                            "tokens=ok comments=ok nonws=ok".to_string(),
                        ),
                        _ => {
                            let (ok, _) = expand_equiv(&ta, &tb2);
                            (format!("struct={} newcomments={}", b(ok), b(cb.iter().all(|c| ca.contains(c)))), "struct=ok newcomments=ok".to_string())
                        }
                    })
                });
                match r {
                    Ok(Some((v, o))) => log.push3(line.to_string(), v, o),
                    _ => log.push3(line.to_string(), format!("noemit:{}", emitctx::LAST_PANIC.lock().unwrap()), "tokens=ok nocomment=ok nonws=ok".into()),
                }
            }
            _ => log.push3(line.to_string(), "bad-op".into(), "?".into()),
        }
    }
}

pub fn main(opts: &Opts) -> i32 {
    emitctx::install_panic_hook();
    let seed = opts.seed();
    let rounds = opts.num("rounds", 1);
    let nlayout = opts.num("layouts", 2);
    let render_every = opts.num("render-every", 10).max(1);
    let limit = opts.num("files", 1000) as usize;
    let out = opts.out();
    let mut log = Log::new();
    if let Some(f) = opts.get("replay") {
        replay(&mut log, f);
        log.write(&out);
        return 0;
    }
    // self-test of the structural comparison on hand-written streams (kept in the stats)
    {
        let t = |s: &str| svlex::code_tokens(s);
        let (ok, n) = expand_equiv(&t("assign a = ((x) inside {[1:(5)-1], 7, [2:3]});"), &t("assign a = (((x) >= (1)) && ((x) < (5)) || (x) ==? (7) || ((x) >= (2)) && ((x) <= (3)));"));
        let (ok2, _) = expand_equiv(&t("assign a = ((x) inside {[1:(5)-1]});"), &t("assign a = (((x) >= (1)) && ((x) <= (5)));"));
        let (ok3, n3) = expand_equiv(
            &t("case (x) inside 0: a = 1; 3, [4:(9)-1]: begin a = 2; end default: a = 3; endcase"),
            &t("case (1'b1) (x) ==? (0): a = 1; (x) ==? (3), ((x) >= (4)) && ((x) < (9)): begin a = 2; end default: a = 3; endcase"),
        );
        log.add("selftest_expand_ok", (ok && n == 1 && ok3 && n3 == 1) as u64);
        log.add("selftest_expand_rejects_wrong", (!ok2) as u64);
    }
    let mut r = Rng::new(seed);
    let corpus: emitctx::FileSet = emitctx::testcases().into_iter().filter(|x| !emitctx::needs_outside(&x.0)).collect();
    // two deterministic extra projects (rounds 100, 101): multi-byte text in every string literal (anchored
    // multi-byte tokens followed by further anchors on the line); a comment after every separator
    for (round, kind) in [(100u64, "mb"), (101u64, "sep")] {
        let corpus2 = corpus.clone();
        let h = std::thread::Builder::new()
            .stack_size(256 << 20)
            .spawn(move || {
                let mut n = 0u64;
                let v: emitctx::FileSet = corpus2
                    .iter()
                    .map(|(name, src)| {
                        let m = if kind == "mb" {
                            emitctx::mb_strings_mutant(src, name)
                        } else {
                            emitctx::separator_mutant(src, name, true).or_else(|| emitctx::separator_mutant(src, name, false))
                        };
                        match m {
                            Some(m) => {
                                n += 1;
                                (name.clone(), m)
                            }
                            None => (name.clone(), src.clone()),
                        }
                    })
                    .collect();
                (v, n)
            })
            .unwrap();
        let (v, n) = h.join().unwrap();
        log.add(&format!("mutated_files_{kind}"), n);
        let files: emitctx::FileSet = v.into_iter().take(limit).collect();
        match run_project(files, round, seed, nlayout, render_every) {
            Ok((lines, stats)) => {
                for l in lines {
                    log.push3(l.op, l.imp, l.oracle);
                }
                for (k, v) in stats {
                    log.add(&k, v);
                }
                log.count("projects");
            }
            Err(e) => log.count(&format!("project_failed_{e}")),
        }
    }
    for round in 0..=rounds {
        let files: emitctx::FileSet = if round == 0 {
            corpus.clone()
        } else {
            let corpus = corpus.clone();
            let mut rr = r.fork();
            let h = std::thread::Builder::new()
                .stack_size(256 << 20)
                .spawn(move || {
                    let mut n = 0u64;
                    let v: emitctx::FileSet = corpus
                        .iter()
                        .map(|(name, src)| match emitctx::mutant(&mut rr, src, name) {
                            Some((m, _)) => {
                                n += 1;
                                (name.clone(), m)
                            }
                            None => (name.clone(), src.clone()),
                        })
                        .collect();
                    (v, n)
                })
                .unwrap();
            let (v, n) = h.join().unwrap();
            log.add("mutated_files", n);
            v
        };
        let files: emitctx::FileSet = files.into_iter().take(limit).collect();
        match run_project(files, round, seed, nlayout, render_every) {
            Ok((lines, stats)) => {
                for l in lines {
                    log.push3(l.op, l.imp, l.oracle);
                }
                for (k, v) in stats {
                    log.add(&k, v);
                }
                log.count("projects");
            }
            Err(e) => log.count(&format!("project_failed_{e}")),
        }
    }
    log.add("sequences", log.ops.len() as u64);
    log.write(&out);
    0
}
