//! Mini SystemVerilog lexer (C09, C13, C26): splits emitted SV into tokens and comments so that two
//! outputs can be compared "modulo layout and comments". Independent of the emitter and of the models.
//! Maximal munch over a fixed operator table; strings, `//` and `/* */` comments, `(* *)` attribute
//! delimiters, escaped identifiers, system/macro identifiers, sized and based numbers.

#[derive(Clone, Debug, PartialEq, Eq)]
pub enum Kind {
    Ident,
    Number,
    Str,
    Op,
    Comment,
}

#[derive(Clone, Debug, PartialEq, Eq)]
pub struct Tok {
    pub kind: Kind,
    pub text: String,
    /// 0-based line and column (in chars) of the first char
    pub line: usize,
    pub col: usize,
}

const OPS: &[&str] = &[
    "<<<=", ">>>=", "===", "!==", "==?", "!=?", "<<<", ">>>", "<<=", ">>=", "->>", "|->", "|=>", "<->", "&&&", "**", "==", "!=", "<=",
    ">=", "&&", "||", "<<", ">>", "+=", "-=", "*=", "/=", "%=", "&=", "|=", "^=", "++", "--", "->", "::", "+:", "-:", "~&", "~|", "~^",
    "^~", "'{", "(*", "*)", "##", "@@",
];

fn is_id_start(c: char) -> bool {
    c.is_ascii_alphabetic() || c == '_' || c == '$' || c == '`'
}

fn is_id_char(c: char) -> bool {
    c.is_ascii_alphanumeric() || c == '_' || c == '$'
}

/// Tokens and comments in order. Never fails: an unexpected char is a one-char `Op`.
pub fn lex(src: &str) -> Vec<Tok> {
    let cs: Vec<char> = src.chars().collect();
    let mut out = vec![];
    let (mut i, mut line, mut col) = (0usize, 0usize, 0usize);
    let n = cs.len();
    let adv = |i: &mut usize, line: &mut usize, col: &mut usize, k: usize, cs: &[char]| {
        for _ in 0..k {
            if cs[*i] == '\n' {
                *line += 1;
                *col = 0;
            } else {
                *col += 1;
            }
            *i += 1;
        }
    };
    while i < n {
        let c = cs[i];
        if c.is_whitespace() {
            adv(&mut i, &mut line, &mut col, 1, &cs);
            continue;
        }
        let (l0, c0, st) = (line, col, i);
        let kind;
        if c == '/' && i + 1 < n && cs[i + 1] == '/' {
            let mut k = 0;
            while i + k < n && cs[i + k] != '\n' {
                k += 1;
            }
            adv(&mut i, &mut line, &mut col, k, &cs);
            kind = Kind::Comment;
        } else if c == '/' && i + 1 < n && cs[i + 1] == '*' {
            let mut k = 2;
            while i + k < n && !(cs[i + k - 1] == '*' && cs[i + k] == '/' && k >= 3) {
                k += 1;
            }
            let k = (k + 1).min(n - i);
            adv(&mut i, &mut line, &mut col, k, &cs);
            kind = Kind::Comment;
        } else if c == '"' {
            let mut k = 1;
            while i + k < n && cs[i + k] != '"' {
                if cs[i + k] == '\\' {
                    k += 1;
                }
                k += 1;
            }
            let k = (k + 1).min(n - i);
            adv(&mut i, &mut line, &mut col, k, &cs);
            kind = Kind::Str;
        } else if c == '\\' {
            // escaped identifier: up to the next whitespace
            let mut k = 1;
            while i + k < n && !cs[i + k].is_whitespace() {
                k += 1;
            }
            adv(&mut i, &mut line, &mut col, k, &cs);
            kind = Kind::Ident;
        } else if is_id_start(c) {
            let mut k = 1;
            while i + k < n && is_id_char(cs[i + k]) {
                k += 1;
            }
            adv(&mut i, &mut line, &mut col, k, &cs);
            kind = Kind::Ident;
        } else if c.is_ascii_digit() {
            let mut k = 1;
            while i + k < n && (cs[i + k].is_ascii_alphanumeric() || cs[i + k] == '_' || cs[i + k] == '.') {
                k += 1;
            }
            adv(&mut i, &mut line, &mut col, k, &cs);
            kind = Kind::Number;
        } else if c == '\'' && i + 1 < n && (cs[i + 1].is_ascii_alphanumeric()) && cs[i + 1] != '{' {
            // based literal / unsized fill: 'hff 'sd3 '0 '1 'x 'z
            let mut k = 1;
            while i + k < n && (cs[i + k].is_ascii_alphanumeric() || cs[i + k] == '_' || cs[i + k] == '?') {
                k += 1;
            }
            adv(&mut i, &mut line, &mut col, k, &cs);
            kind = Kind::Number;
        } else {
            let mut k = 1;
            for op in OPS {
                let oc: Vec<char> = op.chars().collect();
                if oc.len() > k && i + oc.len() <= n && cs[i..i + oc.len()] == oc[..] {
                    k = oc.len();
                }
            }
            // `(*)` is an event control, not an attribute
            if k == 2 && cs[i] == '(' && cs[i + 1] == '*' && i + 2 < n && cs[i + 2] == ')' {
                k = 1;
            }
            adv(&mut i, &mut line, &mut col, k, &cs);
            kind = Kind::Op;
        }
        out.push(Tok { kind, text: cs[st..i].iter().collect(), line: l0, col: c0 });
    }
    out
}

/// The token texts without comments.
pub fn code_tokens(src: &str) -> Vec<String> {
    lex(src).into_iter().filter(|t| t.kind != Kind::Comment).map(|t| t.text).collect()
}

/// The comment texts (trailing blanks of each comment line removed).
pub fn comments(src: &str) -> Vec<String> {
    lex(src)
        .into_iter()
        .filter(|t| t.kind == Kind::Comment)
        .map(|t| t.text.lines().map(|l| l.trim_end()).collect::<Vec<_>>().join("\n"))
        .collect()
}
