//! Domain `fmt` (C08 "formatting is idempotent", C09 "formatting only changes layout").
//!
//! Inputs: /repo/testcases/veryl + token-gap mutants (`emitctx::mutant`: blank lines, spaces, tabs,
//! joined/split lines, `//` and `/* */` comments incl. multi-byte and multi-line, CRLF, mixed line
//! ends, optional trailing separators) × `[format]` option sets.
//!
//! Per case (`<id>` = running number) these request lines are written:
//! * `idem <id> <opt> <hex src>`    impl = `ok` | `nonidem blank=… same=… sp=… orbit=… docs=… shape=… tie=…` | `noparse2` …;
//!                                  oracle = `ok`: format(format s) == format s with the REAL Formatter (C08).
//!     Signature bits of a non-idempotent case: `blank` how the blank lines of consecutive passes differ (`0`,
//!     `modport` = only inside empty modport bodies, `other`); `same` the passes are equal once blank lines are
//!     dropped; (DESIGN §5 #16:) `sp` pass 1 and pass 2 (blank lines dropped) differ only in the
//!     lengths of space runs inside lines; `orbit` of the text under repeated formatting (up to 10 passes):
//!     `fix@k` pass k+1 == pass k (first such k ≥ 2), `cyc@k+p` pass k+p == pass k with period p ≥ 2 (no fixed
//!     point ever), `none` no text repeated within 10 passes; `docs` the Docs of ALL passes are equal once pad
//!     nodes are removed (runs of sibling hard lines counted once); `shape` the aligner call traces of all passes are equal up to token positions; `tie` see below.
//! * `layout <id> <opt> <hex src>`  impl = `reparse=… tokens=… comments=… [sv=…]`, oracle all `ok` (C09);
//!     `tokens=BAD:embed-trailing-ws` / `BAD:embed-token-position` (or both joined by `+`): the only token changes
//!     are the two known alterations of embedded foreign code (see `layout_verdict`).
//! * `tie <id> <pass>`              impl = `shim=… pads=… render=…`, oracle all `ok`: the traced build of
//!     formatter.rs (hx-fmt-traced) gives byte-identical output, the pad nodes of the real Doc are exactly
//!     the additions of the real aligner for the tokens in walk order, re-rendering the tapped Doc gives the output.
//! * `align <trace>`                impl = additions of the REAL `veryl_aligner::Aligner` driven through its
//!     public API by the recorded call trace; model = M-Aligner (correspondence).
//! * `render <ropts> <doc>` / `dflags <doc>`   real Doc: M-Pretty rendering and the side conditions of the
//!     C09 theorems (`ifbcomma=1 linews=1` expected: oracle).
//!
//! Modes: default (corpus + mutants), `--mode ops` (random call sequences on the real Aligner's public
//! API: all calls, bad kinds, repeated locations), `--replay FILE`.
use crate::dom_pretty::{doc_to_sexp, rendered_to_reply};
use crate::emitctx::{self, Opt};
use crate::rng::Rng;
use crate::svlex;
use crate::util::{Log, Opts, hex};
use std::collections::{BTreeMap, HashMap};
use std::panic;
use veryl_aligner::{Aligner, Location, PadKind};
use veryl_analyzer::Analyzer;
use veryl_parser::Parser;
use veryl_parser::veryl_token::{Token, TokenSource, VerylToken};
use veryl_pretty::doc::Doc;
use veryl_pretty::render::{RenderOpts, render_with_anchors};

// ---------------------------------------------------------------------------------------------
// replaying a call trace on the real Aligner through its public API
// ---------------------------------------------------------------------------------------------

fn parse_loc(s: &str, sources: &[TokenSource]) -> Option<Location> {
    let p: Vec<&str> = s.split('.').collect();
    if p.len() != 5 {
        return None;
    }
    let src = usize::from_str_radix(p[3], 16).ok()?;
    Some(Location {
        line: u32::from_str_radix(p[0], 16).ok()?,
        column: u32::from_str_radix(p[1], 16).ok()?,
        length: u32::from_str_radix(p[2], 16).ok()?,
        source: *sources.get(src)?,
        duplicated: if p[4] == "-" { None } else { Some(usize::from_str_radix(p[4], 16).ok()?) },
    })
}

fn vtoken(l: &Location) -> VerylToken {
    let mut t = Token::new("", l.line, l.column, l.length, 0, l.source);
    t.line = l.line;
    t.column = l.column;
    t.length = l.length;
    t.source = l.source;
    VerylToken::new(t)
}

fn src_id(s: &TokenSource, sources: &[TokenSource]) -> usize {
    sources.iter().position(|x| x == s).unwrap_or(0xffff)
}

fn show_loc(l: &Location, sources: &[TokenSource]) -> String {
    format!(
        "{:x}.{:x}.{:x}.{:x}.{}",
        l.line,
        l.column,
        l.length,
        src_id(&l.source, sources),
        match l.duplicated {
            None => "-".to_string(),
            Some(i) => format!("{i:x}"),
        }
    )
}

fn pk(k: PadKind) -> &'static str {
    match k {
        PadKind::Always => "a",
        PadKind::IfBreak => "b",
        PadKind::IfFlat => "f",
    }
}

fn show_adds(m: &HashMap<Location, (u32, PadKind)>, sources: &[TokenSource]) -> String {
    let mut v: Vec<((u32, u32, u32, usize, usize), String)> = m
        .iter()
        .map(|(l, (w, k))| {
            (
                (l.line, l.column, l.length, src_id(&l.source, sources), l.duplicated.map(|x| x + 1).unwrap_or(0)),
                format!("{}:{:x}:{}", show_loc(l, sources), w, pk(*k)),
            )
        })
        .collect();
    v.sort();
    format!("[{}]", v.into_iter().map(|x| x.1).collect::<Vec<_>>().join(","))
}

/// Sources of a synthetic trace: id 0 = Builtin, 1 = External (ids ≥ 2 are rejected).
const SYNTH_SOURCES: [TokenSource; 2] = [TokenSource::Builtin, TokenSource::External];

/// Run a recorded/synthetic call trace on a fresh real `Aligner`. Reply as the model prints it.
fn replay_trace(trace: &[String], sources: &[TokenSource]) -> String {
    let r = panic::catch_unwind(panic::AssertUnwindSafe(|| -> Option<String> {
        let mut a = Aligner::new();
        for t in trace {
            let parts: Vec<&str> = t.split(':').collect();
            let head: Vec<&str> = parts[0].split('.').collect();
            let num = |i: usize| -> Option<usize> { usize::from_str_radix(head.get(i)?, 16).ok() };
            match (head[0], parts.len()) {
                ("s", 1) => a.aligns[num(1)?].start_item(),
                ("sb", 1) => a.aligns[num(1)?].start_item_break_gated(),
                ("sf", 1) => a.aligns[num(1)?].start_item_flat_gated(),
                ("f", 1) => a.aligns[num(1)?].finish_item(),
                ("F", 1) => a.finish_item(),
                ("G", 1) => a.finish_group(),
                ("g", 1) => a.finish_group_for(num(1)?),
                ("c", 1) => {
                    if head.len() == 1 {
                        a.clear_had_item_in_statement()
                    } else {
                        a.aligns[num(1)?].clear_had_item_in_statement()
                    }
                }
                ("e", 1) => {
                    if head.len() == 1 {
                        a.note_statement_end()
                    } else {
                        a.aligns[num(1)?].note_statement_end(num(2)? as u32)
                    }
                }
                ("p", 1) => a.space(num(1)?),
                ("w", 1) => a.aligns[num(1)?].add_width(num(2)? as u32),
                ("x", 1) => a.disable_auto_finish_for(num(1)?),
                ("y", 1) => a.enable_auto_finish_for(num(1)?),
                ("X", 1) => a.disable_auto_finish(),
                ("Y", 1) => a.enable_auto_finish(),
                ("A", 1) => a.gather_additions(),
                ("t", 2) => {
                    let l = parse_loc(parts[1], sources)?;
                    a.token(&vtoken(&l))
                }
                ("d", 2) => {
                    let l = parse_loc(parts[1], sources)?;
                    a.duplicated_token(&vtoken(&l), l.duplicated?)
                }
                ("D", 2) => {
                    let l = parse_loc(parts[1], sources)?;
                    a.aligns[num(1)?].duplicated_token(&vtoken(&l), l.duplicated?)
                }
                ("dl", 2) => {
                    let l = parse_loc(parts[1], sources)?;
                    a.aligns[num(1)?].dummy_location(l)
                }
                ("dt", 2) => {
                    let l = parse_loc(parts[1], sources)?;
                    if l.duplicated.is_some() {
                        return None;
                    }
                    a.aligns[num(1)?].dummy_token(&vtoken(&l))
                }
                ("a", 4) => {
                    let l = parse_loc(parts[1], sources)?;
                    let w = u32::from_str_radix(parts[2], 16).ok()?;
                    let k = match parts[3] {
                        "a" => PadKind::Always,
                        "b" => PadKind::IfBreak,
                        "f" => PadKind::IfFlat,
                        _ => return None,
                    };
                    a.additions.entry(l).and_modify(|(v, kd)| {
                        *v += w;
                        *kd = kd.merge(k);
                    }).or_insert((w, k));
                }
                _ => return None,
            }
        }
        let ll: Vec<String> = a
            .aligns
            .iter()
            .map(|x| match &x.last_location {
                None => "-".to_string(),
                Some(l) => show_loc(l, sources),
            })
            .collect();
        Some(format!("{}|{}|[{}]", show_adds(&a.additions, sources), a.any_enabled() as u8, ll.join(",")))
    }));
    match r {
        Ok(Some(s)) => s,
        Ok(None) => "bad-op".into(),
        Err(_) => "panic".into(),
    }
}

fn align_line(log: &mut Log, trace: &[String], sources: &[TokenSource]) {
    log.count("align_requests");
    log.add("align_ops_total", trace.len() as u64);
    let rep = replay_trace(trace, sources);
    log.push3(format!("align [{}]", trace.join(",")), rep, "?".into());
}

// ---------------------------------------------------------------------------------------------
// random call sequences (`--mode ops`)
// ---------------------------------------------------------------------------------------------

fn random_ops(log: &mut Log, seed: u64, n: u64) {
    let mut r = Rng::new(seed);
    let count = veryl_aligner::align_kind::COUNT;
    for i in 0..n {
        let len = *r.pick(&[0u64, 1, 3, 8, 20, 40, 80, 150]);
        let wild = r.chance(1, 12);
        let mut line = 1 + r.below(3);
        let mut col = 1u64;
        let mut trace: Vec<String> = vec![];
        let mut locs: Vec<String> = vec![];
        let kinds: Vec<usize> = (0..1 + r.below(3)).map(|_| r.below(count as u64) as usize).collect();
        for _ in 0..len {
            let k = if wild && r.chance(1, 15) { count + r.below(3) as usize } else { *r.pick(&kinds) };
            let new_loc = |r: &mut Rng, line: &mut u64, col: &mut u64, dup: bool| -> String {
                match r.below(10) {
                    0 => {
                        *line += 1;
                        *col = 1;
                    }
                    1 => {
                        *line += 2 + r.below(3);
                        *col = 1;
                    }
                    2 if wild => {
                        *line = line.saturating_sub(1 + r.below(2));
                    }
                    _ => {}
                }
                let len = *r.pick(&[0u64, 1, 1, 2, 3, 5, 8, 13, 40]);
                let l = format!(
                    "{:x}.{:x}.{:x}.{:x}.{}",
                    if wild && r.chance(1, 20) { 0 } else { *line },
                    *col,
                    len,
                    r.below(2),
                    if dup { format!("{:x}", r.below(3)) } else { "-".to_string() }
                );
                *col += len + r.below(3);
                l
            };
            if r.chance(1, 4) {
                // a whole aligned item, as the walkers produce them: start, tokens/spaces, finish (+ statement end)
                let start = *r.pick(&["s", "s", "s", "sb", "sf"]);
                trace.push(format!("{start}.{k:x}"));
                for _ in 0..1 + r.below(3) {
                    let l = new_loc(&mut r, &mut line, &mut col, false);
                    locs.push(l.clone());
                    trace.push(format!("t:{l}"));
                    if r.chance(1, 3) {
                        trace.push(format!("p.{:x}", 1 + r.below(2)));
                    }
                }
                trace.push(format!("f.{k:x}"));
                if r.chance(1, 3) {
                    trace.push("e".into());
                }
                log.count("op_item");
                continue;
            }
            let t = match r.below(30) {
                0..=4 => format!("s.{k:x}"),
                5 => format!("sb.{k:x}"),
                6 => format!("sf.{k:x}"),
                7..=10 => format!("f.{k:x}"),
                11 => "F".to_string(),
                12 => if r.chance(1, 3) { "G".to_string() } else { format!("g.{k:x}") },
                13 => if r.chance(1, 2) { "c".to_string() } else { format!("c.{k:x}") },
                14 | 15 => if r.chance(3, 4) { "e".to_string() } else { format!("e.{k:x}.{:x}", line + r.below(3)) },
                16..=21 => {
                    let l = if !locs.is_empty() && r.chance(1, 10) { r.pick(&locs).clone() } else { new_loc(&mut r, &mut line, &mut col, false) };
                    let l = if l.ends_with('-') { l } else { format!("{}-", &l[..l.rfind('.').unwrap() + 1]) };
                    locs.push(l.clone());
                    format!("t:{l}")
                }
                22 => {
                    let l = new_loc(&mut r, &mut line, &mut col, true);
                    if r.chance(1, 2) { format!("d:{l}") } else { format!("D.{k:x}:{l}") }
                }
                23 | 24 => format!("p.{:x}", r.below(5)),
                25 => format!("w.{k:x}.{:x}", r.below(20)),
                26 => {
                    let l = if !locs.is_empty() && r.chance(1, 2) { r.pick(&locs).clone() } else { new_loc(&mut r, &mut line, &mut col, false) };
                    if r.chance(1, 2) { format!("dl.{k:x}:{l}") } else { format!("dt.{k:x}:{l}") }
                }
                27 => (*r.pick(&["x", "y"])).to_string() + &format!(".{k:x}"),
                28 => (*r.pick(&["X", "Y"])).to_string(),
                _ => {
                    let l = if !locs.is_empty() && r.chance(2, 3) { r.pick(&locs).clone() } else { new_loc(&mut r, &mut line, &mut col, false) };
                    format!("a:{l}:{:x}:{}", r.below(6), *r.pick(&["a", "b", "f"]))
                }
            };
            log.count(&format!("op_{}", t.split([':', '.']).next().unwrap_or("")));
            trace.push(t);
        }
        if r.chance(3, 4) {
            trace.push("G".into());
            trace.push("A".into());
        }
        if wild {
            log.count("traces_wild");
        }
        align_line(log, &trace, &SYNTH_SOURCES);
        if i < 2 {
            log.sample(format!("align [{}]", trace.join(",")));
        }
    }
}

// ---------------------------------------------------------------------------------------------
// one formatter pass (real + traced)
// ---------------------------------------------------------------------------------------------

struct Pass {
    out: String,
    doc: Option<(Doc, RenderOpts)>,
    trace: Vec<String>,
    sources: Vec<TokenSource>,
    shim_out: Option<String>,
    parser: Parser,
}

#[allow(unexpected_cfgs)]
fn format_pass(src: &str, opt: &Opt) -> Result<Pass, &'static str> {
    let metadata = opt.metadata();
    let Some(parser) = emitctx::parse_quiet(src, "f.veryl") else { return Err("noparse") };
    let analyzer = Analyzer::new(&metadata);
    analyzer.clear();
    let _ = panic::catch_unwind(panic::AssertUnwindSafe(|| analyzer.analyze_pass1("prj", &parser.veryl)));
    #[cfg(veryl_verif)]
    veryl_pretty::render::verif_tap::start();
    let real = panic::catch_unwind(panic::AssertUnwindSafe(|| {
        let mut f = veryl_formatter::Formatter::new(&metadata);
        f.format(&parser.veryl, src);
        f.as_str().to_string()
    }));
    #[cfg(veryl_verif)]
    let mut docs = veryl_pretty::render::verif_tap::take();
    #[cfg(not(veryl_verif))]
    let mut docs: Vec<(Doc, RenderOpts)> = vec![];
    let Ok(out) = real else { return Err("panic") };
    let doc = if docs.len() == 1 { docs.pop() } else { None };
    // the same source file of the formatter compiled against the tracing aligner wrapper
    let traced = panic::catch_unwind(panic::AssertUnwindSafe(|| {
        let mut f = hx_fmt_traced::Formatter::new(&metadata);
        f.format(&parser.veryl, src);
        f.as_str().to_string()
    }));
    #[cfg(veryl_verif)]
    let _ = veryl_pretty::render::verif_tap::take();
    let trace = hx_align_shim::take_trace();
    let sources = hx_align_shim::sources();
    Ok(Pass { out, doc, trace, sources, shim_out: traced.ok(), parser })
}

/// Pad nodes of a Doc in document order.
fn doc_pads(d: &Doc, out: &mut Vec<(u32, &'static str)>) {
    match d {
        Doc::Concat(items) => items.iter().for_each(|i| doc_pads(i, out)),
        Doc::Indent(_, i) | Doc::Group(i) | Doc::ForceFlat(i) => doc_pads(i, out),
        Doc::Pad(w) => out.push((*w, "a")),
        Doc::IfBreakPad(w) => out.push((*w, "b")),
        Doc::IfFlatPad(w) => out.push((*w, "f")),
        _ => {}
    }
}

/// The Doc with pad nodes removed, nested Concats flattened and empty/singleton Concats simplified
/// (what `doc::concat` does when a zero-width pad vanishes), serialised.
fn doc_without_pads(d: &Doc) -> String {
    fn norm(d: &Doc) -> Doc {
        match d {
            Doc::Pad(_) | Doc::IfBreakPad(_) | Doc::IfFlatPad(_) => Doc::Nil,
            Doc::Concat(items) => {
                let mut v: Vec<Doc> = vec![];
                for i in items.iter() {
                    match norm(i) {
                        Doc::Nil => {}
                        Doc::Concat(inner) => v.extend(inner.iter().cloned()),
                        x => v.push(x),
                    }
                }
                // runs of sibling hard lines (= blank lines) count once: their multiplicity is judged on the
                // text (`blank=` bit of the verdict)
                v.dedup_by(|a, b| matches!(a, Doc::Hardline) && matches!(b, Doc::Hardline));
                match v.len() {
                    0 => Doc::Nil,
                    1 => v.pop().unwrap(),
                    _ => Doc::Concat(v.into()),
                }
            }
            Doc::Indent(l, i) => match norm(i) {
                Doc::Nil => Doc::Nil,
                x => Doc::Indent(*l, std::rc::Rc::new(x)),
            },
            Doc::Group(i) => Doc::Group(std::rc::Rc::new(norm(i))),
            // pass 1 trims trailing blanks inside comments (allowed: C09), so pass 2 sees the trimmed text
            Doc::Comments(cs) => Doc::Comments(
                cs.iter()
                    .map(|c| veryl_pretty::doc::CommentDoc {
                        text: c.text.split('\n').map(|l| l.trim_end_matches([' ', '\t', '\r'])).collect::<Vec<_>>().join("\n").into(),
                        leading_newlines: c.leading_newlines,
                        is_line_comment: c.is_line_comment,
                        src_line: c.src_line,
                        src_column: c.src_column,
                    })
                    .collect::<Vec<_>>()
                    .into(),
            ),
            Doc::ForceFlat(i) => Doc::ForceFlat(std::rc::Rc::new(norm(i))),
            x => x.clone(),
        }
    }
    let o = RenderOpts { max_width: 0, indent_width: 0, newline: "", strip_trailing_whitespace: false };
    doc_to_sexp(&norm(d), &o)
}

/// `tie`: the recorded trace really is what the real Formatter's private aligner did.
fn tie_verdict(p: &Pass, opt: &Opt) -> String {
    let shim = p.shim_out.as_deref() == Some(p.out.as_str());
    // additions of the real aligner for this trace (public API replay), looked up in walk order
    let mut pads_ok = true;
    let mut render_ok = true;
    if let Some((doc, ro)) = &p.doc {
        let mut real_pads = vec![];
        doc_pads(doc, &mut real_pads);
        let mut expect: Vec<(u32, &'static str)> = vec![];
        if opt.valign {
            // replay through the same code path as the `align` lines
            let rep = replay_trace(&p.trace, &p.sources);
            let adds = parse_adds(rep.split('|').next().unwrap_or(""));
            for t in &p.trace {
                if let Some(l) = t.strip_prefix("t:") {
                    if let Some((w, k)) = adds.get(l) {
                        if *w > 0 {
                            expect.push((*w, *k));
                        }
                    }
                }
            }
        }
        pads_ok = real_pads == expect;
        let r = render_with_anchors(doc, ro);
        render_ok = r.text == p.out;
    }
    let b = |x: bool| if x { "ok" } else { "BAD" };
    format!("shim={} pads={} render={}", b(shim), b(pads_ok), b(render_ok))
}

fn parse_adds(s: &str) -> HashMap<String, (u32, &'static str)> {
    let mut m = HashMap::new();
    let inner = s.trim_start_matches('[').trim_end_matches(']');
    for e in inner.split(',').filter(|x| !x.is_empty()) {
        let p: Vec<&str> = e.split(':').collect();
        if p.len() == 3 {
            let k = match p[2] {
                "a" => "a",
                "b" => "b",
                _ => "f",
            };
            m.insert(p[0].to_string(), (u32::from_str_radix(p[1], 16).unwrap_or(0), k));
        }
    }
    m
}

/// The call trace with every location replaced by `len` only.
fn trace_shape(t: &[String]) -> Vec<String> {
    t.iter()
        .map(|x| {
            let p: Vec<&str> = x.split(':').collect();
            if p.len() >= 2 {
                let l: Vec<&str> = p[1].split('.').collect();
                let len = l.get(2).copied().unwrap_or("?");
                let dup = l.get(4).copied().unwrap_or("?");
                format!("{}:{}.{}:{}", p[0], len, dup, p[2..].join(":"))
            } else if x.starts_with("e.") {
                // Align::note_statement_end(line): the line is a position
                let h: Vec<&str> = x.split('.').collect();
                format!("e.{}", h.get(1).copied().unwrap_or("?"))
            } else {
                x.clone()
            }
        })
        .collect()
}

/// Equal shapes, where an optional trailing separator may be a real 1-byte token in one trace
/// (`Aligner::token`) and the width reserved for it in the other (`Aligner::space(1)`).
fn shapes_equal(a: &[String], b: &[String]) -> bool {
    a.len() == b.len()
        && a.iter().zip(b.iter()).all(|(x, y)| x == y || (x == "p.1" && y == "t:1.-:") || (y == "p.1" && x == "t:1.-:"))
}

/// The runs of blank lines of a text, keyed by their context in the stream of non-blank characters (commas
/// dropped: layout, padding and optional trailing separators do not change it): (the 40 characters before the
/// run, the 8 after it) -> lengths in order.
fn blank_runs(t: &str) -> BTreeMap<(String, String), Vec<usize>> {
    let mut m: BTreeMap<(String, String), Vec<usize>> = BTreeMap::new();
    let lines: Vec<&str> = t.split('\n').map(|l| l.trim_end_matches('\r')).collect();
    let squeeze = |l: &str| -> String { l.chars().filter(|c| !c.is_whitespace() && *c != ',').collect() };
    let mut before: Vec<char> = vec![];
    let mut k = 0;
    while k < lines.len() {
        if lines[k].trim().is_empty() {
            let st = k;
            while k < lines.len() && lines[k].trim().is_empty() {
                k += 1;
            }
            if k < lines.len() {
                let b: String = before[before.len().saturating_sub(40)..].iter().collect();
                let mut after = String::new();
                let mut j = k;
                while j < lines.len() && after.chars().count() < 8 {
                    after.push_str(&squeeze(lines[j]));
                    j += 1;
                }
                let after: String = after.chars().take(8).collect();
                m.entry((b, after)).or_default().push(k - st);
            }
        } else {
            before.extend(squeeze(lines[k]).chars());
            k += 1;
        }
    }
    m
}

/// How the blank lines of two consecutive passes differ: `0` not at all; `modport` only inside empty modport
/// bodies (`modport <id> {` … `}`: `Formatter::modport_declaration` emits `newline_push` + `newline_pop` around
/// nothing, and the next pass sees a source-line gap there); `other`.
fn blank_class(a: &str, b: &str) -> &'static str {
    let (ra, rb) = (blank_runs(a), blank_runs(b));
    if ra == rb {
        return "0";
    }
    let keys: std::collections::BTreeSet<_> = ra.keys().chain(rb.keys()).cloned().collect();
    for k in keys {
        if ra.get(&k) != rb.get(&k) {
            let (before, after) = &k;
            // … `modport` <identifier> `{`  |  `}`
            let modport = after.starts_with('}') && before.ends_with('{') && {
                let body = &before[..before.len() - 1];
                let id_len = body.chars().rev().take_while(|c| c.is_alphanumeric() || *c == '_' || *c == '#').count();
                let head: String = body.chars().take(body.chars().count() - id_len).collect();
                let ident: String = body.chars().skip(body.chars().count() - id_len).collect();
                // the identifier characters run into the keyword: `modport` must be their prefix or precede them
                head.ends_with("modport") || ident.starts_with("modport") && ident.len() > "modport".len()
            };
            if !modport {
                return "other";
            }
        }
    }
    "modport"
}

fn without_blank_lines(t: &str) -> String {
    t.split('\n').filter(|l| !l.trim().is_empty()).collect::<Vec<_>>().join("\n")
}

/// Do `a` and `b` differ only in the lengths of runs of spaces inside lines (indentation equal)?
fn only_space_runs(a: &str, b: &str) -> bool {
    let la: Vec<&str> = a.split('\n').collect();
    let lb: Vec<&str> = b.split('\n').collect();
    if la.len() != lb.len() {
        return false;
    }
    la.iter().zip(lb.iter()).all(|(x, y)| {
        let ix = x.len() - x.trim_start_matches(' ').len();
        let iy = y.len() - y.trim_start_matches(' ').len();
        ix == iy && x.replace(' ', "") == y.replace(' ', "")
    })
}

// ---------------------------------------------------------------------------------------------
// C09 verdicts
// ---------------------------------------------------------------------------------------------

fn is_closer(s: &str) -> bool {
    matches!(s, ")" | "}" | "]" | ">")
}

/// Token texts with optional trailing separators (a `,` directly before a closer) removed.
fn strip_trailing_seps(t: &[String]) -> Vec<String> {
    let mut out = vec![];
    for (i, x) in t.iter().enumerate() {
        if x == "," && t.get(i + 1).is_some_and(|n| is_closer(n)) {
            continue;
        }
        out.push(x.clone());
    }
    out
}

fn norm_comment(s: &str) -> String {
    s.split('\n').map(|l| l.trim_end_matches([' ', '\t', '\r'])).collect::<Vec<_>>().join("\n").trim_end().to_string()
}

fn layout_verdict(src_parser: &Parser, src: &str, out: &str) -> (String, Option<Parser>) {
    let b = |x: bool| if x { "ok" } else { "BAD" };
    let Some(p2) = emitctx::parse_quiet(out, "f.veryl") else {
        return ("reparse=BAD tokens=? comments=?".into(), None);
    };
    let s1 = emitctx::token_stream(src_parser);
    let s2 = emitctx::token_stream(&p2);
    let t1: Vec<String> = s1.iter().filter(|x| !x.1).map(|x| x.0.clone()).collect();
    let t2: Vec<String> = s2.iter().filter(|x| !x.1).map(|x| x.0.clone()).collect();
    let c1: Vec<String> = s1.iter().filter(|x| x.1).map(|x| norm_comment(&x.0)).collect();
    let c2: Vec<String> = s2.iter().filter(|x| x.1).map(|x| norm_comment(&x.0)).collect();
    let tokens = strip_trailing_seps(&t1) == strip_trailing_seps(&t2);
    if !tokens && std::env::var("HX_DUMP").is_ok() {
        let (a, b) = (strip_trailing_seps(&t1), strip_trailing_seps(&t2));
        let k = a.iter().zip(b.iter()).position(|(x, y)| x != y).unwrap_or(a.len().min(b.len()));
        for (tx, c, t) in s1.iter().filter(|x| !x.1).skip(k.saturating_sub(1)).take(4) {
            eprintln!("  src token {:?} comment={} line={} column={} pos={} length={}", tx.chars().rev().take(12).collect::<String>().chars().rev().collect::<String>(), c, t.line, t.column, t.pos, t.length);
        }
        eprintln!("TOKENS differ at {k} of {}/{}: {:?} vs {:?}", a.len(), b.len(), &a[k.saturating_sub(2)..(k + 3).min(a.len())], &b[k.saturating_sub(2)..(k + 3).min(b.len())]);
    }
    // signatures of the two known defects that change the TEXT of a multi-line token (embedded foreign code):
    // * `embed-trailing-ws`: `strip_trailing_whitespace` runs over the whole rendered text, so blanks are trimmed
    //   where a line ENDS inside the token;
    // * `embed-token-position`: the lexer reports the token that follows an embed-content token ending in a
    //   newline one line too early and too far right; `Formatter::unformat_embed_items` rebuilds the gap from these
    //   positions and writes spaces instead of nothing — the content token grows by blanks after its last newline.
    //   Confirmed independently: some token of the source has (line, column) != the position recomputed from `pos`.
    let mut kinds: std::collections::BTreeSet<&'static str> = std::collections::BTreeSet::new();
    if !tokens {
        let (a, bb) = (strip_trailing_seps(&t1), strip_trailing_seps(&t2));
        let trim = |x: &str| {
            let v: Vec<&str> = x.split('\n').collect();
            let n = v.len();
            // a line of the token ends in "\n" or "\r\n" (the renderer trims before whichever its newline string is)
            v.iter()
                .enumerate()
                .map(|(k, l)| {
                    if k + 1 == n {
                        l.to_string()
                    } else if let Some(body) = l.strip_suffix('\r') {
                        format!("{}\r", body.trim_end_matches([' ', '\t']))
                    } else {
                        l.trim_end_matches([' ', '\t']).to_string()
                    }
                })
                .collect::<Vec<_>>()
                .join("\n")
        };
        let mispositioned = s1.iter().any(|(_, _, t)| {
            let before = &src[..(t.pos as usize).min(src.len())];
            let line = 1 + before.matches('\n').count() as u32;
            let col = 1 + before.rsplit('\n').next().unwrap_or("").chars().count() as u32;
            (t.line, t.column) != (line, col)
        });
        if a.len() != bb.len() {
            kinds.insert("other");
        } else {
            for (x, y) in a.iter().zip(bb.iter()) {
                if x == y {
                    continue;
                }
                // line by line: an interior line may have lost its trailing blanks (before "\n" or "\r\n"); the
                // last line (after the final newline of the token) may have gained blanks if it was empty
                let (lx, ly): (Vec<&str>, Vec<&str>) = (x.split('\n').collect(), y.split('\n').collect());
                if lx.len() < 2 || lx.len() != ly.len() {
                    kinds.insert("other");
                    continue;
                }
                let n = lx.len();
                let mut ok = true;
                let (mut tws, mut pos) = (false, false);
                for k in 0..n {
                    if lx[k] == ly[k] {
                        continue;
                    }
                    if k + 1 < n && trim(&format!("{}\n", lx[k])) == format!("{}\n", ly[k]) {
                        tws = true;
                    } else if k + 1 == n && lx[k].is_empty() && mispositioned && ly[k].chars().all(|c| c == ' ') {
                        pos = true;
                    } else {
                        ok = false;
                    }
                }
                if !ok {
                    kinds.insert("other");
                } else {
                    if tws {
                        kinds.insert("embed-trailing-ws");
                    }
                    if pos {
                        kinds.insert("embed-token-position");
                    }
                }
            }
        }
    }
    let tv = if tokens {
        "ok".to_string()
    } else if kinds.contains("other") || kinds.is_empty() {
        "BAD".to_string()
    } else {
        format!("BAD:{}", kinds.into_iter().collect::<Vec<_>>().join("+"))
    };
    (format!("reparse=ok tokens={} comments={}", tv, b(c1 == c2)), Some(p2))
}

// ---------------------------------------------------------------------------------------------
// one case
// ---------------------------------------------------------------------------------------------

struct Budget {
    render_every: u64,
    align_every: u64,
}

fn run_case(log: &mut Log, id: u64, src: &str, opt: &Opt, b: &Budget, label: &str) -> Option<String> {
    let hexsrc = hex(src.as_bytes());
    let o = opt.show();
    log.count("cases");
    log.count(&format!("cases_{label}"));
    let p1 = match format_pass(src, opt) {
        Ok(p) => p,
        Err(e) => {
            log.count(&format!("pass1_{e}"));
            log.push3(format!("idem {id:x} {o} {hexsrc}"), e.to_string(), if e == "noparse" { "noparse".into() } else { "ok".into() });
            return None;
        }
    };
    // ---- C09
    let (mut layout, p_out) = layout_verdict(&p1.parser, src, &p1.out);
    let _ = &mut layout;
    log.push3(format!("layout {id:x} {o} {hexsrc}"), layout.clone(), "reparse=ok tokens=ok comments=ok".into());
    if layout != "reparse=ok tokens=ok comments=ok" {
        log.count("layout_bad");
    }
    // ---- correspondence on pass 1
    log.push3(format!("tie {id:x} 1"), tie_verdict(&p1, opt), "shim=ok pads=ok render=ok".into());
    let emit_align = opt.valign && (id % b.align_every == 0);
    if emit_align {
        align_line(log, &p1.trace, &p1.sources);
    }
    if let Some((doc, ro)) = &p1.doc {
        let flags = doc_flags(doc);
        log.push3(format!("dflags {}", sexp_only(doc)), flags.clone(), expect_flags(&flags, true));
        if id % b.render_every == 0 {
            let r = render_with_anchors(doc, ro);
            log.count("render_requests");
            log.push3(format!("render {}", doc_to_sexp(doc, ro)), rendered_to_reply(&r), "?".into());
        }
    }
    // ---- C08
    if p_out.is_none() {
        log.push3(format!("idem {id:x} {o} {hexsrc}"), "noparse2".into(), "ok".into());
        return Some(p1.out);
    }
    let p2 = match format_pass(&p1.out, opt) {
        Ok(p) => p,
        Err(e) => {
            log.push3(format!("idem {id:x} {o} {hexsrc}"), format!("pass2-{e}"), "ok".into());
            return Some(p1.out);
        }
    };
    if p2.out == p1.out {
        log.count("idempotent");
        log.push3(format!("idem {id:x} {o} {hexsrc}"), "ok".into(), "ok".into());
        // premise check of `reduction`: doc(format s) = doc(s)?  (recorded, not raised)
        if let (Some((d1, _)), Some((d2, _))) = (&p1.doc, &p2.doc) {
            let same = doc_to_sexp(d1, &RenderOpts { max_width: 0, indent_width: 0, newline: "", strip_trailing_whitespace: false })
                == doc_to_sexp(d2, &RenderOpts { max_width: 0, indent_width: 0, newline: "", strip_trailing_whitespace: false });
            log.count(if same { "premise_doc_equal" } else { "premise_doc_differs_output_equal" });
        }
        return Some(p1.out);
    }
    log.count("nonidempotent");
    log.count(&format!("nonidempotent_{label}"));
    if let Ok(dir) = std::env::var("HX_DUMP") {
        let _ = std::fs::write(format!("{dir}/case{id:x}.src.veryl"), src);
        let _ = std::fs::write(format!("{dir}/case{id:x}.pass1.veryl"), &p1.out);
        let _ = std::fs::write(format!("{dir}/case{id:x}.pass2.veryl"), &p2.out);
        if let (Some((d1, _)), Some((d2, _))) = (&p1.doc, &p2.doc) {
            let _ = std::fs::write(format!("{dir}/case{id:x}.doc1.txt"), doc_without_pads(d1).replace("),(", "),\n("));
            let _ = std::fs::write(format!("{dir}/case{id:x}.doc2.txt"), doc_without_pads(d2).replace("),(", "),\n("));
        }
        let _ = std::fs::write(format!("{dir}/case{id:x}.trace1.txt"), trace_shape(&p1.trace).join("\n"));
        let _ = std::fs::write(format!("{dir}/case{id:x}.trace2.txt"), trace_shape(&p2.trace).join("\n"));
    }
    let sp = only_space_runs(&without_blank_lines(&p1.out), &without_blank_lines(&p2.out));
    // the orbit of the text under repeated formatting: passes 1, 2, … up to MAX_PASSES, until a text repeats
    const MAX_PASSES: usize = 10;
    let tie_ok = "shim=ok pads=ok render=ok";
    let first_out = p1.out.clone();
    let mut passes: Vec<Pass> = vec![p1, p2];
    let mut orbit = "none".to_string();
    loop {
        let n = passes.len();
        // does the newest text repeat an earlier one?
        if let Some(k) = (0..n - 1).find(|k| passes[*k].out == passes[n - 1].out) {
            // pass k+1 and pass n have the same text (1-based)
            orbit = if k + 2 == n { format!("fix@{}", k + 1) } else { format!("cyc@{}+{}", k + 1, n - 1 - k) };
            break;
        }
        if n >= MAX_PASSES {
            break;
        }
        match format_pass(&passes[n - 1].out, opt) {
            Ok(p) => passes.push(p),
            Err(_) => {
                orbit = "error".into();
                break;
            }
        }
    }
    log.count(&format!("orbit_{}", orbit.split('@').next().unwrap_or("")));
    log.add("orbit_passes_total", passes.len() as u64);
    // verified conditions, for EVERY pass of the orbit: the Docs are equal once pads are removed, the aligner
    // call traces are equal up to token positions, the traced build agrees with the real Formatter and the
    // real Doc's pads are the real aligner's additions
    let norm0 = passes[0].doc.as_ref().map(|(d, _)| doc_without_pads(d));
    let docs = norm0.is_some() && passes.iter().all(|p| p.doc.as_ref().map(|(d, _)| doc_without_pads(d)) == norm0);
    let shape0 = trace_shape(&passes[0].trace);
    let shape = passes.iter().all(|p| shapes_equal(&shape0, &trace_shape(&p.trace)));
    let mut tie = true;
    for (k, p) in passes.iter().enumerate() {
        let tv = tie_verdict(p, opt);
        tie &= tv == tie_ok;
        if k > 0 {
            log.push3(format!("tie {id:x} {}", k + 1), tv, tie_ok.into());
        }
        // the aligner's view of every pass: Lean must reproduce every set of additions …
        if k > 0 || !emit_align {
            align_line(log, &p.trace, &p.sources);
        }
        // … and M-Pretty every output from its Doc
        if let Some((doc, ro)) = &p.doc {
            let r = render_with_anchors(doc, ro);
            log.count("render_requests");
            log.push3(format!("render {}", doc_to_sexp(doc, ro)), rendered_to_reply(&r), "?".into());
        }
    }
    // blank lines: compared separately from everything else
    let mut blank = "0";
    let mut same = true;
    for w in passes.windows(2) {
        match blank_class(&w[0].out, &w[1].out) {
            "other" => blank = "other",
            "modport" if blank == "0" => blank = "modport",
            _ => {}
        }
        same &= without_blank_lines(&w[0].out) == without_blank_lines(&w[1].out);
    }
    log.count(&format!("blank_{blank}"));
    let b01 = |x: bool| x as u8;
    log.push3(
        format!("idem {id:x} {o} {hexsrc}"),
        format!(
            "nonidem blank={} same={} sp={} orbit={} docs={} shape={} tie={}",
            blank, b01(same), b01(sp), orbit, b01(docs), b01(shape), b01(tie)
        ),
        "ok".into(),
    );
    Some(first_out)
}

fn sexp_only(d: &Doc) -> String {
    let o = RenderOpts { max_width: 0, indent_width: 0, newline: "", strip_trailing_whitespace: false };
    doc_to_sexp(d, &o).rsplit(' ').next().unwrap_or("").to_string()
}

fn all_nodes(d: &Doc, p: &dyn Fn(&Doc) -> bool) -> bool {
    p(d) && match d {
        Doc::Concat(items) => items.iter().all(|i| all_nodes(i, p)),
        Doc::Indent(_, i) | Doc::Group(i) | Doc::ForceFlat(i) => all_nodes(i, p),
        _ => true,
    }
}

fn is_ws(c: char) -> bool {
    matches!(c, ' ' | '\t' | '\n' | '\r')
}

/// The decidable side conditions of the C09/C13/C26 theorems (computed independently of the Lean ones).
pub fn doc_flags(d: &Doc) -> String {
    let ifbcomma = all_nodes(d, &|x| !matches!(x, Doc::IfBreak(s) if &**s != ","));
    let noifb = all_nodes(d, &|x| !matches!(x, Doc::IfBreak(_)));
    let linews = all_nodes(d, &|x| !matches!(x, Doc::Line(s) if !s.chars().all(is_ws)));
    let srcok = all_nodes(d, &|x| !matches!(x, Doc::Anchored(a) if a.src_line == 0 || a.src_column == 0));
    let nlfree = all_nodes(d, &|x| match x {
        Doc::Text(s) | Doc::IfBreak(s) => !s.contains('\n'),
        Doc::Line(s) => !s.contains('\n'),
        Doc::Anchored(a) => !a.text.contains('\n'),
        Doc::Comments(cs) => cs.iter().all(|c| !c.text.contains('\n')),
        _ => true,
    });
    format!(
        "ifbcomma={} noifb={} linews={} srcok={} nlfree={}",
        ifbcomma as u8, noifb as u8, linews as u8, srcok as u8, nlfree as u8
    )
}

/// Oracle for `dflags`: formatter Docs must have `ifbcomma=1 linews=1`; emitter Docs `noifb=1 linews=1 srcok=1`.
pub fn expect_flags(actual: &str, formatter: bool) -> String {
    actual
        .split(' ')
        .map(|f| {
            let (k, _) = f.split_once('=').unwrap_or((f, ""));
            let must = if formatter { matches!(k, "ifbcomma" | "linews") } else { matches!(k, "noifb" | "linews" | "srcok") };
            if must { format!("{k}=1") } else { f.to_string() }
        })
        .collect::<Vec<_>>()
        .join(" ")
}

// ---------------------------------------------------------------------------------------------
// SV equivalence of original and formatted text (C09, third sentence)
// ---------------------------------------------------------------------------------------------

/// Emit every file of `a` and of `b` (same names, e.g. originals and their formatted texts), each set
/// analysed as one project, and compare the SV token streams (comments and layout dropped).
fn sv_compare(log: &mut Log, a: emitctx::FileSet, b: emitctx::FileSet, label: &str) {
    let emit_all = |files: emitctx::FileSet| {
        emitctx::with_project(files, |prj| {
            let mut v: Vec<Option<Vec<String>>> = vec![];
            for i in 0..prj.files.len() {
                v.push(prj.emit(i, &Opt::DEFAULT).map(|e| svlex::code_tokens(&e.sv)));
            }
            (prj.errors, v)
        })
    };
    let names: Vec<String> = a.iter().map(|x| x.0.clone()).collect();
    let srcs: Vec<String> = a.iter().map(|x| x.1.clone()).collect();
    let (Ok((ea, va)), Ok((eb, vb))) = (emit_all(a), emit_all(b)) else {
        log.count("sv_project_failed");
        return;
    };
    log.add(&format!("sv_{label}_analyzer_errors_before"), ea as u64);
    log.add(&format!("sv_{label}_analyzer_errors_after"), eb as u64);
    for (i, name) in names.iter().enumerate() {
        let verdict = match (&va[i], &vb[i]) {
            (Some(x), Some(y)) => {
                if x == y {
                    "sv=ok"
                } else {
                    "sv=BAD"
                }
            }
            (None, None) => "sv=noemit",
            (Some(_), None) => "sv=BAD-noemit-after",
            (None, Some(_)) => "sv=noemit-before",
        };
        log.count(&format!("sv_{label}_{}", &verdict[3..]));
        let oracle = if verdict.starts_with("sv=noemit") { verdict } else { "sv=ok" };
        log.push3(format!("layout sv:{label}:{name} {} {}", Opt::DEFAULT.show(), hex(srcs[i].as_bytes())), verdict.into(), oracle.into());
    }
}

// ---------------------------------------------------------------------------------------------
// option sets
// ---------------------------------------------------------------------------------------------

fn option_sets() -> Vec<Opt> {
    let mut v = vec![];
    for indent in [2usize, 4, 8] {
        for width in [20usize, 40, 80, 120] {
            for valign in [true, false] {
                for nl in ['a', 'u', 'w'] {
                    v.push(Opt { indent, width, valign, newline: nl, strip: false, expand: false });
                }
            }
        }
    }
    v
}

fn replay(log: &mut Log, path: &str) {
    let body = std::fs::read_to_string(path).unwrap_or_default();
    let b = Budget { render_every: 1, align_every: 1 };
    for line in body.lines() {
        let t: Vec<&str> = line.split(' ').filter(|x| !x.is_empty()).collect();
        if t.is_empty() {
            continue;
        }
        match t[0] {
            "idem" | "layout" if t.len() == 4 && !t[1].starts_with("sv:") => {
                let id = u64::from_str_radix(t[1], 16).unwrap_or(0);
                let src = unhex(t[3]);
                match (Opt::parse(t[2]), src) {
                    (Some(o), Some(s)) => {
                        run_case(log, id, &s, &o, &b, "replay");
                    }
                    _ => log.push3(line.to_string(), "bad-op".into(), "?".into()),
                }
            }
            "align" if t.len() == 2 => {
                let inner = t[1].trim_start_matches('[').trim_end_matches(']');
                let trace: Vec<String> = inner.split(',').filter(|x| !x.is_empty()).map(|x| x.to_string()).collect();
                align_line(log, &trace, &SYNTH_SOURCES);
            }
            _ => log.push3(line.to_string(), "bad-op".into(), "?".into()),
        }
    }
}

fn unhex(s: &str) -> Option<String> {
    if s.len() % 2 != 0 {
        return None;
    }
    let mut v = Vec::with_capacity(s.len() / 2);
    for i in (0..s.len()).step_by(2) {
        v.push(u8::from_str_radix(s.get(i..i + 2)?, 16).ok()?);
    }
    String::from_utf8(v).ok()
}

pub fn main(opts: &Opts) -> i32 {
    panic::set_hook(Box::new(|_| {}));
    let seed = opts.seed();
    let n = opts.num("n", 200);
    let nopt = opts.num("optsets", 3);
    let mode = opts.get("mode").unwrap_or("fmt").to_string();
    let render_every = opts.num("render-every", 20).max(1);
    let align_every = opts.num("align-every", 1).max(1);
    let sv = opts.num("sv", 1) != 0;
    let replay_file = opts.get("replay").map(|x| x.to_string());
    let out = opts.out();
    let handle = std::thread::Builder::new()
        .stack_size(512 * 1024 * 1024)
        .spawn(move || {
            let mut log = Log::new();
            if let Some(f) = replay_file {
                replay(&mut log, &f);
            } else if mode == "ops" {
                random_ops(&mut log, seed, n);
            } else {
                let mut r = Rng::new(seed);
                let corpus = emitctx::testcases();
                let sets = option_sets();
                let b = Budget { render_every, align_every };
                let mut id = 0u64;
                let mut formatted_orig: emitctx::FileSet = vec![];
                // 1. every testcase under the default options + `nopt - 1` random option sets
                for (name, src) in &corpus {
                    let o = run_case(&mut log, id, src, &Opt::DEFAULT, &b, "orig");
                    id += 1;
                    if let Some(o) = o {
                        formatted_orig.push((name.clone(), o));
                    } else {
                        formatted_orig.push((name.clone(), src.clone()));
                    }
                    for _ in 1..nopt {
                        let opt = *r.pick(&sets);
                        log.count(&format!("opt_width_{}", opt.width));
                        run_case(&mut log, id, src, &opt, &b, "orig");
                        id += 1;
                    }
                }
                // 1b. every testcase with a comment after EVERY separator (and optional trailing separators added):
                // list walkers take comments from the separator tokens; 1c. multi-byte text in every string literal
                for (name, src) in &corpus {
                    let m = emitctx::separator_mutant(src, name, true).or_else(|| emitctx::separator_mutant(src, name, false));
                    if let Some(m) = m {
                        log.count("separator_mutants");
                        run_case(&mut log, id, &m, &Opt::DEFAULT, &b, "sepmut");
                        id += 1;
                        let opt = *r.pick(&sets);
                        run_case(&mut log, id, &m, &opt, &b, "sepmut");
                        id += 1;
                    }
                    if let Some(m) = emitctx::mb_strings_mutant(src, name) {
                        log.count("mb_string_mutants");
                        run_case(&mut log, id, &m, &Opt::DEFAULT, &b, "mbstr");
                        id += 1;
                    }
                }
                // 2. mutants
                let mut mut_src: BTreeMap<String, String> = BTreeMap::new();
                let mut mut_fmt: BTreeMap<String, String> = BTreeMap::new();
                for k in 0..n {
                    let (name, src) = &corpus[(r.below(corpus.len() as u64)) as usize];
                    let Some((m, kinds)) = emitctx::mutant(&mut r, src, name) else {
                        log.count("mutant_failed");
                        continue;
                    };
                    for kd in &kinds {
                        log.count(&format!("mut_{kd}"));
                    }
                    let first = if r.chance(1, 2) { Opt::DEFAULT } else { *r.pick(&sets) };
                    let o = run_case(&mut log, id, &m, &first, &b, "mutant");
                    id += 1;
                    if first == Opt::DEFAULT && !mut_src.contains_key(name) {
                        if let Some(o) = o {
                            mut_src.insert(name.clone(), m.clone());
                            mut_fmt.insert(name.clone(), o);
                        }
                    }
                    for _ in 1..nopt {
                        let opt = *r.pick(&sets);
                        log.count(&format!("opt_width_{}", opt.width));
                        run_case(&mut log, id, &m, &opt, &b, "mutant");
                        id += 1;
                    }
                    if k < 2 {
                        log.sample(format!("mutant of {name} ({}): {} bytes", kinds.join("+"), m.len()));
                    }
                }
                // 3. C09, third sentence: SV of original vs formatted (self-contained testcases)
                if sv {
                    let a: emitctx::FileSet = corpus.iter().filter(|x| !emitctx::needs_outside(&x.0)).cloned().collect();
                    let bset: emitctx::FileSet = formatted_orig.iter().filter(|x| !emitctx::needs_outside(&x.0)).cloned().collect();
                    sv_compare(&mut log, a.clone(), bset, "orig");
                    // mutants: one project where every mutated file replaces its original
                    let am: emitctx::FileSet = a.iter().map(|(n, s)| (n.clone(), mut_src.get(n).cloned().unwrap_or(s.clone()))).collect();
                    let bm: emitctx::FileSet = a.iter().map(|(n, s)| (n.clone(), mut_fmt.get(n).cloned().unwrap_or(s.clone()))).collect();
                    log.add("sv_mutant_files_replaced", mut_src.len() as u64);
                    sv_compare(&mut log, am, bm, "mutant");
                }
            }
            log.add("sequences", log.ops.len() as u64);
            log.write(&out);
        })
        .unwrap();
    match handle.join() {
        Ok(()) => 0,
        Err(_) => 3,
    }
}
