//! Shared by the `fragment` (C06) and `order` (C24) domains: Veryl file sets (self-contained
//! /repo/testcases/veryl files + generated small multi-file projects covering every declaration
//! kind) and the pipeline runner (parse → pass1 → post_pass1 → pass2 → post_pass2 → emit) in a
//! fresh thread (all analyzer tables and id counters are thread-local).
use crate::rng::Rng;
use std::collections::BTreeMap;
use std::panic;
use std::path::{Path, PathBuf};
use veryl_analyzer::fragment_cache::{self, Fragment};
use veryl_analyzer::ir as air;
use veryl_analyzer::{Analyzer, Context, attribute_table, scope, symbol_table, type_dag, unsafe_table};
use veryl_emitter::Emitter;
use veryl_metadata::Metadata;
use veryl_parser::Parser;
use veryl_parser::resource_table;

pub type FileSet = Vec<(String, String)>;

/// Testcases that need other projects / external files (25_ 68_: dependencies; 52_ 67_: include a
/// file by relative path).
fn excluded(name: &str) -> bool {
    name.starts_with("25_") || name.starts_with("68_") || name.starts_with("52_") || name.starts_with("67_")
}

/// All self-contained testcases, sorted by name.
pub fn testcases() -> FileSet {
    let mut files = vec![];
    if let Ok(rd) = std::fs::read_dir("/repo/testcases/veryl") {
        for e in rd.flatten() {
            let p = e.path();
            if p.extension().is_some_and(|x| x == "veryl") {
                let name = p.file_name().unwrap().to_string_lossy().to_string();
                if excluded(&name) {
                    continue;
                }
                if let Ok(text) = std::fs::read_to_string(&p) {
                    files.push((name, text));
                }
            }
        }
    }
    files.sort();
    files
}

// ---------------------------------------------------------------------------------------------
// Generated projects. Every template is parameterised by a suffix `s` (unique per file) and, for
// consumers, by the suffix `p` of the provider file it refers to.
// ---------------------------------------------------------------------------------------------

pub const PROVIDERS: &[&str] = &["pkg", "bus", "genpkg", "leaf", "genmod", "genfn", "clk", "mix", "mixsrc"];
pub const CONSUMERS: &[&str] = &[
    "top", "sv", "usebus", "usegen", "misc", "ifdef", "usefn", "cdc",
    // one template per pending list / table a fragment carries (error-free variants)
    "msbok", "connok", "bindok", "infer", "unused", "imp",
    // interface mixing in another file's interface whose modports use default member lists
    "mixuse",
];
/// Variants whose post_pass1 / post_pass2 diagnostic depends on the pending entry (the project
/// is then not error-free: used by the `fragment` domain only, spec `gene:`).
pub const CONSUMERS_ERR: &[&str] = &["msbbad", "connbad", "cyc", "undef", "bindbad"];

pub fn provider(kind: &str, s: &str, r: &mut Rng) -> String {
    let w = *r.pick(&[1u32, 2, 8, 31, 32, 33, 64]);
    match kind {
        "pkg" => format!(
            r#"/// Package doc {s}
/// second line — ünïcode
pub package Pkg{s} {{
    const WIDTH: u32 = {w};
    const DEPTH: u32 = WIDTH * 2;
    type word = logic<WIDTH>;
    /// struct doc
    struct Pair {{
        a: logic<WIDTH>,
        b: word        ,
    }}
    enum Kind: logic<2> {{
        Idle,
        Busy,
        Done,
    }}
    union Un {{
        x: logic<8>,
        y: logic<8>,
    }}
    /// function doc
    function inc (
        v: input logic<WIDTH>,
    ) -> logic<WIDTH> {{
        return v + 1;
    }}
}}
"#
        ),
        "bus" => format!(
            r#"/// Interface doc {s}
pub interface Bus{s} #(
    param W: u32 = {w},
) {{
    var valid: logic   ;
    var ready: logic   ;
    var data : logic<W>;

    function is_fire () -> logic {{
        return valid & ready;
    }}

    modport master {{
        valid: output,
        data : output,
        ready: input ,
    }}
    modport slave {{
        ..converse(master)
    }}
}}
"#
        ),
        "genpkg" => format!(
            r#"pub proto package ProtoP{s} {{
    type data_t;
    const N: u32;
}}

/// generic package doc
pub package GenP{s}::<W: u32> for ProtoP{s} {{
    type data_t = logic<W>;
    const N: u32 = W;
}}
"#
        ),
        "leaf" => format!(
            r#"/// Leaf doc {s}
pub module Leaf{s} #(
    param W: u32 = {w},
) (
    i_clk: input  clock   ,
    i_rst: input  reset   ,
    i_d  : input  logic<W>,
    o_d  : output logic<W>,
) {{
    var r: logic<W>;
    always_ff {{
        if_reset {{
            r = 0;
        }} else {{
            r = i_d;
        }}
    }}
    assign o_d = r;
}}
"#
        ),
        "genmod" => format!(
            r#"pub proto module ProtoM{s} (
    i_d: input  logic<8>,
    o_d: output logic<8>,
);

pub module ImplM{s} for ProtoM{s} (
    i_d: input  logic<8>,
    o_d: output logic<8>,
) {{
    assign o_d = ~i_d;
}}

/// generic module doc
pub module GenM{s}::<T: ProtoM{s}> (
    i_d: input  logic<8>,
    o_d: output logic<8>,
) {{
    inst u: T (
        i_d,
        o_d,
    );
}}
"#
        ),
        "genfn" => format!(
            r#"pub package GenF{s} {{
    function add::<W: u32> (
        a: input logic<W>,
        b: input logic<W>,
    ) -> logic<W> {{
        return a + b;
    }}
    struct GS::<W: u32> {{
        v: logic<W>,
    }}
}}
"#
        ),
        // one file that leaves pairwise different numbers of pending imports (1), binds (2),
        // msb entries (3+) and connect operations (5+): every later file then sees pairwise
        // different watermark values
        "mix" => {
            let extra = s.parse::<usize>().unwrap_or(0) % 3;
            let mut msbs = String::new();
            for i in 0..(1 + extra) {
                msbs.push_str(&format!("    let _m{i}: logic = a[msb - {i}][msb];\n"));
            }
            let mut conns = String::new();
            for i in 0..(5 + 2 * extra) {
                conns.push_str(&format!("    inst ip{i}: MixIf{s};\n    inst iq{i}: MixIf{s};\n    connect ip{i}.master <> iq{i}.slave;\n"));
            }
            format!(
                r#"package MixP{s} {{
    const A: u32 = 3;
}}

import MixP{s}::A;

interface MixIf{s} {{
    var a: logic;
    modport master {{
        a: output,
    }}
    modport slave {{
        a: input,
    }}
}}

module MixT{s} (
    i_clk: input clock,
    i_rst: input reset,
) {{
    var x: logic;
    assign x = 0;
}}

module MixC{s} (
    i_clk: input clock,
    i_rst: input reset,
    v    : input logic,
) {{}}

bind MixT{s} <- u_c0: MixC{s} (
    i_clk     ,
    i_rst     ,
    v    : x  ,
);

bind MixT{s} <- u_c1: MixC{s} (
    i_clk     ,
    i_rst     ,
    v    : x  ,
);

module Mix{s} {{
    let a: logic<A, 8> = 1;
    let _mm: logic<8> = a[msb];
{msbs}{conns}}}
"#
            )
        }
        // mixin source: modports with default member lists (`..input`)
        "mixsrc" => format!(
            r#"/// mixin source {s}
pub interface MixSrc{s} {{
    var a: logic<4>;
    var b: logic   ;

    modport mp_src {{
        ..input
    }}
    modport mp_part {{
        a: output,
        ..input
    }}
}}
"#
        ),
        "clk" => format!(
            r#"pub module Clk{s} (
    i_clk_a: input  'a clock,
    i_rst_a: input  'a reset,
    i_dat_a: input  'a logic,
    o_dat_a: output 'a logic,
    i_clk_b: input  'b clock,
    i_dat_b: input  'b logic,
    o_dat_b: output 'b logic,
) {{
    assign o_dat_a = i_dat_a;
    assign o_dat_b = i_dat_b;
}}
"#
        ),
        _ => unreachable!(),
    }
}

/// The provider kind a consumer kind needs (None = self-contained).
pub fn needs(kind: &str) -> &'static [&'static str] {
    match kind {
        "top" => &["pkg", "leaf"],
        "usebus" => &["bus"],
        "usegen" => &["genmod", "genpkg"],
        "usefn" => &["genfn"],
        "cdc" => &["clk"],
        "imp" => &["pkg"],
        "mixuse" => &["mixsrc"],
        _ => &[],
    }
}

pub fn consumer(kind: &str, s: &str, p: &BTreeMap<&str, String>) -> String {
    let g = |k: &str| p.get(k).cloned().unwrap_or_default();
    match kind {
        "top" => {
            let pk = g("pkg");
            let lf = g("leaf");
            format!(
                r#"import Pkg{pk}::*;

/// Top doc {s}
module Top{s} (
    i_clk: input  clock       ,
    i_rst: input  reset       ,
    i_d  : input  logic<WIDTH>,
    o_d  : output logic<WIDTH>,
) {{
    #[allow(unused_variable)]
    var unused: Pair;
    let k: Kind = Kind::Idle;
    var t: word;
    var u: Un  ;
    assign u.x = 0;
    inst u0: Leaf{lf} #(
        W: WIDTH,
    ) (
        i_clk     ,
        i_rst     ,
        i_d       ,
        o_d  : t  ,
    );
    always_comb {{
        o_d = inc(t);
        if k == Kind::Busy {{
            o_d = 0;
        }}
    }}
}}
"#
            )
        }
        "sv" => format!(
            r#"module Sv{s} (
    i_clk: input  clock,
    i_d  : input  logic,
    o_d  : output logic,
) {{
    const a: u32 = $sv::pkg::paramA;
    var x: $sv::StructA;
    assign x = 0;
    inst u0: $sv::delay (
        i_clk     ,
        i_d       ,
        o_d       ,
    );
    #[sv("keep=\"true\"")]
    let _b: logic<32> = a;
}}
"#
        ),
        "usebus" => {
            let b = g("bus");
            format!(
                r#"module UseBus{s} {{
    inst b: Bus{b} #( W: 4 );
    inst m: BusM{s} (
        p: b,
    );
    inst q: BusS{s} (
        p: b,
    );
}}

module BusM{s} (
    p: modport Bus{b}::master,
) {{
    assign p.valid = 1;
    assign p.data  = 0;
}}

module BusS{s} (
    p: modport Bus{b}::slave,
) {{
    assign p.ready = p.valid;
}}
"#
            )
        }
        "usegen" => {
            let gm = g("genmod");
            let gp = g("genpkg");
            format!(
                r#"module UseGen{s} (
    i_d: input  logic<8>,
    o_d: output logic<8>,
) {{
    alias package AP = GenP{gp}::<8>;
    var t: AP::data_t;
    inst g: GenM{gm}::<ImplM{gm}> (
        i_d     ,
        o_d: t  ,
    );
    assign o_d = t + AP::N;
}}
"#
            )
        }
        "usefn" => {
            let gf = g("genfn");
            format!(
                r#"module UseFn{s} (
    a: input  logic<8>,
    b: input  logic<8>,
    c: output logic<8>,
) {{
    var s: GenF{gf}::GS::<8>;
    assign s.v = GenF{gf}::add::<8>(a, b);
    assign c   = s.v;
}}
"#
            )
        }
        "cdc" => {
            let c = g("clk");
            format!(
                r#"module Cdc{s} (
    i_clk_a: input  'a clock,
    i_rst_a: input  'a reset,
    i_clk_b: input  'b clock,
    i_dat  : input  'a logic,
    o_dat  : output 'b logic,
) {{
    var w: 'a logic;
    var v: 'b logic;
    inst u: Clk{c} (
        i_clk_a         ,
        i_rst_a         ,
        i_dat_a: i_dat  ,
        o_dat_a: w      ,
        i_clk_b         ,
        i_dat_b: v      ,
        o_dat_b: o_dat  ,
    );
    unsafe (cdc) {{
        assign v = w;
    }}
}}
"#
            )
        }
        "misc" => format!(
            r#"/// misc doc {s}
module Misc{s} #(
    param N: u32 = 4,
) (
    i_clk: input  clock   ,
    i_rst: input  reset   ,
    i_a  : input  logic<N>,
    o_a  : output logic<N>,
    o_b  : output logic<N>,
) {{
    function twice (
        v: input logic<N>,
    ) -> logic<N> {{
        return v << 1;
    }}
    var r: logic<N> [2];
    for i in 0..2 :g_blk {{
        always_ff {{
            if_reset {{
                r[i] = 0;
            }} else {{
                r[i] = twice(i_a);
            }}
        }}
    }}
    if N >: 2 :g_if {{
        assign o_a = r[0];
    }} else {{
        assign o_a = r[1];
    }}
    always_comb {{
        case i_a {{
            0      : o_b = 1;
            1, 2   : o_b = 2;
            default: o_b = r[1];
        }}
    }}
}}

module Loop{s} (
    i_a: input  logic<4>,
    o_a: output logic<4>,
) {{
    always_comb {{
        o_a = 0;
        for i in 0..4 {{
            o_a[i] = i_a[3 - i];
        }}
    }}
}}

#[test(test_misc{s})]
embed (inline) sv{{{{{{
module test_misc{s};
endmodule
}}}}}}
"#
        ),
        // ---- msb_list: `x[msb]` / `x[lsb]` selects; check_msb fills msb_table --------------
        "msbok" | "msbbad" => {
            let rep = s.parse::<usize>().unwrap_or(0) % 3 + 1;
            let mut body = String::new();
            for i in 0..rep {
                body.push_str(&format!("    let _m{i}: logic = a[msb - {i}][msb:lsb + 1];\n"));
            }
            let bad = if kind == "msbbad" {
                // msb of an opaque SV type cannot be resolved: UnknownMsb from post_pass1
                "    var q: $sv::SvType;\n    let _bad: logic = q[msb];\n"
            } else {
                ""
            };
            format!(
                r#"module Msb{s} (
    c: input logic<30, 40>,
) {{
    const WIDTH0: u32 = 10;
    let a: logic<WIDTH0, 20> = 1;
{body}{bad}    let _z: logic = c[msb][lsb];
}}
"#
            )
        }
        // ---- connect_list: `<>` declarations and statements; check_connect ---------------------
        "connok" | "connbad" => {
            let rep = s.parse::<usize>().unwrap_or(0) % 2 + 1;
            let mut insts = String::new();
            let mut conns = String::new();
            for i in 0..rep {
                insts.push_str(&format!("    inst a{i}_if: ConnIf{s};\n    inst b{i}_if: ConnIf{s};\n"));
                conns.push_str(&format!("    connect a{i}_if.master <> b{i}_if.slave;\n"));
            }
            let bad = if kind == "connbad" {
                // an interface array is not a connect operand: InvalidConnectOperand from post_pass1
                format!("    inst x_if: ConnIf{s} [2];\n    inst y_if: ConnIf{s};\n    connect x_if.master <> y_if.slave;\n")
            } else {
                String::new()
            };
            format!(
                r#"interface ConnIf{s} {{
    var a: logic   ;
    var d: logic<4>;
    modport master {{
        a: output,
        d: output,
    }}
    modport slave {{
        ..converse(master)
    }}
}}

module Conn{s} {{
{insts}{conns}{bad}    inst z_if: ConnIf{s};
    always_comb {{
        z_if.master <> 0;
    }}
}}
"#
            )
        }
        // ---- bind_list: apply_bind adds the instance to the target module ----------------------
        "bindok" | "bindbad" => {
            let target = if kind == "bindbad" { format!("BindMissing{s}") } else { format!("BindTgt{s}") };
            format!(
                r#"module BindTgt{s} (
    i_clk: input clock,
    i_rst: input reset,
) {{
    var x: logic;
    assign x = 0;
}}

module BindChk{s} (
    i_clk: input clock,
    i_rst: input reset,
    v    : input logic,
) {{}}

/// bound checker
bind {target} <- u_chk: BindChk{s} (
    i_clk     ,
    i_rst     ,
    v    : x  ,
);
"#
            )
        }
        // ---- generic_inference pending: generic argument inferred from the argument width -------
        "infer" => format!(
            r#"module Infer{s} (
    value: input logic<8>,
) {{
    function FuncId::<T: u32> (
        x: input logic<T>,
    ) -> logic<T> {{
        return x;
    }}
    let _a : logic<16> = 0;
    let _r1: logic<8>  = FuncId(value);
    let _r2: logic<16> = FuncId(_a);
}}
"#
        ),
        // ---- references + attribute table: unused-variable check of post_pass2 -----------------
        "unused" => format!(
            r#"module Unused{s} (
    i_a: input  logic,
    o_a: output logic,
) {{
    var used  : logic;
    var unused: logic;
    #[allow(unused_variable)]
    var quiet : logic;
    assign used = i_a;
    assign o_a  = used;
    let _k: logic<8> = 8'hA5 + 8'd3 + 'x + 8'b1010_0101;
}}
"#
        ),
        // ---- import_list: three imports; the body resolves only through them -------------------
        "imp" => {
            let pk = g("pkg");
            format!(
                r#"import Pkg{pk}::WIDTH;
import Pkg{pk}::Kind;
import Pkg{pk}::inc;

module Imp{s} (
    i_d: input  logic<WIDTH>,
    o_d: output logic<WIDTH>,
) {{
    let k: Kind = Kind::Done;
    always_comb {{
        o_d = inc(i_d);
        if k == Kind::Idle {{
            o_d = 0;
        }}
    }}
}}
"#
            )
        }
        // ---- type_dag candidates: mutual instantiation = CyclicTypeDependency (post_pass1) -------
        "cyc" => format!(
            r#"module CycA{s} {{
    inst u: CycB{s};
}}

module CycB{s} {{
    inst u: CycA{s};
}}
"#
        ),
        // ---- reference candidates: an identifier that resolves nowhere ---------------------------
        "undef" => format!(
            r#"module Undef{s} (
    o_a: output logic,
) {{
    assign o_a = no_such_signal{s};
}}
"#
        ),
        // ---- resolve_interfaces: mixin + `..same` / `..converse` over default-member modports ----
        "mixuse" => {
            let m = g("mixsrc");
            format!(
                r#"interface MixDst{s} {{
    mixin MixSrc{m};

    var c: logic;

    modport mp_all {{
        c: input,
        ..same(mp_src)
    }}
    modport mp_rev {{
        c: output,
        ..converse(mp_src)
    }}
    modport mp_mix {{
        c: input,
        ..converse(mp_part)
    }}
}}

module MixUseM{s} (
    p: modport MixDst{s}::mp_rev,
) {{
    assign p.a = 0;
    assign p.b = 0;
    assign p.c = 1;
}}

module MixUseS{s} (
    p: modport MixDst{s}::mp_all,
    o: output  logic             ,
) {{
    assign o = p.a[0] & p.b & p.c;
}}

module MixUseP{s} (
    p: modport MixDst{s}::mp_mix,
    o: output  logic             ,
) {{
    assign o = p.a[1] & p.c;
}}

module MixUse{s} (
    o: output logic<2>,
) {{
    inst i : MixDst{s};
    inst m : MixUseM{s} (
        p: i,
    );
    inst sl: MixUseS{s} (
        p: i   ,
        o: o[0],
    );
    inst j : MixDst{s};
    assign j.a = 0;
    assign j.c = 0;
    inst pp: MixUseP{s} (
        p: j   ,
        o: o[1],
    );
}}
"#
            )
        }
        "ifdef" => format!(
            r#"module IfDef{s} (
    i_a: input  logic,
    o_a: output logic,
) {{
    #[ifdef(FEATURE_X)]
    var x: logic;
    #[ifndef(FEATURE_X)]
    var y: logic;
    #[ifdef(FEATURE_X)]
    assign x = i_a;
    #[ifndef(FEATURE_X)]
    assign y = i_a;
    #[ifdef(FEATURE_X)]
    assign o_a = x;
    #[ifndef(FEATURE_X)]
    assign o_a = y;
}}
"#
        ),
        _ => unreachable!(),
    }
}

/// A generated project: 1–3 providers of each needed kind, consumers referring to them, file
/// order shuffled. Deterministic in `seed`.
pub fn generated(seed: u64, nfiles: usize) -> FileSet {
    generated_ex(seed, nfiles, false)
}

/// `errs`: also draw from `CONSUMERS_ERR` (projects with post-pass diagnostics).
pub fn generated_ex(seed: u64, nfiles: usize, errs: bool) -> FileSet {
    let mut r = Rng::new(seed ^ 0x5EED_F11E);
    let mut kinds: Vec<&str> = CONSUMERS.to_vec();
    if errs {
        kinds.extend_from_slice(CONSUMERS_ERR);
        kinds.extend_from_slice(CONSUMERS_ERR);
    }
    let nfiles = nfiles.clamp(2, 12);
    let mut files: FileSet = vec![];
    let mut have: BTreeMap<&str, Vec<String>> = BTreeMap::new();
    let mut n = 0usize;
    let ncons = (nfiles * 2 / 3).max(1);
    let mut cons: Vec<&str> = vec![];
    for _ in 0..ncons {
        cons.push(*r.pick(&kinds));
    }
    // providers required by the chosen consumers, then filler providers
    for c in &cons {
        for k in needs(c) {
            if !have.contains_key(k) || r.chance(1, 4) {
                let s = format!("{n}");
                n += 1;
                files.push((format!("{k}_{s}.veryl"), provider(k, &s, &mut r)));
                have.entry(k).or_default().push(s);
            }
        }
    }
    if r.chance(1, 2) {
        let s = format!("{n}");
        n += 1;
        files.push((format!("mix_{s}.veryl"), provider("mix", &s, &mut r)));
        have.entry("mix").or_default().push(s);
    }
    while files.len() + cons.len() < nfiles {
        let k = *r.pick(PROVIDERS);
        let s = format!("{n}");
        n += 1;
        files.push((format!("{k}_{s}.veryl"), provider(k, &s, &mut r)));
        have.entry(k).or_default().push(s);
    }
    for c in cons {
        let s = format!("{n}");
        n += 1;
        let mut p = BTreeMap::new();
        for k in needs(c) {
            p.insert(*k, r.pick(&have[k]).clone());
        }
        files.push((format!("{c}_{s}.veryl"), consumer(c, &s, &p)));
    }
    // shuffle
    for i in (1..files.len()).rev() {
        let j = r.below(i as u64 + 1) as usize;
        files.swap(i, j);
    }
    files
}

// ---------------------------------------------------------------------------------------------
// Runner
// ---------------------------------------------------------------------------------------------

/// What to do with one file of the set during pass 1.
pub enum Step {
    Parse,
    Restore(Fragment),
}

#[derive(Default)]
pub struct RunOut {
    /// per file: pass-1 diagnostics (rendered)
    pub pass1: Vec<Vec<String>>,
    /// capture result per file (only when `capture` was requested): Ok(fragment bytes) / Err(msg)
    pub fragments: Vec<Option<Result<Vec<u8>, String>>>,
    pub restored: Vec<Option<Result<(), String>>>,
    /// table dumps after post_pass1
    pub dumps: BTreeMap<String, String>,
    /// diagnostics of post_pass1 / pass2 / post_pass2:
    /// (phase = post1 | pass2:<file> | post2, source file name or "-", rendered)
    pub later: Vec<(String, String, String)>,
    /// emitted SV and source map per file name (skipped files absent)
    pub sv: BTreeMap<String, String>,
    pub map: BTreeMap<String, Vec<u8>>,
    pub errors: usize,
    /// per file: real (ns-hash, name-hash) keys of the symbols whose token comes from it
    pub keys: BTreeMap<String, Vec<(String, String)>>,
    /// per file: `Debug` of the fragment watermark taken before it (generator quality: are the
    /// pending-list lengths pairwise different?)
    pub watermarks: Vec<String>,
}

pub struct RunCfg {
    pub capture: bool,
    /// ids reserved before file i is processed: (token, symbol, definition, text) – shifts offsets
    pub gaps: Vec<(usize, usize, usize, usize)>,
    /// files (indices) excluded from pass2 / emit (restored files have no AST)
    pub skip: Vec<usize>,
    pub want_dumps: bool,
    pub want_emit: bool,
}

fn render(e: &veryl_analyzer::AnalyzerError) -> (String, String) {
    let src = e
        .token_source()
        .get_path()
        .and_then(resource_table::get_path_value)
        .map(|p| p.to_string_lossy().to_string())
        .unwrap_or_else(|| "-".to_string());
    let sev = if e.is_error() { "E" } else { "W" };
    (src, format!("{sev}:{e}").replace('\n', "\\n"))
}

/// Dump of every symbol (all fields, `Debug`), sorted by symbol id.
fn symbols_debug() -> String {
    let mut all = symbol_table::get_all();
    all.sort_by_key(|s| s.id);
    let mut out = String::new();
    for mut s in all {
        // the two HashMap fields print in hash order: print them sorted by key token id instead
        let mut extra = String::new();
        if let veryl_analyzer::symbol::SymbolKind::Instance(x) = &mut s.kind {
            let mut a: Vec<_> = std::mem::take(&mut x.parameter_connects).into_iter().collect();
            let mut b: Vec<_> = std::mem::take(&mut x.port_connects).into_iter().collect();
            a.sort_by_key(|e| e.0.id);
            b.sort_by_key(|e| e.0.id);
            extra = format!(" parameter_connects={a:?} port_connects={b:?}");
        }
        out.push_str(&format!("{s:?}{extra}\n"));
    }
    out
}

/// Tables without a dump function, probed key by key over the whole id range: literals and
/// definitions (pass 1), msb / connect-operation / inferred-generic tables (post_pass1), doc comments.
fn probe_dumps(d: &mut BTreeMap<String, String>, suffix: &str, files: &[(String, String)]) {
    use veryl_analyzer::{connect_operation_table, definition_table, generic_inference_table, literal_table, msb_table};
    use veryl_parser::resource_table::{StrId, TokenId};
    use veryl_parser::veryl_token::{Token, TokenSource};
    let (mut lit, mut msb, mut conn, mut inf) = (String::new(), String::new(), String::new(), String::new());
    for id in 1..=resource_table::peek_token_id() {
        let t = TokenId(id);
        if let Some(x) = literal_table::get(&t) {
            lit.push_str(&format!("TokenId({id}) {x:?}\n"));
        }
        if let Some(x) = msb_table::get(t) {
            msb.push_str(&format!("TokenId({id}) dim={x}\n"));
        }
        let tok = Token { id: t, text: StrId(0), line: 0, column: 0, length: 0, pos: 0, source: TokenSource::External };
        if let Some(x) = connect_operation_table::get(&tok) {
            conn.push_str(&format!("TokenId({id}) {x:?}\n"));
        }
        if let Some(x) = generic_inference_table::get_inferred(t) {
            inf.push_str(&format!("TokenId({id}) {x:?}\n"));
        }
    }
    let small = files.iter().map(|f| f.1.len()).sum::<usize>() < 40_000;
    let mut defs = String::new();
    for id in 1..=definition_table::peek_definition_id() {
        if let Some(x) = definition_table::get(veryl_analyzer::definition_table::DefinitionId(id)) {
            let dbg = format!("{x:?}");
            if small {
                defs.push_str(&format!("DefinitionId({id}) {dbg}\n"));
            } else {
                // large projects: structure only (every digit run masked), one hash per definition
                let mut masked = String::with_capacity(dbg.len());
                for c in dbg.chars() {
                    if c.is_ascii_digit() {
                        if !masked.ends_with('0') {
                            masked.push('0');
                        }
                    } else {
                        masked.push(c);
                    }
                }
                defs.push_str(&format!("DefinitionId({id}) len={} h={:x}\n", masked.len(), fnv(masked.as_bytes())));
            }
        }
    }
    let mut doc = String::new();
    for (name, code) in files {
        let path = resource_table::insert_path(Path::new(name));
        for line in 0..=(code.lines().count() as u32 + 1) {
            if let Some(x) = veryl_parser::doc_comment_table::get(path, line) {
                doc.push_str(&format!("{name}:{line}: {:?}\n", format!("{x}")));
            }
        }
    }
    d.insert(format!("literals{suffix}"), lit);
    d.insert(format!("msbtab{suffix}"), msb);
    d.insert(format!("conntab{suffix}"), conn);
    d.insert(format!("inferred{suffix}"), inf);
    d.insert(format!("defs{suffix}"), defs);
    d.insert(format!("doc{suffix}"), doc);
}

fn take_dumps(d: &mut BTreeMap<String, String>, suffix: &str) {
    d.insert(format!("symtab{suffix}"), symbol_table::dump());
    d.insert(format!("symbols{suffix}"), symbols_debug());
    d.insert(format!("nstab{suffix}"), scope::dump_tokens());
    d.insert(format!("dag{suffix}"), type_dag::dump());
    d.insert(format!("dagfile{suffix}"), type_dag::dump_file());
    d.insert(format!("attr{suffix}"), attribute_table::dump());
    d.insert(format!("unsafe{suffix}"), unsafe_table::dump());
}

fn run_inner(files: &[(String, String)], steps: Vec<Step>, cfg: &RunCfg) -> RunOut {
    let mut out = RunOut::default();
    let metadata = Metadata::create_default("prj").unwrap();
    let analyzer = Analyzer::new(&metadata);
    let mut parsers: Vec<Option<Parser>> = vec![];
    for (i, ((name, code), step)) in files.iter().zip(steps).enumerate() {
        if let Some(g) = cfg.gaps.get(i) {
            resource_table::reserve_token_ids(g.0);
            veryl_analyzer::symbol::reserve_symbol_ids(g.1);
            veryl_analyzer::definition_table::reserve_definition_ids(g.2);
            veryl_parser::text_table::reserve_text_ids(g.3);
        }
        match step {
            Step::Restore(f) => {
                out.watermarks.push(format!("{:?}", fragment_cache::watermark()));
                scope::set_project("prj".into(), true);
                let r = fragment_cache::restore(&f, "prj".into()).map_err(|e| e.to_string());
                out.restored.push(Some(r));
                out.pass1.push(vec![]);
                out.fragments.push(None);
                parsers.push(None);
            }
            Step::Parse => {
                let wm = fragment_cache::watermark();
                out.watermarks.push(format!("{wm:?}"));
                let parser = match Parser::parse(code, &name.as_str()) {
                    Ok(p) => p,
                    Err(e) => {
                        out.pass1.push(vec![format!("E:parse:{e}").replace('\n', "\\n")]);
                        out.errors += 1;
                        out.fragments.push(None);
                        out.restored.push(None);
                        parsers.push(None);
                        continue;
                    }
                };
                let errs = analyzer.analyze_pass1("prj", &parser.veryl);
                out.errors += errs.iter().filter(|e| e.is_error()).count();
                out.pass1.push(errs.iter().map(|e| render(e).1).collect());
                if cfg.capture {
                    // a panic inside capture must not take the whole run down: it is reported as
                    // the capture result of this file
                    let f = panic::catch_unwind(panic::AssertUnwindSafe(|| {
                        fragment_cache::capture(Path::new(name), code, &wm)
                            .map_err(|e| e.to_string())
                            .and_then(|f| f.to_bytes().map_err(|e| e.to_string()))
                    }))
                    .unwrap_or_else(|_| {
                        veryl_parser::fragment_codec::end_encode();
                        veryl_analyzer::fragment_codec::end_encode();
                        Err("panic".to_string())
                    });
                    out.fragments.push(Some(f));
                } else {
                    out.fragments.push(None);
                }
                out.restored.push(None);
                parsers.push(Some(parser));
            }
        }
    }
    // the state restore must reproduce: right after pass 1 of every file
    if cfg.want_dumps {
        take_dumps(&mut out.dumps, "");
        probe_dumps(&mut out.dumps, "", files);
    }
    for e in Analyzer::analyze_post_pass1() {
        if e.is_error() {
            out.errors += 1;
        }
        let (src, t) = render(&e);
        out.later.push(("post1".into(), src, t));
    }
    // post_pass1 creates symbols (modport expansion, …) in hash-map order: these dumps are
    // compared with ids stripped and rows sorted
    if cfg.want_dumps {
        take_dumps(&mut out.dumps, "+post");
        probe_dumps(&mut out.dumps, "+post", files);
    }
    // real per-file symbol keys (for the M-Register correspondence)
    for s in symbol_table::get_all() {
        let file = s
            .token
            .source
            .get_path()
            .and_then(resource_table::get_path_value)
            .map(|p| p.to_string_lossy().to_string())
            .unwrap_or_else(|| "-".into());
        out.keys
            .entry(file)
            .or_default()
            .push((format!("{}", s.namespace), format!("{}", s.token.text)));
    }
    let mut context = Context::default();
    let mut ir = air::Ir::default();
    for (i, p) in parsers.iter().enumerate() {
        if cfg.skip.contains(&i) {
            continue;
        }
        if let Some(p) = p {
            for e in analyzer.analyze_pass2(&p.veryl, &mut context, Some(&mut ir)) {
                if e.is_error() {
                    out.errors += 1;
                }
                let (src, t) = render(&e);
                out.later.push((format!("pass2:{}", files[i].0), src, t));
            }
        }
    }
    for e in Analyzer::analyze_post_pass2(&ir) {
        if e.is_error() {
            out.errors += 1;
        }
        let (src, t) = render(&e);
        out.later.push(("post2".into(), src, t));
    }
    if cfg.want_emit {
        for (i, p) in parsers.iter().enumerate() {
            if cfg.skip.contains(&i) {
                continue;
            }
            let Some(p) = p else { continue };
            let (name, code) = &files[i];
            let pb = PathBuf::from(name);
            let r = panic::catch_unwind(panic::AssertUnwindSafe(|| {
                let mut emitter = Emitter::new(
                    &metadata,
                    "prj",
                    &pb,
                    &pb.with_extension("sv"),
                    &pb.with_extension("sv.map"),
                );
                emitter.emit(&p.veryl, code);
                let sv = emitter.as_str().to_string();
                let sm = emitter.source_map();
                sm.set_source_content(code);
                let map = sm.to_bytes().unwrap_or_else(|_| b"MAPERR".to_vec());
                (sv, map)
            }));
            match r {
                Ok((sv, map)) => {
                    out.sv.insert(name.clone(), sv);
                    out.map.insert(name.clone(), map);
                }
                Err(_) => {
                    out.sv.insert(name.clone(), "PANIC".into());
                }
            }
        }
    }
    out
}

/// Run in a fresh thread: fresh thread-local tables, fresh id counters, fresh interning tables.
/// `steps` carries fragments as bytes so that they can cross the thread boundary.
pub fn run(files: &FileSet, restore: Vec<Option<Vec<u8>>>, cfg: RunCfg) -> Result<RunOut, String> {
    let files = files.clone();
    let h = std::thread::Builder::new()
        .stack_size(256 << 20)
        .spawn(move || {
            let r = panic::catch_unwind(panic::AssertUnwindSafe(|| {
                let mut steps = vec![];
                for b in &restore {
                    match b {
                        None => steps.push(Step::Parse),
                        Some(bytes) => match Fragment::from_bytes(bytes) {
                            Ok(f) => steps.push(Step::Restore(f)),
                            Err(_) => steps.push(Step::Parse),
                        },
                    }
                }
                run_inner(&files, steps, &cfg)
            }));
            r.map_err(|_| "panic".to_string())
        })
        .map_err(|e| e.to_string())?;
    h.join().map_err(|_| "panic".to_string())?
}

pub fn fnv(s: &[u8]) -> u64 {
    let mut h: u64 = 0xcbf29ce484222325;
    for b in s {
        h ^= *b as u64;
        h = h.wrapping_mul(0x100000001b3);
    }
    h
}
