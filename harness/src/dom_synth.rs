//! Domain `synth` (C19, C20): small synthesizable designs -> analyzer -> `build_gate_ir_with_library`
//! for every cell library / RAM threshold -> the REAL `GateModule` is serialised into the request
//! line (Lean: `vmodel netlist`).  For the same request the harness prints
//!   impl.txt   : an independent Rust evaluation of the netlist on the stimulus, the real
//!                `compute_area` / `compute_timing` numbers (floats -> integers in units of 1e-9),
//!                and an independent well-formedness verdict (driver counts, ranges, arities, DFS);
//!   oracle.txt : the RTL reference = the 2-state INTERPRETER's outputs on the same stimulus, a port
//!                value replaced by `x` (not compared) where the 4-state interpreter shows X/Z, where
//!                the two interpreters disagree, or where a division guard `g<k> = (divisor == 0)`
//!                is not 0; independently recomputed area sums; the longest combinational path by
//!                memoised DFS over the producer relation.
//! Strata: S0 unsigned <= 64 bit without / %, S1 + signed ports, S2 + / %, S3 + 65..300 bit (all
//! warning-free); templates `seq` (no read after write, sized resets), `seqraw`, `seqones`,
//! `counter`, `case`, `mem`, `memraw`, `hier`, `iface`, `shift` (variable shifts of non-power-of-two
//! wide operands, amounts biased to the stage boundaries) and `memlane` (RAM-inferred array with two
//! overlapping conditional sub-word writes at one address).
//! A failing combinational design is shrunk in-process (sub-expression hoisting, widths to the
//! boundary set, signedness dropped, one stimulus vector; never leaving the warning-free strata)
//! and then classified by DEFECT CLASS: the smallest set of rewritings of the design (wide ternary
//! conditions reduced, output widened to the self-determined width, `>>>` written `>>`, ports made
//! unsigned, literals hidden from the constant folder) under which the twin agrees with the
//! reference; `<id>.shrunk` (must fail) and `<id>.shrunk.twin` (must agree) are emitted with
//! `sig=<class key>`. Template designs carry their own twin (`<id>.twin`).
use crate::rng::Rng;
use crate::util::{Log, Opts};
use std::collections::BTreeMap;
use std::panic::{self, AssertUnwindSafe};
use veryl_analyzer::ir as air;
use veryl_analyzer::value::Value;
use veryl_analyzer::{Analyzer, Context, symbol_table};
use veryl_metadata::Metadata;
use veryl_parser::Parser;
use veryl_simulator::{Config, Simulator};
use veryl_synthesizer::analysis::{compute_area, compute_timing};
use veryl_synthesizer::ir::NetDriver;
use veryl_synthesizer::{CellKind, ClockEdge, GateModule, Library, PortDir, RamConfig, ResetPolarity, library_for};

const SCALE: f64 = 1e9;
const KINDS: [CellKind; 22] = [
    CellKind::Buf, CellKind::Not, CellKind::And2, CellKind::Or2, CellKind::Nand2, CellKind::Nor2, CellKind::Xor2,
    CellKind::Xnor2, CellKind::And3, CellKind::Or3, CellKind::Nand3, CellKind::Nor3, CellKind::Ao21, CellKind::Aoi21,
    CellKind::Oa21, CellKind::Oai21, CellKind::Ao31, CellKind::Aoi31, CellKind::Ao22, CellKind::Aoi22, CellKind::Oai22,
    CellKind::Mux2,
];
const LIBS: [Library; 4] = [Library::Sky130, Library::Asap7, Library::Gf180mcu, Library::IhpSg13g2];

fn kind_code(k: CellKind) -> usize {
    KINDS.iter().position(|x| *x == k).unwrap()
}

fn ram_cfg(code: usize) -> RamConfig {
    let d = RamConfig::default();
    match code {
        0 => d,
        1 => RamConfig { min_bits: 0, ..d },
        _ => RamConfig { min_bits: usize::MAX / 4, ..d },
    }
}

// ---------------------------------------------------------------------------------------------
// bit vectors
// ---------------------------------------------------------------------------------------------
type Bits = Vec<bool>; // LSB first

fn bits_hex(b: &[bool]) -> String {
    if b.is_empty() {
        return "0".into();
    }
    let mut s = String::new();
    let nd = b.len().div_ceil(4);
    let mut lead = true;
    for d in (0..nd).rev() {
        let mut v = 0u32;
        for k in 0..4 {
            if b.get(d * 4 + k).copied().unwrap_or(false) {
                v |= 1 << k;
            }
        }
        if v == 0 && lead && d > 0 {
            continue;
        }
        lead = false;
        s.push(char::from_digit(v, 16).unwrap());
    }
    s
}

fn hex_bits(h: &str, w: usize) -> Option<Bits> {
    let mut out = vec![false; w];
    for (i, c) in h.chars().rev().enumerate() {
        let v = c.to_digit(16)?;
        for k in 0..4 {
            if v >> k & 1 == 1 {
                if i * 4 + k < w {
                    out[i * 4 + k] = true;
                }
            }
        }
    }
    Some(out)
}

fn bits_value(b: &[bool]) -> Value {
    let w = b.len().max(1);
    let nb = w.div_ceil(64) * 8;
    let mut bytes = vec![0u8; nb];
    for (i, x) in b.iter().enumerate() {
        if *x {
            bytes[i / 8] |= 1 << (i % 8);
        }
    }
    let mask = vec![0u8; nb];
    Value::from_le_bytes(&bytes, &mask, w, false)
}

/// hex of a simulator value, `x` if any bit is X/Z
fn value_hex(v: &Value, w: usize) -> String {
    let p = v.payload().to_bytes_le();
    let m = v.mask_xz().to_bytes_le();
    let bit = |x: &Vec<u8>, i: usize| x.get(i / 8).is_some_and(|y| y >> (i % 8) & 1 == 1);
    if (0..w).any(|i| bit(&m, i)) {
        return "x".into();
    }
    let b: Bits = (0..w).map(|i| bit(&p, i)).collect();
    bits_hex(&b)
}

fn rand_bits(r: &mut Rng, w: usize) -> Bits {
    let mode = r.below(8);
    let mut b: Bits = (0..w).map(|_| r.next() & 1 == 1).collect();
    match mode {
        0 => b.iter_mut().for_each(|x| *x = false),
        1 => b.iter_mut().for_each(|x| *x = true),
        2 => {
            b.iter_mut().for_each(|x| *x = false);
            b[0] = true;
        }
        3 => {
            b.iter_mut().for_each(|x| *x = false);
            b[w - 1] = true;
        }
        4 => {
            // small value
            for x in b.iter_mut().skip(3) {
                *x = false;
            }
        }
        5 => {
            // 2^k or 2^k - 1 (carry chains, shift amounts around a stage boundary)
            let k = r.below(w as u64) as usize;
            let minus_one = r.below(2) == 0;
            for (i, x) in b.iter_mut().enumerate() {
                *x = if minus_one { i < k } else { i == k };
            }
        }
        _ => {}
    }
    b
}

// ---------------------------------------------------------------------------------------------
// expressions
// ---------------------------------------------------------------------------------------------
#[derive(Clone, Debug, PartialEq)]
enum E {
    /// `(i0[0] ^ i0[0])`: a 1-bit zero the constant folder cannot see through
    Zero,
    Port(usize),
    Lit(usize, u64),
    Un(&'static str, Box<E>),
    Bin(&'static str, Box<E>, Box<E>),
    If(Box<E>, Box<E>, Box<E>),
    Cat(Box<E>, Box<E>),
}

const BIN_CORE: &[&str] = &["+", "-", "*", "&", "|", "^", "~^", "==", "!=", "<:", "<=", ">:", ">=", "<<", ">>", "<<<", ">>>", "&&", "||"];
const BIN_DIV: &[&str] = &["/", "%"];
const UN: &[&str] = &["~", "-", "!", "&", "|", "^", "~&", "~|"];

fn op_name(op: &str, unary: bool) -> &'static str {
    match (op, unary) {
        ("+", _) => "add",
        ("-", false) => "sub",
        ("-", true) => "neg",
        ("*", _) => "mul",
        ("/", _) => "div",
        ("%", _) => "rem",
        ("&", false) => "and",
        ("|", false) => "or",
        ("^", false) => "xor",
        ("~^", _) => "xnor",
        ("==", _) => "eq",
        ("!=", _) => "ne",
        ("<:", _) => "lt",
        ("<=", _) => "le",
        (">:", _) => "gt",
        (">=", _) => "ge",
        ("<<", _) => "shl",
        (">>", _) => "shr",
        ("<<<", _) => "ashl",
        (">>>", _) => "ashr",
        ("&&", _) => "land",
        ("||", _) => "lor",
        ("~", _) => "not",
        ("!", _) => "lnot",
        ("&", true) => "redand",
        ("|", true) => "redor",
        ("^", true) => "redxor",
        ("~&", _) => "rednand",
        ("~|", _) => "rednor",
        _ => "op",
    }
}

#[derive(Clone, Debug)]
struct PortSpec {
    name: String,
    width: usize,
    signed: bool,
}

impl E {
    fn show(&self, ports: &[PortSpec]) -> String {
        match self {
            E::Zero => format!("({0}[0] ^ {0}[0])", ports[0].name),
            E::Port(i) => ports[*i].name.clone(),
            E::Lit(w, v) => format!("{}'h{:x}", w, if *w >= 64 { *v } else { v & ((1u64 << w) - 1) }),
            E::Un(op, a) => format!("({}{})", op, a.show(ports)),
            E::Bin(op, a, b) => format!("({} {} {})", a.show(ports), op, b.show(ports)),
            E::If(c, a, b) => format!("(if {} ? {} : {})", c.show(ports), a.show(ports), b.show(ports)),
            E::Cat(a, b) => format!("{{{}, {}}}", a.show(ports), b.show(ports)),
        }
    }
    fn size(&self) -> usize {
        match self {
            E::Zero | E::Port(_) | E::Lit(..) => 1,
            E::Un(_, a) => 1 + a.size(),
            E::Bin(_, a, b) | E::Cat(a, b) => 1 + a.size() + b.size(),
            E::If(c, a, b) => 1 + c.size() + a.size() + b.size(),
        }
    }
    fn children(&self) -> Vec<&E> {
        match self {
            E::Zero | E::Port(_) | E::Lit(..) => vec![],
            E::Un(_, a) => vec![a],
            E::Bin(_, a, b) | E::Cat(a, b) => vec![a, b],
            E::If(c, a, b) => vec![c, a, b],
        }
    }
    /// self-determined (width, signed), IEEE 1800 §11.6/§11.8 shape (only used for signatures)
    fn shape(&self, ports: &[PortSpec]) -> (usize, bool) {
        match self {
            E::Zero => (1, false),
            E::Port(i) => (ports[*i].width, ports[*i].signed),
            E::Lit(w, _) => (*w, false),
            E::Un(op, a) => match *op {
                "~" | "-" => a.shape(ports),
                _ => (1, false),
            },
            E::Bin(op, a, b) => {
                let (wa, sa) = a.shape(ports);
                let (wb, sb) = b.shape(ports);
                match *op {
                    "==" | "!=" | "<:" | "<=" | ">:" | ">=" | "&&" | "||" => (1, false),
                    "<<" | ">>" | "<<<" | ">>>" => (wa, sa),
                    _ => (wa.max(wb), sa && sb),
                }
            }
            E::If(_, a, b) => {
                let (wa, sa) = a.shape(ports);
                let (wb, sb) = b.shape(ports);
                (wa.max(wb), sa && sb)
            }
            E::Cat(a, b) => (a.shape(ports).0 + b.shape(ports).0, false),
        }
    }
    fn root_name(&self) -> &'static str {
        match self {
            E::Zero => "zero",
            E::Port(_) => "port",
            E::Lit(..) => "lit",
            E::Un(op, _) => op_name(op, true),
            E::Bin(op, ..) => op_name(op, false),
            E::If(..) => "mux",
            E::Cat(..) => "concat",
        }
    }
    /// all expressions obtained by replacing one node with one of its children
    fn one_step_reductions(&self) -> Vec<E> {
        let mut out = vec![];
        for c in self.children() {
            out.push(c.clone());
        }
        match self {
            E::Un(op, a) => {
                for x in a.one_step_reductions() {
                    out.push(E::Un(op, Box::new(x)));
                }
            }
            E::Bin(op, a, b) => {
                for x in a.one_step_reductions() {
                    out.push(E::Bin(op, Box::new(x), b.clone()));
                }
                for x in b.one_step_reductions() {
                    out.push(E::Bin(op, a.clone(), Box::new(x)));
                }
            }
            E::Cat(a, b) => {
                for x in a.one_step_reductions() {
                    out.push(E::Cat(Box::new(x), b.clone()));
                }
                for x in b.one_step_reductions() {
                    out.push(E::Cat(a.clone(), Box::new(x)));
                }
            }
            E::If(c, a, b) => {
                for x in c.one_step_reductions() {
                    out.push(E::If(Box::new(x), a.clone(), b.clone()));
                }
                for x in a.one_step_reductions() {
                    out.push(E::If(c.clone(), Box::new(x), b.clone()));
                }
                for x in b.one_step_reductions() {
                    out.push(E::If(c.clone(), a.clone(), Box::new(x)));
                }
            }
            E::Lit(w, v) => {
                if *v != 0 {
                    out.push(E::Lit(*w, 0));
                }
                if *v != 1 && *v != 0 {
                    out.push(E::Lit(*w, 1));
                }
            }
            E::Zero | E::Port(_) => {}
        }
        out
    }
}

struct GenCfg {
    div: bool,
    /// `<<<` / `>>>` (they draw `unsigned_arith_shift` on unsigned operands, so only with signed ports)
    ashift: bool,
    /// `>>` (its left operand is context-determined: a target narrower than the operand exposes the
    /// converter's context narrowing, which only the combinational shrinker can attribute)
    shr: bool,
    lit_widths: &'static [usize],
}

/// 1-bit view of an operand (`&&`, `||`, `!` on wider operands draw `invalid_logical_operand`)
fn one_bit(e: E) -> E {
    E::Un("|", Box::new(e))
}

fn gen_expr(r: &mut Rng, depth: u32, allowed: &[usize], g: &GenCfg) -> E {
    if depth == 0 || r.below(4) == 0 {
        if r.below(5) == 0 || allowed.is_empty() {
            let w = *r.pick(g.lit_widths);
            let v = match r.below(4) {
                0 => 0,
                1 => 1,
                2 => u64::MAX,
                _ => r.next(),
            };
            return E::Lit(w, if w >= 64 { v } else { v & ((1u64 << w) - 1) });
        }
        return E::Port(*r.pick(allowed));
    }
    match r.below(10) {
        0 | 1 => {
            let op = *r.pick(UN);
            let a = gen_expr(r, depth - 1, allowed, g);
            E::Un(op, Box::new(if op == "!" { one_bit(a) } else { a }))
        }
        2 => E::If(
            Box::new(one_bit(gen_expr(r, depth - 1, allowed, g))),
            Box::new(gen_expr(r, depth - 1, allowed, g)),
            Box::new(gen_expr(r, depth - 1, allowed, g)),
        ),
        3 => E::Cat(Box::new(gen_expr(r, depth - 1, allowed, g)), Box::new(gen_expr(r, depth - 1, allowed, g))),
        _ => {
            let mut op = if g.div && r.below(5) == 0 { *r.pick(BIN_DIV) } else { *r.pick(BIN_CORE) };
            while (!g.ashift && (op == "<<<" || op == ">>>")) || (!g.shr && (op == ">>" || op == ">>>")) {
                op = *r.pick(BIN_CORE);
            }
            let (a, b) = (gen_expr(r, depth - 1, allowed, g), gen_expr(r, depth - 1, allowed, g));
            if op == "&&" || op == "||" {
                E::Bin(op, Box::new(one_bit(a)), Box::new(one_bit(b)))
            } else {
                E::Bin(op, Box::new(a), Box::new(b))
            }
        }
    }
}

// ---------------------------------------------------------------------------------------------
// designs
// ---------------------------------------------------------------------------------------------
#[derive(Clone, Debug)]
struct Design {
    kind: String,    // comb | seq | counter | case | mem | hier | iface
    stratum: String, // S0..S3
    src: String,
    ins: Vec<PortSpec>,  // data inputs (not clk/rst), in port order
    outs: Vec<PortSpec>, // outputs, in port order
    clk: Option<String>,
    rst: Option<(String, bool)>, // (name, active high)
    /// for comb designs: the expression (shrinkable)
    expr: Option<E>,
    /// the same design with every register/array read made through a path that cannot see an
    /// assignment of the same always_ff block (establishes the read-after-write signature)
    twin: Option<(String, String)>,
}

const W_S0: &[usize] = &[1, 2, 3, 7, 8, 16, 31, 32, 33, 63, 64];
const W_S3: &[usize] = &[1, 2, 8, 32, 63, 64, 65, 100, 127, 128, 129, 200, 256, 257, 300];

/// every divisor of the expression (`/`, `%`), outermost first
fn divisors<'a>(e: &'a E, out: &mut Vec<&'a E>) {
    if let E::Bin(op, _, b) = e {
        if *op == "/" || *op == "%" {
            out.push(b);
        }
    }
    for c in e.children() {
        divisors(c, out);
    }
}

/// Division by zero is a don't-care of the property: every divisor gets a guard output
/// `g<k> = (divisor == 0)`; a cycle in which the reference shows a guard at 1 (or X) is not compared.
fn comb_source(ports: &[PortSpec], ow: usize, e: &E) -> String {
    let mut s = String::from("module Top (\n");
    for p in ports {
        s.push_str(&format!("    {}: input {}logic<{}>,\n", p.name, if p.signed { "signed " } else { "" }, p.width));
    }
    let mut ds = vec![];
    divisors(e, &mut ds);
    s.push_str(&format!("    o: output logic<{}>,\n", ow));
    for k in 0..ds.len() {
        s.push_str(&format!("    g{k}: output logic,\n"));
    }
    s.push_str(&format!(") {{\n    assign o = {};\n", e.show(ports)));
    for (k, d) in ds.iter().enumerate() {
        s.push_str(&format!("    assign g{k} = ({} == 0);\n", d.show(ports)));
    }
    s.push_str("}\n");
    s
}

fn is_guard(name: &str) -> bool {
    name.len() > 1 && name.starts_with('g') && name[1..].chars().all(|c| c.is_ascii_digit())
}

/// Reference outputs with the division-by-zero don't-cares masked: guard ports always `x`, the
/// whole cycle `x` when a guard is not 0.
fn mask_guards(outs: &[(String, usize)], sim: Vec<String>) -> Vec<String> {
    if !outs.iter().any(|(n, _)| is_guard(n)) {
        return sim;
    }
    sim.into_iter()
        .map(|cyc| {
            let parts: Vec<&str> = cyc.split(':').collect();
            let zero_div = parts.iter().zip(outs).any(|(v, (n, _))| is_guard(n) && *v != "0");
            parts.iter().zip(outs).map(|(v, (n, _))| if zero_div || is_guard(n) { "x" } else { *v }).collect::<Vec<_>>().join(":")
        })
        .collect()
}

fn comb_design(ports: Vec<PortSpec>, ow: usize, e: E, stratum: &str) -> Design {
    Design {
        kind: "comb".into(),
        stratum: stratum.into(),
        src: comb_source(&ports, ow, &e),
        ins: ports,
        outs: vec![PortSpec { name: "o".into(), width: ow, signed: false }],
        clk: None,
        rst: None,
        expr: Some(e),
        twin: None,
    }
}

fn has_muldiv(e: &E) -> bool {
    matches!(e, E::Bin(op, ..) if ["*", "/", "%"].contains(op)) || e.children().iter().any(|c| has_muldiv(c))
}

fn clamp_lits(e: &mut E, maxw: usize) {
    match e {
        E::Lit(w, v) => {
            if *w > maxw {
                *w = maxw;
                *v &= (1u64 << maxw) - 1;
            }
        }
        E::Zero | E::Port(_) => {}
        E::Un(_, a) => clamp_lits(a, maxw),
        E::Bin(_, a, b) | E::Cat(a, b) => {
            clamp_lits(a, maxw);
            clamp_lits(b, maxw);
        }
        E::If(c, a, b) => {
            clamp_lits(c, maxw);
            clamp_lits(a, maxw);
            clamp_lits(b, maxw);
        }
    }
}

fn gen_comb(r: &mut Rng, stratum: usize) -> Design {
    let ws = if stratum >= 3 { W_S3 } else { W_S0 };
    let mut ports: Vec<PortSpec> = (0..3)
        .map(|i| PortSpec { name: format!("i{i}"), width: *r.pick(ws), signed: stratum >= 1 && r.below(3) == 0 })
        .collect();
    let mut ow = *r.pick(ws);
    let g = GenCfg { ashift: stratum >= 1, shr: true, div: stratum >= 2, lit_widths: &[1, 4, 8, 32, 64] };
    let mut e = gen_expr(r, 3, &[0, 1, 2], &g);
    if has_muldiv(&e) {
        // array multipliers / restoring dividers grow quadratically: keep them at <= 16 bits
        const SMALL: &[usize] = &[1, 2, 3, 7, 8, 16];
        for p in ports.iter_mut() {
            if p.width > 16 {
                p.width = *r.pick(SMALL);
            }
        }
        if ow > 16 {
            ow = *r.pick(SMALL);
        }
        clamp_lits(&mut e, 16);
    }
    comb_design(ports, ow, e, &format!("S{stratum}"))
}

const RESET_TYPES: &[(&str, bool)] = &[
    ("reset", false),
    ("reset_async_low", false),
    ("reset_async_high", true),
    ("reset_sync_low", false),
    ("reset_sync_high", true),
];

/// Statements of an always_ff body, rendered twice: `out` reads registers by name, `twin` reads them
/// through combinational aliases (`<reg>_r`). With `raw_free` no register is read after an
/// assignment to it appears earlier in the block (on any path).
#[allow(clippy::too_many_arguments)]
fn gen_stmts(
    r: &mut Rng, depth: u32, nins: usize, regs: &[PortSpec], names: &[PortSpec], tnames: &[PortSpec], out: &mut String,
    twin: &mut String, ind: usize, g: &GenCfg, raw_free: bool, assigned: &mut Vec<bool>,
) {
    let n = 1 + r.below(3);
    for _ in 0..n {
        let pad = " ".repeat(ind);
        let allowed: Vec<usize> = (0..names.len()).filter(|i| *i < nins || !raw_free || !assigned[*i - nins]).collect();
        match if depth == 0 { 0 } else { r.below(4) } {
            0 | 1 => {
                let qi = r.below(regs.len() as u64) as usize;
                let e = gen_expr(r, 2, &allowed, g);
                out.push_str(&format!("{}{} = {};\n", pad, regs[qi].name, e.show(names)));
                twin.push_str(&format!("{}{} = {};\n", pad, regs[qi].name, e.show(tnames)));
                assigned[qi] = true;
            }
            2 => {
                let c = E::Bin(
                    *r.pick(&["==", "!=", "<:", ">="]),
                    Box::new(gen_expr(r, 1, &allowed, g)),
                    Box::new(gen_expr(r, 1, &allowed, g)),
                );
                out.push_str(&format!("{}if {} {{\n", pad, c.show(names)));
                twin.push_str(&format!("{}if {} {{\n", pad, c.show(tnames)));
                let mut a1 = assigned.clone();
                gen_stmts(r, depth - 1, nins, regs, names, tnames, out, twin, ind + 4, g, raw_free, &mut a1);
                let mut a2 = assigned.clone();
                if r.below(2) == 0 {
                    out.push_str(&format!("{}}} else {{\n", pad));
                    twin.push_str(&format!("{}}} else {{\n", pad));
                    gen_stmts(r, depth - 1, nins, regs, names, tnames, out, twin, ind + 4, g, raw_free, &mut a2);
                }
                out.push_str(&format!("{}}}\n", pad));
                twin.push_str(&format!("{}}}\n", pad));
                for k in 0..assigned.len() {
                    assigned[k] = assigned[k] || a1[k] || a2[k];
                }
            }
            _ => {
                let sel = if allowed.is_empty() { 0 } else { *r.pick(&allowed) };
                out.push_str(&format!("{}case {} {{\n", pad, names[sel].name));
                twin.push_str(&format!("{}case {} {{\n", pad, tnames[sel].name));
                let mut acc = assigned.clone();
                for k in 0..3 {
                    let label = if k < 2 { format!("{k}") } else { "default".to_string() };
                    out.push_str(&format!("{}    {}: {{\n", pad, label));
                    twin.push_str(&format!("{}    {}: {{\n", pad, label));
                    let mut a = assigned.clone();
                    gen_stmts(r, depth - 1, nins, regs, names, tnames, out, twin, ind + 8, g, raw_free, &mut a);
                    out.push_str(&format!("{}    }}\n", pad));
                    twin.push_str(&format!("{}    }}\n", pad));
                    for i in 0..acc.len() {
                        acc[i] = acc[i] || a[i];
                    }
                }
                out.push_str(&format!("{}}}\n", pad));
                twin.push_str(&format!("{}}}\n", pad));
                *assigned = acc;
            }
        }
    }
}

/// two registers, one always_ff with if_reset, nested if/case (the generator of probes/seq.rs).
/// `raw_free = false` (kind `seqraw`) also reads registers assigned earlier in the block.
/// `mode`: 0 = `seq` (no read after write, resets 0 / sized literal), 1 = `seqraw` (reads registers
/// assigned earlier in the block), 2 = `seqones` (like 0 with the unsized all-ones literal `'1` as a reset value)
fn gen_seq(r: &mut Rng, mode: u32) -> Design {
    let raw_free = mode != 1;
    let ws: &[usize] = &[1, 2, 7, 8, 16, 31, 32, 33, 63, 64];
    let (rt, high) = *r.pick(RESET_TYPES);
    let ct = *r.pick(&["clock", "clock_posedge", "clock_negedge"]);
    let mut ports = format!("    clk: input {ct},\n    rst: input {rt},\n");
    let ins: Vec<PortSpec> = (0..2).map(|i| PortSpec { name: format!("i{i}"), width: *r.pick(ws), signed: false }).collect();
    for p in &ins {
        ports.push_str(&format!("    {}: input logic<{}>,\n", p.name, p.width));
    }
    let regs: Vec<PortSpec> = (0..2).map(|i| PortSpec { name: format!("q{i}"), width: *r.pick(ws), signed: false }).collect();
    let mut decl = String::new();
    let mut alias = String::new();
    let mut outs = vec![];
    for (i, q) in regs.iter().enumerate() {
        ports.push_str(&format!("    o{}: output logic<{}>,\n", i, q.width));
        decl.push_str(&format!("    var {}: logic<{}>;\n    assign o{} = {};\n", q.name, q.width, i, q.name));
        alias.push_str(&format!("    var {}_r: logic<{}>;\n    assign {}_r = {};\n", q.name, q.width, q.name, q.name));
        outs.push(PortSpec { name: format!("o{i}"), width: q.width, signed: false });
    }
    let mut names = ins.clone();
    names.extend(regs.iter().cloned());
    let mut tnames = ins.clone();
    tnames.extend(regs.iter().map(|q| PortSpec { name: format!("{}_r", q.name), width: q.width, signed: false }));
    let g = GenCfg { ashift: false, shr: false, div: false, lit_widths: &[1, 4, 8, 16] };
    let (mut body, mut tbody) = (String::new(), String::new());
    let mut assigned = vec![false; regs.len()];
    gen_stmts(r, 2, ins.len(), &regs, &names, &tnames, &mut body, &mut tbody, 12, &g, raw_free, &mut assigned);
    let ones_at = r.below(regs.len() as u64) as usize;
    let rvals: Vec<(String, String)> = regs
        .iter()
        .enumerate()
        .map(|(i, q)| {
            let sized = format!("{}'h{:x}", q.width.min(16), r.next() & ((1u64 << q.width.min(16)) - 1));
            let all = format!("{}'h{:x}", q.width, if q.width >= 64 { u64::MAX } else { (1u64 << q.width) - 1 });
            if mode == 2 && (i == ones_at || r.below(2) == 0) {
                ("'1".to_string(), all)
            } else if r.below(2) == 0 {
                ("0".to_string(), "0".to_string())
            } else {
                (sized.clone(), sized)
            }
        })
        .collect();
    let resets: String = regs.iter().zip(&rvals).map(|(q, v)| format!("            {} = {};\n", q.name, v.0)).collect();
    let resets_sized: String = regs.iter().zip(&rvals).map(|(q, v)| format!("            {} = {};\n", q.name, v.1)).collect();
    let mk = |decl: &str, resets: &str, body: &str| {
        format!("module Top (\n{ports}) {{\n{decl}    always_ff {{\n        if_reset {{\n{resets}        }} else {{\n{body}        }}\n    }}\n}}\n")
    };
    let twin = match mode {
        // reads routed through combinational aliases: no read can see an assignment of the block
        1 => Some((mk(&format!("{decl}{alias}"), &resets, &tbody), "synth:always_ff:read-after-write:reg:value".to_string())),
        // `'1` written out as a sized all-ones literal
        2 => Some((mk(&decl, &resets_sized, &body), "synth:if_reset:unsized-all-ones-literal:value".to_string())),
        _ => None,
    };
    Design {
        kind: ["seq", "seqraw", "seqones"][mode as usize].into(),
        stratum: "S0".into(),
        src: mk(&decl, &resets, &body),
        twin,
        ins,
        outs,
        clk: Some("clk".into()),
        rst: Some(("rst".into(), high)),
        expr: None,
    }
}

fn gen_counter(r: &mut Rng) -> Design {
    let w = *r.pick(&[1usize, 2, 3, 4, 5, 8, 13, 16, 32, 64]);
    let (rt, high) = *r.pick(RESET_TYPES);
    let step = *r.pick(&["1", "1", "2", "3"]);
    let style = r.below(4);
    let body = match style {
        0 => format!("if en {{ cnt = cnt + {step}; }}"),
        1 => format!("if clr {{ cnt = 0; }} else if en {{ cnt = cnt + {step}; }}"),
        2 => format!("if en {{ if up {{ cnt = cnt + {step}; }} else {{ cnt = cnt - {step}; }} }}"),
        _ => format!("if en {{ if cnt == lim {{ cnt = 0; }} else {{ cnt = cnt + 1; }} }}"),
    };
    let mut ins = vec![PortSpec { name: "en".into(), width: 1, signed: false }];
    let mut extra = String::new();
    match style {
        1 => {
            ins.push(PortSpec { name: "clr".into(), width: 1, signed: false });
            extra.push_str("    clr: input logic,\n");
        }
        2 => {
            ins.push(PortSpec { name: "up".into(), width: 1, signed: false });
            extra.push_str("    up: input logic,\n");
        }
        3 => {
            ins.push(PortSpec { name: "lim".into(), width: w, signed: false });
            extra.push_str(&format!("    lim: input logic<{w}>,\n"));
        }
        _ => {}
    }
    let src = format!(
        "module Top (\n    clk: input clock,\n    rst: input {rt},\n    en: input logic,\n{extra}    o: output logic<{w}>,\n    z: output logic,\n) {{\n    var cnt: logic<{w}>;\n    assign o = cnt;\n    assign z = cnt == 0;\n    always_ff {{\n        if_reset {{\n            cnt = 0;\n        }} else {{\n            {body}\n        }}\n    }}\n}}\n"
    );
    Design {
        kind: "counter".into(),
        stratum: "S0".into(),
        src,
        ins,
        outs: vec![PortSpec { name: "o".into(), width: w, signed: false }, PortSpec { name: "z".into(), width: 1, signed: false }],
        clk: Some("clk".into()),
        rst: Some(("rst".into(), high)),
        expr: None,
        twin: None,
    }
}

/// always_comb case decode over a selector
fn gen_case(r: &mut Rng) -> Design {
    let sw = *r.pick(&[1usize, 2, 3, 4]);
    let w = *r.pick(&[1usize, 4, 8, 16, 33, 64]);
    let ins = vec![
        PortSpec { name: "sel".into(), width: sw, signed: false },
        PortSpec { name: "a".into(), width: w, signed: false },
        PortSpec { name: "b".into(), width: w, signed: false },
    ];
    let g = GenCfg { ashift: false, shr: false, div: false, lit_widths: &[1, 4, 8] };
    let names = &ins[1..];
    let arms = 1 + r.below((1u64 << sw).min(6));
    let mut body = String::new();
    let mut used = vec![];
    for _ in 0..arms {
        let k = r.below(1u64 << sw);
        if used.contains(&k) {
            continue;
        }
        used.push(k);
        body.push_str(&format!("            {}'d{}: o = {};\n", sw, k, gen_expr(r, 2, &[0, 1], &g).show(names)));
    }
    body.push_str(&format!("            default: o = {};\n", gen_expr(r, 1, &[0, 1], &g).show(names)));
    let src = format!(
        "module Top (\n    sel: input logic<{sw}>,\n    a: input logic<{w}>,\n    b: input logic<{w}>,\n    o: output logic<{w}>,\n) {{\n    always_comb {{\n        case sel {{\n{body}        }}\n    }}\n}}\n"
    );
    Design { kind: "case".into(), stratum: "S0".into(), src, ins, outs: vec![PortSpec { name: "o".into(), width: w, signed: false }], clk: None, rst: None, expr: None, twin: None }
}

/// small array: clocked write port(s), asynchronous or registered read
fn gen_mem(r: &mut Rng) -> Design {
    let aw = *r.pick(&[1usize, 2, 3]);
    // power-of-two depth: an out-of-range index is a don't-care of the reference (the 2-/4-state
    // simulators return neighbouring storage), not a property of the netlist
    let depth = 1usize << aw;
    let w = *r.pick(&[1usize, 4, 8, 16]);
    let style = r.below(4);
    let mut ins = vec![
        PortSpec { name: "we".into(), width: 1, signed: false },
        PortSpec { name: "waddr".into(), width: aw, signed: false },
        PortSpec { name: "wdata".into(), width: w, signed: false },
        PortSpec { name: "raddr".into(), width: aw, signed: false },
    ];
    let mut extra_ports = String::new();
    let write = match style {
        2 if w >= 8 => {
            ins.push(PortSpec { name: "be".into(), width: 2, signed: false });
            extra_ports.push_str("    be: input logic<2>,\n");
            let h = w / 2;
            format!(
                "if we {{\n            if be[0] {{ mem[waddr][{}:0] = wdata[{}:0]; }}\n            if be[1] {{ mem[waddr][{}:{}] = wdata[{}:{}]; }}\n        }}",
                h - 1, h - 1, w - 1, h, w - 1, h
            )
        }
        _ => "if we {\n            mem[waddr] = wdata;\n        }".to_string(),
    };
    let (read_decl, read_ff) = if style == 3 {
        ("    var rq: logic<W>;\n    assign rdata = rq;\n".replace('W', &w.to_string()), "        rq = mem[raddr];\n".to_string())
    } else {
        ("    assign rdata = mem[raddr];\n".to_string(), String::new())
    };
    let head = format!(
        "module Top (\n    clk: input clock,\n    we: input logic,\n    waddr: input logic<{aw}>,\n    wdata: input logic<{w}>,\n    raddr: input logic<{aw}>,\n{extra_ports}    rdata: output logic<{w}>,\n) {{\n    var mem: logic<{w}> [{depth}];\n{read_decl}"
    );
    let src = format!("{head}    always_ff (clk) {{\n        {write}\n{read_ff}    }}\n}}\n");
    // twin: the registered read in its own always_ff (no assignment to `mem` precedes it in its block)
    let twin = if style == 3 {
        Some((
            format!("{head}    always_ff (clk) {{\n        {write}\n    }}\n    always_ff (clk) {{\n{read_ff}    }}\n}}\n"),
            "synth:always_ff:read-after-write:array:value".to_string(),
        ))
    } else {
        None
    };
    Design {
        kind: if style == 3 { "memraw" } else { "mem" }.into(),
        stratum: "S0".into(),
        src,
        ins,
        outs: vec![PortSpec { name: "rdata".into(), width: w, signed: false }],
        clk: Some("clk".into()),
        rst: None,
        expr: None,
        twin,
    }
}

/// hierarchy: two instances of a generated child (comb + register) under Top
fn gen_hier(r: &mut Rng) -> Design {
    let w = *r.pick(&[1usize, 4, 8, 16, 32]);
    let g = GenCfg { ashift: false, shr: false, div: false, lit_widths: &[1, 4, 8] };
    let cports = vec![PortSpec { name: "a".into(), width: w, signed: false }, PortSpec { name: "b".into(), width: w, signed: false }];
    let e1 = gen_expr(r, 2, &[0, 1], &g).show(&cports);
    let e2 = gen_expr(r, 2, &[0, 1], &g).show(&cports);
    let (rt, high) = *r.pick(RESET_TYPES);
    let src = format!(
        "module Sub (\n    a: input logic<{w}>,\n    b: input logic<{w}>,\n    y: output logic<{w}>,\n) {{\n    assign y = {e1};\n}}\nmodule Reg (\n    clk: input clock,\n    rst: input {rt},\n    a: input logic<{w}>,\n    b: input logic<{w}>,\n    q: output logic<{w}>,\n) {{\n    always_ff {{\n        if_reset {{\n            q = 0;\n        }} else {{\n            q = {e2};\n        }}\n    }}\n}}\nmodule Top (\n    clk: input clock,\n    rst: input {rt},\n    i0: input logic<{w}>,\n    i1: input logic<{w}>,\n    o0: output logic<{w}>,\n    o1: output logic<{w}>,\n) {{\n    var t: logic<{w}>;\n    inst u0: Sub ( a: i0, b: i1, y: t );\n    inst u1: Sub ( a: t, b: i0, y: o0 );\n    inst u2: Reg ( clk: clk, rst: rst, a: t, b: i1, q: o1 );\n}}\n"
    );
    Design {
        kind: "hier".into(),
        stratum: "S0".into(),
        src,
        ins: vec![PortSpec { name: "i0".into(), width: w, signed: false }, PortSpec { name: "i1".into(), width: w, signed: false }],
        outs: vec![PortSpec { name: "o0".into(), width: w, signed: false }, PortSpec { name: "o1".into(), width: w, signed: false }],
        clk: Some("clk".into()),
        rst: Some(("rst".into(), high)),
        expr: None,
        twin: None,
    }
}

/// interface instance inside Top (flattened by the analyzer)
fn gen_iface(r: &mut Rng) -> Design {
    let w = *r.pick(&[1usize, 4, 8, 16, 32]);
    let g = GenCfg { ashift: false, shr: false, div: false, lit_widths: &[1, 4, 8] };
    let ports = vec![PortSpec { name: "d".into(), width: w, signed: false }, PortSpec { name: "e".into(), width: w, signed: false }];
    let e1 = gen_expr(r, 2, &[0, 1], &g).show(&ports);
    let e2 = gen_expr(r, 1, &[0, 1], &g).show(&ports);
    let src = format!(
        "interface Bus {{\n    var valid: logic;\n    var data: logic<{w}>;\n    modport master {{\n        valid: output,\n        data: output,\n    }}\n    modport slave {{\n        valid: input,\n        data: input,\n    }}\n}}\nmodule Top (\n    d: input logic<{w}>,\n    e: input logic<{w}>,\n    v: output logic,\n    q: output logic<{w}>,\n) {{\n    inst b: Bus;\n    always_comb {{\n        b.valid = |({e2});\n        b.data = {e1};\n        v = b.valid;\n        q = if b.valid ? b.data : ~b.data;\n    }}\n}}\n"
    );
    Design {
        kind: "iface".into(),
        stratum: "S0".into(),
        src,
        ins: ports,
        outs: vec![PortSpec { name: "v".into(), width: 1, signed: false }, PortSpec { name: "q".into(), width: w, signed: false }],
        clk: None,
        rst: None,
        expr: None,
        twin: None,
    }
}

/// Variable shifts of operands whose width is not a power of two (the barrel shifter's stage count and
/// its "amount too large" flush), amount port 0..2 bits wider than needed; outputs as wide as the
/// operand, so no context is narrowed. `b` is signed for a warning-free `>>>`.
fn gen_shift(r: &mut Rng) -> Design {
    let w = *r.pick(&[3usize, 5, 6, 7, 9, 10, 12, 13, 17, 24, 31, 33, 48, 63, 65, 100]);
    let need = (usize::BITS - (w - 1).leading_zeros()) as usize;
    let sw = need + r.below(3) as usize;
    let src = format!(
        "module Top (\n    a: input logic<{w}>,\n    b: input signed logic<{w}>,\n    s: input logic<{sw}>,\n    o0: output logic<{w}>,\n    o1: output logic<{w}>,\n    o2: output signed logic<{w}>,\n    o3: output signed logic<{w}>,\n) {{\n    assign o0 = a << s;\n    assign o1 = a >> s;\n    assign o2 = b >>> s;\n    assign o3 = b <<< s;\n}}\n"
    );
    Design {
        kind: "shift".into(),
        stratum: if w > 64 { "S3" } else { "S0" }.into(),
        src,
        ins: vec![
            PortSpec { name: "a".into(), width: w, signed: false },
            PortSpec { name: "b".into(), width: w, signed: true },
            PortSpec { name: "s".into(), width: sw, signed: false },
        ],
        outs: vec![],
        clk: None,
        rst: None,
        expr: None,
        twin: None,
    }
}

/// An array large enough for RAM inference at the default threshold (1024 bits) with two conditional
/// sub-word writes to OVERLAPPING lanes of the same address (together they cover the word) and an
/// asynchronous read: when both conditions hold the later statement wins on the common bits.
fn gen_memlane(r: &mut Rng) -> Design {
    let (w, depth, aw) = *r.pick(&[(32usize, 32usize, 5usize), (16, 64, 6), (8, 128, 7), (16, 128, 7)]);
    let h0 = w / 2 + r.below((w / 2 - 1) as u64) as usize; // lane 0 = [h0:0]
    let l1 = 1 + r.below(h0 as u64) as usize; // lane 1 = [w-1:l1], l1 <= h0: overlap [h0:l1]
    let src = format!(
        "module Top (\n    clk: input clock,\n    c0: input logic,\n    c1: input logic,\n    waddr: input logic<{aw}>,\n    d0: input logic<{w}>,\n    d1: input logic<{w}>,\n    raddr: input logic<{aw}>,\n    rdata: output logic<{w}>,\n) {{\n    var mem: logic<{w}> [{depth}];\n    assign rdata = mem[raddr];\n    always_ff (clk) {{\n        if c0 {{\n            mem[waddr][{h0}:0] = d0[{h0}:0];\n        }}\n        if c1 {{\n            mem[waddr][{top}:{l1}] = d1[{top}:{l1}];\n        }}\n    }}\n}}\n",
        top = w - 1
    );
    Design {
        kind: "memlane".into(),
        stratum: "S0".into(),
        src,
        ins: vec![
            PortSpec { name: "c0".into(), width: 1, signed: false },
            PortSpec { name: "c1".into(), width: 1, signed: false },
            PortSpec { name: "waddr".into(), width: aw, signed: false },
            PortSpec { name: "d0".into(), width: w, signed: false },
            PortSpec { name: "d1".into(), width: w, signed: false },
            PortSpec { name: "raddr".into(), width: aw, signed: false },
        ],
        outs: vec![],
        clk: Some("clk".into()),
        rst: None,
        expr: None,
        twin: None,
    }
}

// ---------------------------------------------------------------------------------------------
// analysis + synthesis
// ---------------------------------------------------------------------------------------------
struct Built {
    ir: air::Ir,
    warnings: usize,
}

fn analyze(code: &str) -> Result<Built, String> {
    symbol_table::clear();
    let metadata = Metadata::create_default("prj").map_err(|e| format!("{e:?}"))?;
    let parser = Parser::parse(code, &"").map_err(|_| "parse".to_string())?;
    let analyzer = Analyzer::new(&metadata);
    let mut context = Context::default();
    let mut ir = air::Ir::default();
    let mut errors = vec![];
    errors.append(&mut analyzer.analyze_pass1("prj", &parser.veryl));
    errors.append(&mut Analyzer::analyze_post_pass1());
    errors.append(&mut analyzer.analyze_pass2(&parser.veryl, &mut context, Some(&mut ir)));
    errors.append(&mut Analyzer::analyze_post_pass2(&ir));
    if std::env::var("HX_SYNTH_DEBUG").is_ok() {
        for e in &errors {
            eprintln!("DIAG {} :: {}", if e.is_error() { "error" } else { "warning" }, format!("{e}").lines().next().unwrap_or(""));
        }
    }
    if errors.iter().any(|e| e.is_error()) {
        return Err("analyzer-error".into());
    }
    Ok(Built { ir, warnings: errors.len() })
}

fn synth(ir: &air::Ir, lib: usize, ram: usize) -> Result<GateModule, String> {
    let top = veryl_parser::resource_table::insert_str("Top");
    match veryl_synthesizer::build_gate_ir_with_library(ir, top, ram_cfg(ram), library_for(LIBS[lib])) {
        Ok(g) => Ok(g.module),
        Err(e) => Err(format!("{e}").lines().next().unwrap_or("").chars().take(80).collect()),
    }
}

// ---------------------------------------------------------------------------------------------
// serialisation of the real GateModule
// ---------------------------------------------------------------------------------------------
fn nets_str(ns: &[u32]) -> String {
    if ns.is_empty() {
        return "-".into();
    }
    ns.iter().map(|n| format!("{n:x}")).collect::<Vec<_>>().join(".")
}

fn serialize(m: &GateModule, lib: usize) -> String {
    let mut s = String::new();
    s.push_str("drv=[");
    for (i, n) in m.nets.iter().enumerate() {
        if i > 0 {
            s.push(',');
        }
        match &n.driver {
            NetDriver::Const(false) => s.push_str("c0"),
            NetDriver::Const(true) => s.push_str("c1"),
            NetDriver::PortInput => s.push('p'),
            NetDriver::Cell(i) => s.push_str(&format!("C{i:x}")),
            NetDriver::FfQ(i) => s.push_str(&format!("F{i:x}")),
            NetDriver::RamRead(r, p, b) => s.push_str(&format!("R{r:x}.{p:x}.{b:x}")),
            NetDriver::Undriven => s.push('u'),
        }
    }
    s.push_str("] ports=[");
    for (i, p) in m.ports.iter().enumerate() {
        if i > 0 {
            s.push(',');
        }
        let d = match p.dir {
            PortDir::Input => 'i',
            PortDir::Output => 'o',
            PortDir::Inout => 'b',
        };
        s.push_str(&format!("{}:{}", d, nets_str(&p.nets)));
    }
    s.push_str("] cells=[");
    for (i, c) in m.cells.iter().enumerate() {
        if i > 0 {
            s.push(',');
        }
        s.push_str(&format!("{:x}.{:x}", kind_code(c.kind), c.output));
        for x in &c.inputs {
            s.push_str(&format!(".{x:x}"));
        }
    }
    s.push_str("] ffs=[");
    for (i, f) in m.ffs.iter().enumerate() {
        if i > 0 {
            s.push(',');
        }
        let e = if f.clock_edge == ClockEdge::Posedge { 'p' } else { 'n' };
        let rs = match &f.reset {
            Some(r) => format!("{:x}.{}.{}", r.net, if r.polarity == ResetPolarity::ActiveHigh { 'h' } else { 'l' }, if r.sync { 's' } else { 'a' }),
            None => "-".into(),
        };
        s.push_str(&format!("{:x}.{}.{:x}.{:x}.{}:{}", f.clock, e, f.d, f.q, f.reset_value as u8, rs));
    }
    s.push_str("] rams=[");
    let sram = library_for(LIBS[lib]).sram_model();
    for (i, r) in m.ram_blocks.iter().enumerate() {
        if i > 0 {
            s.push(',');
        }
        let e = if r.clock_edge == ClockEdge::Posedge { 'p' } else { 'n' };
        let acc = (sram.access_delay(r.depth) * SCALE).round() as u64;
        s.push_str(&format!("{:x}.{:x}.{:x}.{}.{:x}", r.depth, r.width, r.clock, e, acc));
        for rp in &r.read_ports {
            s.push_str(&format!("/R:{}:{}:{}", if rp.sync { 's' } else { 'a' }, nets_str(&rp.addr), nets_str(&rp.data)));
        }
        for wp in &r.write_ports {
            s.push_str(&format!(
                "/W:{:x}:{}:{}:{}",
                wp.enable,
                nets_str(&wp.addr),
                nets_str(&wp.data),
                match &wp.mask {
                    Some(ms) => nets_str(ms),
                    None => "n".into(),
                }
            ));
        }
    }
    s.push(']');
    s
}

// ---------------------------------------------------------------------------------------------
// independent netlist evaluation (memoised walk over the driver table; state for FFs and RAMs)
// ---------------------------------------------------------------------------------------------
fn eval_cell(kind: CellKind, x: &[bool]) -> bool {
    use CellKind::*;
    let and = |v: &[bool]| v.iter().all(|b| *b);
    let or = |v: &[bool]| v.iter().any(|b| *b);
    match kind {
        Buf => x[0],
        Not => !x[0],
        And2 | And3 => and(x),
        Or2 | Or3 => or(x),
        Nand2 | Nand3 => !and(x),
        Nor2 | Nor3 => !or(x),
        Xor2 => x[0] != x[1],
        Xnor2 => x[0] == x[1],
        Ao21 => and(&x[0..2]) | x[2],
        Aoi21 => !(and(&x[0..2]) | x[2]),
        Oa21 => or(&x[0..2]) & x[2],
        Oai21 => !(or(&x[0..2]) & x[2]),
        Ao31 => and(&x[0..3]) | x[3],
        Aoi31 => !(and(&x[0..3]) | x[3]),
        Ao22 => and(&x[0..2]) | and(&x[2..4]),
        Aoi22 => !(and(&x[0..2]) | and(&x[2..4])),
        Oai22 => !(or(&x[0..2]) & or(&x[2..4])),
        Mux2 => {
            if x[0] {
                x[2]
            } else {
                x[1]
            }
        }
    }
}

struct GateSim<'a> {
    m: &'a GateModule,
    ffq: Vec<bool>,
    mem: Vec<Vec<Vec<bool>>>,
    inputs: Vec<bool>, // per net, for PortInput nets
    memo: Vec<u8>,     // 0 unknown, 1 false, 2 true, 3 in progress
}

impl<'a> GateSim<'a> {
    fn new(m: &'a GateModule) -> Self {
        GateSim {
            m,
            ffq: vec![false; m.ffs.len()],
            mem: m.ram_blocks.iter().map(|r| vec![vec![false; r.width]; r.depth]).collect(),
            inputs: vec![false; m.nets.len()],
            memo: vec![0; m.nets.len()],
        }
    }
    fn clear(&mut self) {
        self.memo.iter_mut().for_each(|x| *x = 0);
    }
    fn addr(&mut self, nets: &[u32]) -> Result<usize, String> {
        let mut a = 0usize;
        for (i, n) in nets.iter().enumerate() {
            if self.net(*n)? && i < 60 {
                a |= 1 << i;
            }
        }
        Ok(a)
    }
    /// iterative post-order evaluation (deep ripple structures would overflow the call stack)
    fn net(&mut self, root: u32) -> Result<bool, String> {
        let mut stack = vec![root];
        while let Some(&n) = stack.last() {
            let ni = n as usize;
            if ni >= self.m.nets.len() {
                return Err("range".into());
            }
            if self.memo[ni] == 1 || self.memo[ni] == 2 {
                stack.pop();
                continue;
            }
            let deps: Vec<u32> = match &self.m.nets[ni].driver {
                NetDriver::Cell(i) => self.m.cells.get(*i).ok_or("cellidx")?.inputs.clone(),
                NetDriver::RamRead(r, p, _) => self.m.ram_blocks.get(*r).and_then(|x| x.read_ports.get(*p)).ok_or("ramidx")?.addr.clone(),
                _ => vec![],
            };
            let pending: Vec<u32> = deps.iter().copied().filter(|d| !matches!(self.memo.get(*d as usize), Some(1) | Some(2))).collect();
            if !pending.is_empty() {
                if self.memo[ni] == 3 {
                    return Err("cycle".into());
                }
                self.memo[ni] = 3;
                stack.extend(pending);
                continue;
            }
            let v = match &self.m.nets[ni].driver {
                NetDriver::Const(b) => *b,
                NetDriver::PortInput => self.inputs[ni],
                NetDriver::Undriven => false,
                NetDriver::FfQ(i) => *self.ffq.get(*i).ok_or("ffidx")?,
                NetDriver::Cell(i) => {
                    let c = &self.m.cells[*i];
                    if c.inputs.len() != c.kind.arity() {
                        return Err("arity".into());
                    }
                    let xs: Vec<bool> = c.inputs.iter().map(|k| self.memo[*k as usize] == 2).collect();
                    eval_cell(c.kind, &xs)
                }
                NetDriver::RamRead(r, p, b) => {
                    let rp = &self.m.ram_blocks[*r].read_ports[*p];
                    let mut a = 0usize;
                    for (i, n) in rp.addr.iter().enumerate() {
                        if self.memo[*n as usize] == 2 && i < 60 {
                            a |= 1 << i;
                        }
                    }
                    self.mem[*r].get(a).and_then(|w| w.get(*b)).copied().unwrap_or(false)
                }
            };
            self.memo[ni] = if v { 2 } else { 1 };
            stack.pop();
        }
        Ok(self.memo[root as usize] == 2)
    }
    /// active edge of clock net `clk`
    fn edge(&mut self, clk: u32) -> Result<(), String> {
        let m = self.m;
        let mut next = self.ffq.clone();
        for (i, f) in m.ffs.iter().enumerate() {
            let clocked = f.clock == clk;
            let (active, is_async) = match &f.reset {
                Some(r) => (self.net(r.net)? == (r.polarity == ResetPolarity::ActiveHigh), !r.sync),
                None => (false, false),
            };
            if active && (is_async || clocked) {
                next[i] = f.reset_value;
            } else if clocked {
                next[i] = self.net(f.d)?;
            }
        }
        let mut newmem = self.mem.clone();
        for (ri, r) in m.ram_blocks.iter().enumerate() {
            if r.clock != clk {
                continue;
            }
            for wp in &r.write_ports {
                if !self.net(wp.enable)? {
                    continue;
                }
                let a = self.addr(&wp.addr)?;
                if a >= r.depth {
                    continue;
                }
                for b in 0..r.width {
                    let en = match &wp.mask {
                        Some(ms) => self.net(ms[b])?,
                        None => true,
                    };
                    if en {
                        newmem[ri][a][b] = self.net(wp.data[b])?;
                    }
                }
            }
        }
        self.ffq = next;
        self.mem = newmem;
        self.clear();
        Ok(())
    }
}

/// per cycle: hex per output port joined with ':'; `err` on evaluation failure
fn gate_run(m: &GateModule, d: &Design, stim: &[Vec<Bits>]) -> Vec<String> {
    let mut g = GateSim::new(m);
    let find = |name: &str| m.ports.iter().find(|p| p.name.to_string() == name && p.path.len() <= 1);
    let clk_net = d.clk.as_ref().and_then(|c| find(c)).and_then(|p| p.nets.first().copied());
    let mut out = vec![];
    for (ci, cyc) in stim.iter().enumerate() {
        g.clear();
        for (pi, v) in cyc.iter().enumerate() {
            if let Some(p) = find(&d.ins[pi].name) {
                for (b, n) in p.nets.iter().enumerate() {
                    g.inputs[*n as usize] = v.get(b).copied().unwrap_or(false);
                }
            }
        }
        if let Some((rn, high)) = &d.rst {
            if let Some(p) = find(rn) {
                let asserted = ci == 0;
                g.inputs[p.nets[0] as usize] = asserted == *high;
            }
        }
        let res: Result<String, String> = (|| {
            if let Some(c) = clk_net {
                g.edge(c)?;
            }
            let mut parts = vec![];
            for p in m.ports.iter().filter(|p| p.dir != PortDir::Input) {
                let bits: Result<Bits, String> = p.nets.iter().map(|n| g.net(*n)).collect();
                parts.push(bits_hex(&bits?));
            }
            Ok(parts.join(":"))
        })();
        out.push(res.unwrap_or_else(|e| format!("err-{e}")));
    }
    out
}

// ---------------------------------------------------------------------------------------------
// the real simulator (oracle of C19)
// ---------------------------------------------------------------------------------------------
/// output ports of the netlist, in `GateModule::ports` order (name, width)
fn out_ports(m: &GateModule) -> Vec<(String, usize)> {
    m.ports.iter().filter(|p| p.dir != PortDir::Input).map(|p| (p.name.to_string(), p.nets.len())).collect()
}

fn sim_run(ir: &air::Ir, d: &Design, outs: &[(String, usize)], stim: &[Vec<Bits>], four_state: bool) -> Result<Vec<String>, String> {
    let cfg = Config { use_4state: four_state, ..Default::default() };
    let top = veryl_parser::resource_table::insert_str("Top");
    let sir = veryl_simulator::ir::build_ir(ir, top, &cfg).map_err(|e| format!("build_ir:{e}").chars().take(60).collect::<String>())?;
    let mut sim = Simulator::new(sir, None);
    let clk = d.clk.as_ref().and_then(|c| sim.get_clock(c));
    let rst = d.rst.as_ref().and_then(|(r, _)| sim.get_reset(r));
    let mut out = vec![];
    for (ci, cyc) in stim.iter().enumerate() {
        for (pi, v) in cyc.iter().enumerate() {
            sim.set(&d.ins[pi].name, bits_value(v));
        }
        if let Some(c) = &clk {
            match (&rst, ci) {
                (Some(r), 0) => sim.step_reset(c, r),
                _ => sim.step(c),
            }
        }
        let mut parts = vec![];
        for (name, width) in outs {
            let v = sim.get(name).ok_or("noport")?;
            parts.push(value_hex(&v, *width));
        }
        out.push(parts.join(":"));
    }
    Ok(out)
}

/// The RTL reference: values of the 2-state INTERPRETER (no JIT, no cc backend); a port value is
/// replaced by `x` (not compared) where the 4-state interpreter shows X/Z or the two interpreters
/// disagree (counted), and the division guards are applied.
fn reference(ir: &air::Ir, d: &Design, outs: &[(String, usize)], stim: &[Vec<Bits>]) -> Result<(Vec<String>, usize), String> {
    let two = sim_run(ir, d, outs, stim, false)?;
    let four = sim_run(ir, d, outs, stim, true)?;
    let mut disagree = 0usize;
    let merged: Vec<String> = two
        .iter()
        .zip(four.iter())
        .map(|(a, b)| {
            a.split(':')
                .zip(b.split(':'))
                .map(|(x, y)| {
                    if y == "x" {
                        "x"
                    } else if x != y {
                        disagree += 1;
                        "x"
                    } else {
                        x
                    }
                })
                .collect::<Vec<_>>()
                .join(":")
        })
        .collect();
    Ok((mask_guards(outs, merged), disagree))
}

// ---------------------------------------------------------------------------------------------
// independent well-formedness verdict + longest path (oracles of C20)
// ---------------------------------------------------------------------------------------------
struct WfInfo {
    wf: bool,
    why: String,
    maxdepth_all: usize,
    maxdepth_ep: usize,
}

fn wf_oracle(m: &GateModule) -> WfInfo {
    let n = m.nets.len();
    let mut why = vec![];
    let mut drivers = vec![0u32; n];
    let mut used = vec![false; n];
    let mut range_ok = true;
    let mut drive = |x: u32, drivers: &mut Vec<u32>| {
        if (x as usize) < n {
            drivers[x as usize] += 1;
        } else {
            range_ok = false;
        }
    };
    if n < 2 {
        why.push("no-const-nets");
    } else {
        drivers[0] += 1;
        drivers[1] += 1;
    }
    for c in &m.cells {
        drive(c.output, &mut drivers);
    }
    for f in &m.ffs {
        drive(f.q, &mut drivers);
    }
    for r in &m.ram_blocks {
        for rp in &r.read_ports {
            for d in &rp.data {
                drive(*d, &mut drivers);
            }
        }
    }
    for p in &m.ports {
        if p.dir != PortDir::Output {
            for x in &p.nets {
                drive(*x, &mut drivers);
            }
        }
    }
    let mut range_ok2 = true;
    let mut mark = |x: u32, used: &mut Vec<bool>| {
        if (x as usize) < n {
            used[x as usize] = true;
        } else {
            range_ok2 = false;
        }
    };
    for c in &m.cells {
        for x in &c.inputs {
            mark(*x, &mut used);
        }
    }
    for f in &m.ffs {
        mark(f.d, &mut used);
        mark(f.clock, &mut used);
        if let Some(r) = &f.reset {
            mark(r.net, &mut used);
        }
    }
    m.for_each_ram_input_net(|x| mark(x, &mut used));
    for p in &m.ports {
        if p.dir != PortDir::Input {
            for x in &p.nets {
                mark(*x, &mut used);
            }
        }
    }
    if !range_ok || !range_ok2 {
        why.push("net-out-of-range");
    }
    if drivers.iter().any(|c| *c > 1) {
        why.push("multiply-driven-net");
    }
    if (0..n).any(|i| used[i] && drivers[i] == 0) {
        why.push("used-net-undriven");
    }
    if m.cells.iter().any(|c| c.inputs.len() != c.kind.arity()) {
        why.push("arity");
    }
    for r in &m.ram_blocks {
        if r.read_ports.iter().any(|rp| rp.addr.is_empty() || rp.data.len() != r.width)
            || r.write_ports.iter().any(|wp| wp.data.len() != r.width || wp.mask.as_ref().is_some_and(|x| x.len() != r.width))
        {
            why.push("ram-shape");
        }
    }
    // driver table consistency
    let mut table_ok = true;
    for (i, net) in m.nets.iter().enumerate() {
        let ok = match &net.driver {
            NetDriver::Const(b) => (i == 0 && !*b) || (i == 1 && *b),
            NetDriver::PortInput => m.ports.iter().any(|p| p.dir != PortDir::Output && p.nets.contains(&(i as u32))),
            NetDriver::Cell(k) => m.cells.get(*k).is_some_and(|c| c.output as usize == i),
            NetDriver::FfQ(k) => m.ffs.get(*k).is_some_and(|f| f.q as usize == i),
            NetDriver::RamRead(r, p, b) => m.ram_blocks.get(*r).and_then(|x| x.read_ports.get(*p)).and_then(|rp| rp.data.get(*b)).is_some_and(|d| *d as usize == i),
            NetDriver::Undriven => true,
        };
        table_ok &= ok;
    }
    if !table_ok {
        why.push("driver-table");
    }
    // acyclicity + longest path by DFS over the producer relation (cells by output net, async reads)
    let mut prod: Vec<Option<(Vec<u32>, usize)>> = vec![None; n];
    if why.is_empty() {
        for c in &m.cells {
            prod[c.output as usize] = Some((c.inputs.clone(), (c.kind != CellKind::Buf) as usize));
        }
        for r in &m.ram_blocks {
            for rp in &r.read_ports {
                if !rp.sync {
                    for d in &rp.data {
                        prod[*d as usize] = Some((rp.addr.clone(), 1));
                    }
                }
            }
        }
    }
    let mut depth = vec![usize::MAX; n];
    let mut state = vec![0u8; n];
    let mut cyclic = false;
    if why.is_empty() {
        'outer: for s in 0..n {
            if state[s] == 2 {
                continue;
            }
            let mut stack = vec![s];
            while let Some(&x) = stack.last() {
                if state[x] == 2 {
                    stack.pop();
                    continue;
                }
                match &prod[x] {
                    None => {
                        depth[x] = 0;
                        state[x] = 2;
                        stack.pop();
                    }
                    Some((ins, inc)) => {
                        let pend: Vec<usize> = ins.iter().map(|i| *i as usize).filter(|i| state[*i] != 2).collect();
                        if pend.is_empty() {
                            depth[x] = ins.iter().map(|i| depth[*i as usize]).max().unwrap_or(0) + inc;
                            state[x] = 2;
                            stack.pop();
                        } else {
                            if state[x] == 1 && pend.iter().any(|p| state[*p] == 1) {
                                cyclic = true;
                                break 'outer;
                            }
                            state[x] = 1;
                            stack.extend(pend);
                        }
                    }
                }
            }
        }
    }
    if cyclic {
        why.push("combinational-cycle");
    }
    let ok = why.is_empty();
    let mut eps: Vec<u32> = m.ffs.iter().map(|f| f.d).collect();
    for p in &m.ports {
        if p.dir != PortDir::Input {
            eps.extend(p.nets.iter().copied());
        }
    }
    for r in &m.ram_blocks {
        for wp in &r.write_ports {
            eps.extend(wp.addr.iter().chain(wp.data.iter()).copied());
            eps.push(wp.enable);
            if let Some(ms) = &wp.mask {
                eps.extend(ms.iter().copied());
            }
        }
    }
    WfInfo {
        wf: ok,
        why: why.join("+"),
        maxdepth_all: if ok { depth.iter().copied().filter(|d| *d != usize::MAX).max().unwrap_or(0) } else { 0 },
        maxdepth_ep: if ok { eps.iter().map(|e| depth[*e as usize]).max().unwrap_or(0) } else { 0 },
    }
}

fn scaled(x: f64) -> u64 {
    (x * SCALE).round() as u64
}

fn reports(m: &GateModule, lib: usize) -> (String, String) {
    let l = library_for(LIBS[lib]);
    let a = compute_area(m, l);
    let t = compute_timing(m, l);
    let kinds: Vec<String> = a.by_kind.iter().map(|(k, c, ar)| format!("{}:{:x}:{}", k.symbol(), c, scaled(*ar))).collect();
    let end = t.critical_path.last().map(|s| format!("{:x}", s.net)).unwrap_or("-".into());
    let imp = format!(
        "delay={} depth={:x} end={} area={} comb={} seq={} mem={} ff={:x} bits={:x} kinds=[{}]",
        scaled(t.critical_path_delay), t.critical_path_depth, end, scaled(a.total), scaled(a.combinational), scaled(a.sequential),
        scaled(a.memory), a.ff_count, a.ram_bits, kinds.join(",")
    );
    // independent sums (multiplication instead of accumulation, counts per kind by filter)
    let mut comb = 0.0;
    let mut krows = vec![];
    let mut order: Vec<CellKind> = KINDS.to_vec();
    order.sort_by_key(|k| k.symbol());
    for k in order {
        let c = m.cells.iter().filter(|c| c.kind == k).count();
        if c > 0 {
            let ar = c as f64 * l.info(k).area;
            comb += ar;
            krows.push(format!("{}:{:x}:{}", k.symbol(), c, scaled(ar)));
        }
    }
    let seq = m.ffs.len() as f64 * l.ff_area();
    let bits: usize = m.ram_blocks.iter().map(|r| r.depth * r.width).sum();
    let mem = bits as f64 * l.sram_model().bit_area;
    let ora = format!(
        "area={} comb={} seq={} mem={} ff={:x} bits={:x} kinds=[{}]",
        scaled(comb + seq + mem), scaled(comb), scaled(seq), scaled(mem), m.ffs.len(), bits, krows.join(",")
    );
    (imp, ora)
}

// ---------------------------------------------------------------------------------------------
// one request
// ---------------------------------------------------------------------------------------------
fn stim_str(stim: &[Vec<Bits>]) -> String {
    let cyc: Vec<String> = stim.iter().map(|c| if c.is_empty() { "-".into() } else { c.iter().map(|b| bits_hex(b)).collect::<Vec<_>>().join(":") }).collect();
    format!("[{}]", cyc.join(","))
}

fn hex_encode(s: &str) -> String {
    s.bytes().map(|b| format!("{b:02x}")).collect()
}

fn hex_decode(s: &str) -> Option<String> {
    let b: Option<Vec<u8>> = (0..s.len() / 2).map(|i| u8::from_str_radix(s.get(2 * i..2 * i + 2)?, 16).ok()).collect();
    String::from_utf8(b?).ok()
}

fn design_meta(d: &Design) -> String {
    let ps = |v: &[PortSpec]| v.iter().map(|p| format!("{}.{:x}.{}", p.name, p.width, if p.signed { 's' } else { 'u' })).collect::<Vec<_>>().join(",");
    format!(
        "kind={} S={} ins=[{}] outs=[{}] clk={} rst={}",
        d.kind,
        d.stratum,
        ps(&d.ins),
        ps(&d.outs),
        d.clk.clone().unwrap_or("-".into()),
        d.rst.as_ref().map(|(n, h)| format!("{}.{}", n, if *h { 'h' } else { 'l' })).unwrap_or("-".into())
    )
}

struct Outcome {
    mismatch: bool, // netlist != 4-state reference on an X-free cycle
    first_bad_cycle: usize,
}

/// Emit one request (design x lib x ram) with the three reply lines.
fn emit(log: &mut Log, id: &str, d: &Design, b: &Built, lib: usize, ram: usize, stim: &[Vec<Bits>], sig: Option<&str>) -> Option<Outcome> {
    let head = format!("net id={} {} lib={:x} ram={:x} warn={:x}", id, design_meta(d), lib, ram, b.warnings);
    let tail = format!("stim={} sig={} src={}", stim_str(stim), sig.unwrap_or("-"), hex_encode(&d.src));
    let m = match panic::catch_unwind(AssertUnwindSafe(|| synth(&b.ir, lib, ram))) {
        Ok(Ok(m)) => m,
        Ok(Err(e)) => {
            log.count("synth_rejected");
            log.count(&format!("synth_rejected.{}", e.split(':').next().unwrap_or("").replace(' ', "_")));
            return None;
        }
        Err(_) => {
            log.push3(format!("{head} PANIC {tail}"), "synth-panic".into(), "?".into());
            log.count("synth_panic");
            return None;
        }
    };
    if m.cells.len() > 40000 {
        log.count("skipped_big");
        return None;
    }
    let find = |name: &str| m.ports.iter().find(|p| p.name.to_string() == name && p.path.len() <= 1);
    // port name -> index in m.ports, for the driver (which does not see names)
    let idx = |name: &str| m.ports.iter().position(|p| p.name.to_string() == name && p.path.len() <= 1).map(|i| format!("{i:x}")).unwrap_or("-".into());
    let inmap: Vec<String> = d.ins.iter().map(|p| idx(&p.name)).collect();
    let clkn = d.clk.as_ref().and_then(|c| find(c)).and_then(|p| p.nets.first().map(|n| format!("{n:x}"))).unwrap_or("-".into());
    let rstn = d.rst.as_ref().and_then(|(r, h)| find(r).and_then(|p| p.nets.first().map(|n| format!("{:x}.{}", n, if *h { 'h' } else { 'l' })))).unwrap_or("-".into());
    let wfi = wf_oracle(&m);
    let (rep_imp, rep_ora) = match panic::catch_unwind(AssertUnwindSafe(|| reports(&m, lib))) {
        Ok(x) => x,
        Err(_) => ("report-panic".into(), "?".into()),
    };
    let gate = panic::catch_unwind(AssertUnwindSafe(|| gate_run(&m, d, stim))).unwrap_or_else(|_| vec!["err-panic".into()]);
    let sim4 = panic::catch_unwind(AssertUnwindSafe(|| reference(&b.ir, d, &out_ports(&m), stim)));
    let sim4 = match sim4 {
        Ok(Ok((v, disagree))) => {
            if disagree > 0 {
                log.add("interpreter_2state_ne_4state_port_cycles", disagree as u64);
            }
            Some(v)
        }
        Ok(Err(e)) => {
            log.count(&format!("sim_error.{}", e.split(':').next().unwrap_or("")));
            None
        }
        Err(_) => {
            log.count("sim_panic");
            None
        }
    };
    let ep = rep_imp.split(' ').find_map(|t| t.strip_prefix("end=")).unwrap_or("-").to_string();
    let op = format!(
        "{head} ncells={:x} nn={:x} inmap=[{}] clkn={} rstn={} ep={} {} {tail}",
        m.cells.len(), m.nets.len(), inmap.join(","), clkn, rstn, ep, serialize(&m, lib)
    );
    let imp = format!("wf={} why={} out=[{}] {}", wfi.wf as u8, if wfi.why.is_empty() { "-" } else { &wfi.why }, gate.join(","), rep_imp);
    let ora = format!(
        "wf=1 out={} maxdepth={:x} epdepth={:x} {}",
        match &sim4 {
            Some(v) => format!("[{}]", v.join(",")),
            None => "?".into(),
        },
        wfi.maxdepth_all, wfi.maxdepth_ep, rep_ora
    );
    log.push3(op, imp, ora);
    log.count("requests");
    log.count(&format!("kind.{}", d.kind));
    log.count(&format!("stratum.{}", d.stratum));
    log.count(&format!("lib.{lib}"));
    log.count(&format!("ram.{ram}"));
    log.add("cells_total", m.cells.len() as u64);
    log.add("ffs_total", m.ffs.len() as u64);
    log.add("ram_blocks_total", m.ram_blocks.len() as u64);
    for c in &m.cells {
        log.count(&format!("cellkind.{}", c.kind.symbol()));
    }
    let bucket = match m.cells.len() {
        0..=9 => "cells.0-9",
        10..=99 => "cells.10-99",
        100..=999 => "cells.100-999",
        1000..=9999 => "cells.1k-10k",
        _ => "cells.10k+",
    };
    log.count(bucket);
    // mismatch against the X-free reference (the reset cycle is not observed)
    let mut oc = Outcome { mismatch: false, first_bad_cycle: 0 };
    if let Some(s) = &sim4 {
        for (ci, (a, bb)) in gate.iter().zip(s.iter()).enumerate() {
            let bad = a.split(':').zip(bb.split(':')).any(|(x, y)| y != "x" && x != y);
            if bad {
                oc.mismatch = true;
                oc.first_bad_cycle = ci;
                break;
            }
        }
        if s.iter().any(|c| c.contains('x')) {
            log.count("designs_with_x_cycles");
        }
    }
    Some(oc)
}

fn nat_bits(v: usize, w: usize) -> Bits {
    (0..w).map(|i| i < 64 && v >> i & 1 == 1).collect()
}

fn gen_stim(r: &mut Rng, d: &Design, cycles: usize) -> Vec<Vec<Bits>> {
    let mut out = vec![];
    // memlane: two addresses, so that every word is soon fully written and then read back
    let addrs: Vec<usize> = (0..2).map(|_| r.next() as usize).collect();
    for ci in 0..cycles {
        let mut c = vec![];
        let mut waddr: Option<Bits> = None;
        for p in &d.ins {
            // the reset cycle carries zeros on every data input
            if ci == 0 && d.rst.is_some() {
                c.push(vec![false; p.width]);
                continue;
            }
            let v = match (d.kind.as_str(), p.name.as_str()) {
                // shift amounts around the operand width and around the stage boundaries
                ("shift", "s") => {
                    let w = d.ins[0].width;
                    let k = (usize::BITS - 1 - w.leading_zeros()) as usize; // floor(log2 w)
                    let cands = [0, 1, w - 1, w, w + 1, (1 << k) - 1, 1 << k, (1 << k) + 1, (1usize << p.width.min(20)) - 1];
                    if r.below(4) == 0 { rand_bits(r, p.width) } else { nat_bits(*r.pick(&cands), p.width) }
                }
                ("memlane", "c0") | ("memlane", "c1") => vec![r.below(4) != 0],
                ("memlane", "waddr") => {
                    let a = nat_bits(addrs[r.below(2) as usize], p.width);
                    waddr = Some(a.clone());
                    a
                }
                ("memlane", "raddr") => match &waddr {
                    Some(a) if r.below(4) != 0 => a.clone(),
                    _ => nat_bits(addrs[r.below(2) as usize], p.width),
                },
                _ => rand_bits(r, p.width),
            };
            c.push(v);
        }
        out.push(c);
    }
    out
}

// ---------------------------------------------------------------------------------------------
// shrinking a failing combinational design
// ---------------------------------------------------------------------------------------------
fn comb_fails(d: &Design, stim: &[Vec<Bits>]) -> Option<usize> {
    let b = panic::catch_unwind(AssertUnwindSafe(|| analyze(&d.src))).ok()?.ok()?;
    if b.warnings > 0 {
        return None; // a shrink step must not leave the warning-free strata
    }
    let m = panic::catch_unwind(AssertUnwindSafe(|| synth(&b.ir, 0, 0))).ok()?.ok()?;
    if m.cells.len() > 40000 {
        return None;
    }
    let gate = panic::catch_unwind(AssertUnwindSafe(|| gate_run(&m, d, stim))).ok()?;
    let sim = panic::catch_unwind(AssertUnwindSafe(|| reference(&b.ir, d, &out_ports(&m), stim))).ok()?.ok()?.0;
    gate.iter().zip(sim.iter()).position(|(a, s)| a.split(':').zip(s.split(':')).any(|(x, y)| y != "x" && x != y))
}

fn boundary_below(w: usize) -> Vec<usize> {
    [1usize, 2, 3, 8, 32, 64, 65, 128, 129].iter().copied().filter(|x| *x < w).collect()
}

fn fit(b: &Bits, w: usize) -> Bits {
    (0..w).map(|i| b.get(i).copied().unwrap_or(false)).collect()
}

fn shrink_comb(d: &Design, stim: &[Vec<Bits>], budget: &mut usize) -> (Design, Vec<Vec<Bits>>) {
    let mut ports = d.ins.clone();
    let mut ow = d.outs[0].width;
    let mut e = d.expr.clone().unwrap();
    let mut stim = stim.to_vec();
    let stratum = d.stratum.clone();
    let mk = |ports: &Vec<PortSpec>, ow: usize, e: &E| comb_design(ports.clone(), ow, e.clone(), &stratum);
    // one failing vector
    if let Some(k) = comb_fails(&mk(&ports, ow, &e), &stim) {
        stim = vec![stim[k].clone()];
    }
    loop {
        let mut progress = false;
        // expression reductions, biggest cut first
        let mut cands = e.one_step_reductions();
        cands.sort_by_key(|c| c.size());
        for c in cands {
            if *budget == 0 {
                break;
            }
            *budget -= 1;
            if comb_fails(&mk(&ports, ow, &c), &stim).is_some() {
                e = c;
                progress = true;
                break;
            }
        }
        if progress {
            continue;
        }
        // widths to the boundary set, signedness off
        for pi in 0..ports.len() {
            for w in boundary_below(ports[pi].width) {
                if *budget == 0 {
                    break;
                }
                *budget -= 1;
                let mut p2 = ports.clone();
                p2[pi].width = w;
                let s2: Vec<Vec<Bits>> = stim.iter().map(|c| c.iter().enumerate().map(|(i, b)| if i == pi { fit(b, w) } else { b.clone() }).collect()).collect();
                if comb_fails(&mk(&p2, ow, &e), &s2).is_some() {
                    ports = p2;
                    stim = s2;
                    progress = true;
                    break;
                }
            }
            if ports[pi].signed && *budget > 0 {
                *budget -= 1;
                let mut p2 = ports.clone();
                p2[pi].signed = false;
                if comb_fails(&mk(&p2, ow, &e), &stim).is_some() {
                    ports = p2;
                    progress = true;
                }
            }
        }
        for w in boundary_below(ow) {
            if *budget == 0 {
                break;
            }
            *budget -= 1;
            if comb_fails(&mk(&ports, w, &e), &stim).is_some() {
                ow = w;
                progress = true;
                break;
            }
        }
        // stimulus values towards 0 / 1 / all-ones
        for pi in 0..ports.len() {
            let w = ports[pi].width;
            let cur = stim[0][pi].clone();
            let mut one = vec![false; w];
            one[0] = true;
            for cand in [vec![false; w], one, vec![true; w]] {
                if cand == cur || *budget == 0 {
                    continue;
                }
                // only move towards "simpler": fewer set bits, or all-ones
                if cand.iter().filter(|b| **b).count() >= cur.iter().filter(|b| **b).count() && !cand.iter().all(|b| *b) {
                    continue;
                }
                if cand.iter().all(|b| *b) && cur.iter().all(|b| *b) {
                    continue;
                }
                if cand.iter().all(|b| *b) && cur.iter().filter(|b| **b).count() <= 1 {
                    continue;
                }
                *budget -= 1;
                let mut s2 = stim.clone();
                s2[0][pi] = cand;
                if comb_fails(&mk(&ports, ow, &e), &s2).is_some() {
                    stim = s2;
                    progress = true;
                    break;
                }
            }
        }
        if !progress || *budget == 0 {
            break;
        }
    }
    (mk(&ports, ow, &e), stim)
}

fn regime(w: usize) -> &'static str {
    if w <= 64 {
        "le64"
    } else if w <= 128 {
        "le128"
    } else {
        "gt128"
    }
}

/// fine description of a (shrunk) combinational design, for the evidence only
fn signature(d: &Design) -> String {
    let e = d.expr.as_ref().unwrap();
    let ch = e.children();
    let mix: String = if ch.is_empty() {
        if e.shape(&d.ins).1 { "s".into() } else { "u".into() }
    } else {
        ch.iter().map(|c| if c.shape(&d.ins).1 { 's' } else { 'u' }).collect()
    };
    let wmax = ch.iter().map(|c| c.shape(&d.ins).0).chain([d.outs[0].width, e.shape(&d.ins).0]).max().unwrap_or(1);
    format!("{}:{}:{}", e.root_name(), mix, regime(wmax))
}

fn reduce_wide_conditions(e: &E, ports: &[PortSpec], changed: &mut bool) -> E {
    match e {
        E::Zero | E::Port(_) | E::Lit(..) => e.clone(),
        E::Un(op, a) => E::Un(op, Box::new(reduce_wide_conditions(a, ports, changed))),
        E::Bin(op, a, b) => E::Bin(op, Box::new(reduce_wide_conditions(a, ports, changed)), Box::new(reduce_wide_conditions(b, ports, changed))),
        E::Cat(a, b) => E::Cat(Box::new(reduce_wide_conditions(a, ports, changed)), Box::new(reduce_wide_conditions(b, ports, changed))),
        E::If(c, a, b) => {
            let c2 = reduce_wide_conditions(c, ports, changed);
            let c3 = if c.shape(ports).0 > 1 {
                *changed = true;
                one_bit(c2)
            } else {
                c2
            };
            E::If(Box::new(c3), Box::new(reduce_wide_conditions(a, ports, changed)), Box::new(reduce_wide_conditions(b, ports, changed)))
        }
    }
}

fn logical_shifts(e: &E, changed: &mut bool) -> E {
    match e {
        E::Zero | E::Port(_) | E::Lit(..) => e.clone(),
        E::Un(op, a) => E::Un(op, Box::new(logical_shifts(a, changed))),
        E::Bin(op, a, b) => {
            let op2 = match *op {
                ">>>" => {
                    *changed = true;
                    ">>"
                }
                "<<<" => {
                    *changed = true;
                    "<<"
                }
                o => o,
            };
            E::Bin(op2, Box::new(logical_shifts(a, changed)), Box::new(logical_shifts(b, changed)))
        }
        E::Cat(a, b) => E::Cat(Box::new(logical_shifts(a, changed)), Box::new(logical_shifts(b, changed))),
        E::If(c, a, b) => E::If(Box::new(logical_shifts(c, changed)), Box::new(logical_shifts(a, changed)), Box::new(logical_shifts(b, changed))),
    }
}

fn opaque_literals(e: &E, changed: &mut bool) -> E {
    match e {
        E::Zero | E::Port(_) => e.clone(),
        E::Lit(..) => {
            *changed = true;
            E::Bin("|", Box::new(e.clone()), Box::new(E::Zero))
        }
        E::Un(op, a) => E::Un(op, Box::new(opaque_literals(a, changed))),
        E::Bin(op, a, b) => E::Bin(op, Box::new(opaque_literals(a, changed)), Box::new(opaque_literals(b, changed))),
        E::Cat(a, b) => E::Cat(Box::new(opaque_literals(a, changed)), Box::new(opaque_literals(b, changed))),
        E::If(c, a, b) => E::If(Box::new(opaque_literals(c, changed)), Box::new(opaque_literals(a, changed)), Box::new(opaque_literals(b, changed))),
    }
}

/// The mechanisms by which `conv/expression.rs` is known to deviate, each with the rewriting of the DESIGN
/// that takes the mechanism away:
///   C  a ternary condition wider than 1 bit is used by its LSB         -> reduce every wide condition with `|`
///   N  `>>`, `>>>`, `/`, `%` evaluated at the (narrower) target width   -> give `o` the self-determined width of the expression
///   A  `>>>` always fills with the MSB, whatever the signedness         -> write the arithmetic shifts as logical ones
///   S  an operand extended in its own signedness / relational operators signed by the outer context -> all ports unsigned
///   K  a constant sub-expression is folded at its own width (`try_constant`), not at the context width -> every literal
///      `L` written `(L | (i0[0] ^ i0[0]))` (same value, same type, not a constant for the folder)
/// (C, N and K keep the function of the design; A and S show that the construct is necessary for the failure.)
/// Returns the class key and the neutralised twin for the first (smallest) set of rewritings under which
/// the twin is warning-free and agrees with the reference on the same stimulus.
fn classify_comb(d: &Design, stim: &[Vec<Bits>]) -> Option<(String, Design)> {
    let e = d.expr.as_ref()?;
    let ow = d.outs[0].width;
    let apply = |c: bool, n: bool, a: bool, s: bool, k: bool| -> Option<Design> {
        let mut ports = d.ins.clone();
        let mut e2 = e.clone();
        let mut ow2 = ow;
        if c {
            let mut ch = false;
            e2 = reduce_wide_conditions(&e2, &ports, &mut ch);
            if !ch {
                return None;
            }
        }
        if a {
            let mut ch = false;
            e2 = logical_shifts(&e2, &mut ch);
            if !ch {
                return None;
            }
        }
        if k {
            let mut ch = false;
            e2 = opaque_literals(&e2, &mut ch);
            if !ch {
                return None;
            }
        }
        if n {
            let w = e.shape(&d.ins).0;
            if w <= ow {
                return None;
            }
            ow2 = w;
        }
        if s {
            if !ports.iter().any(|p| p.signed) {
                return None;
            }
            ports.iter_mut().for_each(|p| p.signed = false);
        }
        Some(comb_design(ports, ow2, e2, &d.stratum))
    };
    const NAMES: [&str; 5] = ["wide-condition", "narrowed-context", "arithmetic-shift", "signedness", "constant-folding"];
    const SINGLE: [&str; 5] = [
        "synth:ternary:wide-condition-uses-lsb",
        "synth:expression:context-narrowed-to-target-width",
        "synth:ashr:msb-fill-whatever-the-signedness",
        "synth:expression:signedness-of-operand-extension",
        "synth:constant-folding:self-width-instead-of-context-width",
    ];
    // subsets by size, then in the fixed order C, N, A, S, K
    let mut sets: Vec<u32> = (1u32..32).collect();
    sets.sort_by_key(|m| (m.count_ones(), *m));
    for m in sets {
        let on = |k: u32| m >> k & 1 == 1;
        let Some(t) = apply(on(0), on(1), on(2), on(3), on(4)) else { continue };
        let ok = (|| {
            let b = panic::catch_unwind(AssertUnwindSafe(|| analyze(&t.src))).ok()?.ok()?;
            if b.warnings > 0 && !on(3) {
                return Some(false);
            }
            let mo = panic::catch_unwind(AssertUnwindSafe(|| synth(&b.ir, 0, 0))).ok()?.ok()?;
            let gate = panic::catch_unwind(AssertUnwindSafe(|| gate_run(&mo, &t, stim))).ok()?;
            let sim = panic::catch_unwind(AssertUnwindSafe(|| reference(&b.ir, &t, &out_ports(&mo), stim))).ok()?.ok()?.0;
            let differs = gate.iter().zip(sim.iter()).any(|(a, s)| a.split(':').zip(s.split(':')).any(|(x, y)| y != "x" && x != y));
            let compared = sim.iter().any(|s| s.split(':').next().is_some_and(|v| v != "x"));
            Some(!differs && compared)
        })();
        if ok == Some(true) {
            let key = if m.count_ones() == 1 {
                SINGLE[m.trailing_zeros() as usize].to_string()
            } else {
                format!("synth:expression:compound:{}", (0..5).filter(|k| on(*k)).map(|k| NAMES[k as usize]).collect::<Vec<_>>().join("+"))
            };
            return Some((key, t));
        }
    }
    None
}

// ---------------------------------------------------------------------------------------------
// replay: the request line carries everything needed to regenerate itself
// ---------------------------------------------------------------------------------------------
fn parse_ports(s: &str) -> Vec<PortSpec> {
    let inner = &s[1..s.len() - 1];
    if inner.is_empty() {
        return vec![];
    }
    inner
        .split(',')
        .map(|t| {
            let f: Vec<&str> = t.split('.').collect();
            PortSpec { name: f[0].into(), width: usize::from_str_radix(f[1], 16).unwrap_or(1), signed: f[2] == "s" }
        })
        .collect()
}

fn replay_line(log: &mut Log, line: &str) {
    let toks: BTreeMap<&str, &str> = line.split(' ').filter_map(|t| t.split_once('=')).collect();
    let get = |k: &str| toks.get(k).copied().unwrap_or("-");
    let Some(src) = hex_decode(get("src")) else {
        log.push3(line.into(), "bad-op".into(), "?".into());
        return;
    };
    let ins = parse_ports(get("ins"));
    let outs = parse_ports(get("outs"));
    let d = Design {
        kind: get("kind").into(),
        stratum: get("S").into(),
        src,
        ins: ins.clone(),
        outs,
        clk: if get("clk") == "-" { None } else { Some(get("clk").into()) },
        rst: get("rst").split_once('.').map(|(n, h)| (n.to_string(), h == "h")),
        expr: None,
        twin: None,
    };
    let st = get("stim");
    let stim: Vec<Vec<Bits>> = st[1..st.len() - 1]
        .split(',')
        .filter(|c| !c.is_empty())
        .map(|c| if c == "-" { vec![] } else { c.split(':').enumerate().map(|(i, h)| hex_bits(h, ins.get(i).map(|p| p.width).unwrap_or(1)).unwrap_or_default()).collect() })
        .collect();
    let lib = usize::from_str_radix(get("lib"), 16).unwrap_or(0).min(3);
    let ram = usize::from_str_radix(get("ram"), 16).unwrap_or(0).min(2);
    match panic::catch_unwind(AssertUnwindSafe(|| analyze(&d.src))) {
        Ok(Ok(b)) => {
            let sig = get("sig");
            if emit(log, get("id"), &d, &b, lib, ram, &stim, if sig == "-" { None } else { Some(sig) }).is_none() {
                log.push3(line.into(), "rejected".into(), "?".into());
            }
        }
        _ => log.push3(line.into(), "rejected".into(), "?".into()),
    }
}

// ---------------------------------------------------------------------------------------------
// the DESIGN #14 witness on the real `compute_timing`: 3 fast cells against 2 slow cells
// ---------------------------------------------------------------------------------------------
fn witness_module() -> GateModule {
    use veryl_synthesizer::ir::NetInfo;
    use veryl_synthesizer::{Cell, GatePort};
    let mut m = GateModule::default();
    let name = veryl_parser::resource_table::insert_str;
    let net = |m: &mut GateModule, d: NetDriver| {
        m.nets.push(NetInfo { driver: d, origin: None });
        (m.nets.len() - 1) as u32
    };
    net(&mut m, NetDriver::Const(false));
    net(&mut m, NetDriver::Const(true));
    let a = net(&mut m, NetDriver::PortInput);
    let b = net(&mut m, NetDriver::PortInput);
    // fast chain: three inverters -> o1 ; slow chain: two XOR2 -> o2
    let cell = |m: &mut GateModule, k: CellKind, ins: Vec<u32>| {
        let o = (m.nets.len()) as u32;
        m.nets.push(NetInfo { driver: NetDriver::Cell(m.cells.len()), origin: None });
        m.cells.push(Cell { kind: k, inputs: ins, output: o });
        o
    };
    let n1 = cell(&mut m, CellKind::Not, vec![a]);
    let n2 = cell(&mut m, CellKind::Not, vec![n1]);
    let n3 = cell(&mut m, CellKind::Not, vec![n2]);
    let x1 = cell(&mut m, CellKind::Xor2, vec![a, b]);
    let x2 = cell(&mut m, CellKind::Xor2, vec![x1, b]);
    m.ports.push(GatePort { name: name("a"), path: vec![name("a")], dir: PortDir::Input, nets: vec![a] });
    m.ports.push(GatePort { name: name("b"), path: vec![name("b")], dir: PortDir::Input, nets: vec![b] });
    m.ports.push(GatePort { name: name("o1"), path: vec![name("o1")], dir: PortDir::Output, nets: vec![n3] });
    m.ports.push(GatePort { name: name("o2"), path: vec![name("o2")], dir: PortDir::Output, nets: vec![x2] });
    m
}

fn emit_witness(log: &mut Log) {
    for lib in 0..4 {
        let m = witness_module();
        let wfi = wf_oracle(&m);
        let (rep_imp, rep_ora) = reports(&m, lib);
        let ep = rep_imp.split(' ').find_map(|t| t.strip_prefix("end=")).unwrap_or("-").to_string();
        let op = format!(
            "net id=witness14.{lib} kind=witness S=W ins=[] outs=[] clk=- rst=- lib={lib:x} ram=0 warn=0 ncells={:x} nn={:x} inmap=[2,3] clkn=- rstn=- ep={} {} stim=[] sig=- src=-",
            m.cells.len(), m.nets.len(), ep, serialize(&m, lib)
        );
        let imp = format!("wf={} why={} out=[] {}", wfi.wf as u8, if wfi.why.is_empty() { "-" } else { &wfi.why }, rep_imp);
        let ora = format!("wf=1 out=[] maxdepth={:x} epdepth={:x} {}", wfi.maxdepth_all, wfi.maxdepth_ep, rep_ora);
        log.push3(op, imp, ora);
    }
}

// ---------------------------------------------------------------------------------------------
pub fn main(opts: &Opts) -> i32 {
    let out = opts.out();
    let mut log = Log::new();
    panic::set_hook(Box::new(|_| {}));
    // deep netlists: run on a thread with a large stack
    let opts_map = opts.map.clone();
    let rest = opts.rest.clone();
    let handle = std::thread::Builder::new().stack_size(512 << 20).spawn(move || {
        let opts = Opts { map: opts_map, rest };
        run(&opts, &mut log);
        log
    });
    let log = match handle.map(|h| h.join()) {
        Ok(Ok(l)) => l,
        _ => {
            eprintln!("hx synth: worker thread failed");
            return 3;
        }
    };
    log.write(&out);
    0
}

fn run(opts: &Opts, log: &mut Log) {
    if let Some(f) = opts.get("replay") {
        let text = std::fs::read_to_string(f).unwrap_or_default();
        for line in text.lines() {
            if line.trim().is_empty() {
                continue;
            }
            replay_line(log, line.trim());
            log.count("sequences");
        }
        return;
    }
    let mut r = Rng::new(opts.seed());
    let n = opts.num("n", 60) as usize;
    let cycles = opts.num("cycles", 6) as usize;
    let max_shrinks = opts.num("shrinks", 12) as usize;
    let mut shrinks = 0usize;
    emit_witness(log);
    for case in 0..n {
        let mut rr = r.fork();
        // half of the budget on S0 combinational + structural templates, the rest on S1..S3
        let d = match case % 14 {
            0 | 1 | 2 => gen_comb(&mut rr, 0),
            3 => gen_seq(&mut rr, 0),
            4 => gen_counter(&mut rr),
            5 => gen_case(&mut rr),
            6 => gen_mem(&mut rr),
            7 => if rr.below(2) == 0 { gen_hier(&mut rr) } else { gen_iface(&mut rr) },
            8 => gen_comb(&mut rr, 1),
            9 => gen_comb(&mut rr, 2),
            10 => gen_comb(&mut rr, 3),
            11 => gen_seq(&mut rr, 1 + (case as u32 / 14) % 2),
            12 => gen_shift(&mut rr),
            _ => gen_memlane(&mut rr),
        };
        log.count("generated");
        let t_design = std::time::Instant::now();
        let b = match panic::catch_unwind(AssertUnwindSafe(|| analyze(&d.src))) {
            Ok(Ok(b)) => b,
            Ok(Err(e)) => {
                log.count(&format!("rejected.{e}"));
                continue;
            }
            Err(_) => {
                log.count("rejected.analyzer-panic");
                continue;
            }
        };
        if b.warnings > 0 {
            // S0..S3 are warning-free strata
            log.count("rejected.warnings");
            continue;
        }
        log.count("accepted");
        log.count("sequences");
        if log.samples.len() < 5 {
            log.sample(d.src.replace('\n', " ").chars().take(300).collect());
        }
        let ncyc = if d.clk.is_some() { cycles * 2 + 1 } else { cycles };
        let stim = gen_stim(&mut rr, &d, ncyc);
        let id = format!("{case:x}");
        // every library with the default RAM thresholds; arrays additionally under both extremes
        let mut first: Option<Outcome> = None;
        for lib in 0..4 {
            let oc = emit(log, &id, &d, &b, lib, 0, &stim, None);
            if first.is_none() {
                first = oc;
            }
        }
        if d.kind == "mem" || d.kind == "memraw" || d.kind == "memlane" {
            for ram in 1..3 {
                emit(log, &id, &d, &b, case % 4, ram, &stim, None);
            }
        }
        if std::env::var("HX_SYNTH_DEBUG").is_ok() {
            eprintln!("TIME {} {} {} {:.2}s", id, d.kind, d.stratum, t_design.elapsed().as_secs_f64());
        }
        if let Some(oc) = first {
            if oc.mismatch {
                log.count("netlist_ne_sim");
                log.count(&format!("netlist_ne_sim.{}", d.stratum));
                if let Some((tsrc, sig)) = &d.twin {
                    // the twin (same design with the suspected construct written differently) must agree
                    // with the simulator for the signature to be established
                    let mut td = d.clone();
                    td.src = tsrc.clone();
                    td.twin = None;
                    if let Ok(Ok(tb)) = panic::catch_unwind(AssertUnwindSafe(|| analyze(&td.src))) {
                        if tb.warnings == 0 {
                            emit(log, &format!("{id}.twin"), &td, &tb, 0, 0, &stim, Some(sig));
                        }
                    }
                }
                if d.expr.is_some() && shrinks < max_shrinks {
                    shrinks += 1;
                    let mut budget = 300usize;
                    let (sd, ss) = shrink_comb(&d, &stim, &mut budget);
                    let fine = signature(&sd);
                    log.count(&format!("shrunk.{fine}"));
                    // class key = the mechanism whose removal makes the shrunk design agree with the simulator
                    let (sig, twin) = match classify_comb(&sd, &ss) {
                        Some((k, t)) => (k, Some(t)),
                        None => (format!("synth:expression:unclassified:{fine}"), None),
                    };
                    log.count(&format!("class.{sig}"));
                    if let Ok(Ok(sb)) = panic::catch_unwind(AssertUnwindSafe(|| analyze(&sd.src))) {
                        emit(log, &format!("{id}.shrunk"), &sd, &sb, 0, 0, &ss, Some(&sig));
                    }
                    if let Some(t) = twin {
                        if let Ok(Ok(tb)) = panic::catch_unwind(AssertUnwindSafe(|| analyze(&t.src))) {
                            emit(log, &format!("{id}.shrunk.twin"), &t, &tb, 0, 0, &ss, Some(&sig));
                        }
                    }
                }
            }
        }
    }
}
