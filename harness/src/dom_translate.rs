//! `hx translate`: C22 — SystemVerilog translation preserves behaviour.
//!
//! SystemVerilog modules (the SV model AST of `svparse`, printed in conventional hand-written style:
//! `input logic [7:0] a`, `always_ff @(posedge clk or negedge rst)`, `begin … end`) go through the
//! REAL `veryl_translator::translate_str`; when it reports no unsupported construct the produced
//! Veryl must parse and analyse without errors (default Veryl.toml: posedge clock, active-low
//! asynchronous reset — what the generated originals use), the real simulator's trace of it must
//! equal `SV.run(original)` (oracle, Lean `vmodel translate`), and its re-emitted SystemVerilog
//! (C01 chain) must give the same trace under `SV.run`.
//! Request line: `t <tb> <stim> <sv-original> <sv-reemitted|-> <names> <srchex> <tag>`;
//! implementation reply `orig=<trace> re=<trace>` (both = the real simulator's trace of the
//! translated Veryl), or `untranslatable:<kinds>` / `veryl-rejected:<error>` (no model verdict).
use crate::dom_emit as de;
use crate::rng::Rng;
use crate::svparse as sv;
use crate::util::{Log, Opts};
use std::collections::BTreeMap;
use std::panic;
use veryl_metadata::{ClockType, NewlineStyle, ResetType};

fn hex_encode(s: &str) -> String {
    s.bytes().map(|b| format!("{b:02x}")).collect()
}
fn hex_decode(s: &str) -> Option<String> {
    let b: Vec<u8> = (0..s.len() / 2).map(|i| u8::from_str_radix(&s[2 * i..2 * i + 2], 16)).collect::<Result<_, _>>().ok()?;
    String::from_utf8(b).ok()
}

pub struct TCase {
    pub tag: String,
    /// SystemVerilog source given to the translator
    pub sv_src: String,
    pub stim: Vec<Vec<String>>,
}

pub enum Outcome {
    /// request line, implementation reply
    Line(String, String),
    /// class (`untranslatable`, `veryl-rejected`, `unsupported`, `sv-parse`), detail, produced Veryl
    Skip(String, String, String),
}

/// translate one module and run everything on the real code
pub fn run_tcase(c: &TCase) -> Outcome {
    // the original, as the SV model sees it
    let m = match sv::parse_module(&c.sv_src) {
        Ok(m) => m,
        Err(e) => return Outcome::Skip("sv-parse".into(), e, String::new()),
    };
    let ins: Vec<(String, u64)> = m.decls.iter().filter(|d| d.kind == 0 && d.name != "clk" && d.name != "rst").map(|d| (d.name.clone(), d.width)).collect();
    let outs: Vec<String> = m.decls.iter().filter(|d| d.kind == 1).map(|d| d.name.clone()).collect();
    let mut order = vec!["clk".to_string(), "rst".to_string()];
    order.extend(ins.iter().map(|x| x.0.clone()));
    order.extend(outs.iter().cloned());
    order.extend(m.decls.iter().filter(|d| d.kind == 2).map(|d| d.name.clone()));
    let in_names: Vec<String> = ins.iter().map(|x| x.0.clone()).collect();
    let svp = match sv::module_polish(&m, &order, &in_names, &outs) {
        Ok(x) => x,
        Err(e) => return Outcome::Skip("sv-parse".into(), e, String::new()),
    };
    // the real translator
    let out = match veryl_translator::translate_str(&c.sv_src, "top.sv", false, NewlineStyle::Auto) {
        Ok(o) => o,
        Err(e) => return Outcome::Skip("untranslatable".into(), format!("parse: {e}"), String::new()),
    };
    if !out.unsupported.is_empty() {
        let mut kinds: Vec<String> = out.unsupported.iter().map(|u| u.kind.clone()).collect();
        kinds.sort();
        kinds.dedup();
        return Outcome::Skip("untranslatable".into(), kinds.join("+"), out.veryl);
    }
    let veryl = out.veryl;
    let stim_tok = if c.stim.is_empty() { "-".to_string() } else { c.stim.iter().map(|s| if s.is_empty() { "_".to_string() } else { s.join(":") }).collect::<Vec<_>>().join("/") };
    let mk_op = |re: &str| format!("t 0:1:p:l {} {} {} {} {} {}", stim_tok, svp, re, order.join("."), hex_encode(&c.sv_src), c.tag);
    // the produced Veryl must parse and analyse
    let metadata = de::metadata_for(ClockType::PosEdge, ResetType::AsyncLow);
    let built = match de::build_top(&veryl, &metadata, &m.name) {
        Ok(b) => b,
        Err(e) => return Outcome::Line(mk_op("-"), format!("veryl-rejected:{}", e.replace(' ', "_"))),
    };
    let trace = match de::simulate_any(&built.ir, ResetType::AsyncLow, &m.name, &ins, &outs, &c.stim, !m.items.iter().any(|i| matches!(i, sv::SvItem::Ff(..)))) {
        Ok(t) => t,
        Err(e) => return Outcome::Line(mk_op("-"), format!("sim-error:{}", e.replace(' ', "_"))),
    };
    // C01 chain: re-emitted SystemVerilog of the translated Veryl
    let re = sv::parse_module(&built.sv_text).and_then(|m2| sv::module_polish(&m2, &order, &in_names, &outs)).unwrap_or_else(|_| "-".into());
    let (rt, rr) = if re == "-" { ("na", "na".to_string()) } else { ("eq", trace.clone()) };
    Outcome::Line(mk_op(&re), format!("orig={trace} re={rr} rt={rt}"))
}

fn guarded(c: &TCase) -> Outcome {
    match panic::catch_unwind(panic::AssertUnwindSafe(|| run_tcase(c))) {
        Ok(o) => o,
        Err(_) => Outcome::Skip("panic".into(), "panic in translator/parser/analyzer/emitter/simulator".into(), String::new()),
    }
}

/// expression strings for the text-level cast rewriter: `assign o = <expr>;` through the translator
pub const REWRITE_PROBES: &[(&str, &str)] = &[
    ("8'(a)", "(a) as 8"),
    ("8'(a + b)", "(a + b) as 8"),
    ("a + 8'(b)", "a + (b) as 8"),
    ("8'(4'(a))", "((a) as 4) as 8"),
    ("(8)'(a)", "(a) as 8"),
    ("8'h0a + a", "8'h0a + a"),
    ("'0", "'0"),
    ("a < b", "a <: b"),
    ("a > b", "a >: b"),
    ("a <= b", "a <= b"),
    ("a ? b : a", "if a ? b : a"),
    ("{2{a}}", "{a repeat 2}"),
    ("signed'(a)", "$signed(a)"),
    ("int'(a)", "a as i32"),
];

/// fixed witnesses of the known translator findings: key, SystemVerilog module, stimulus
pub const WITNESSES: &[(&str, &str, &str)] = &[
    ("translate:always_comb-single-statement-dropped",
     "module Top (\n    input logic clk,\n    input logic rst,\n    input logic [7:0] a,\n    output logic [7:0] o\n);\n    always_comb o = a;\nendmodule\n", "5/7"),
    ("translate:seq-block-keeps-only-first-statement",
     "module Top (\n    input logic clk,\n    input logic rst,\n    input logic [7:0] a,\n    output logic [7:0] o\n);\n    always_comb begin\n        o = a;\n        o = ~a;\n    end\nendmodule\n", "5/7"),
    ("translate:clock-port-typed-logic",
     "module Top (\n    input logic clk,\n    input logic rst,\n    input logic [7:0] a,\n    output logic [7:0] o\n);\n    logic [7:0] q;\n    always_ff @(posedge clk or negedge rst) begin\n        if (!rst) q <= 8'h00; else q <= q + a;\n    end\n    assign o = q;\nendmodule\n", "1/2"),
    ("translate:relational-operator-copied",
     "module Top (\n    input logic clk,\n    input logic rst,\n    input logic [7:0] a,\n    input logic [7:0] b,\n    output logic [7:0] o\n);\n    assign o = a < b;\nendmodule\n", "1:2/3:2"),
    ("translate:conditional-operator-copied",
     "module Top (\n    input logic clk,\n    input logic rst,\n    input logic [7:0] a,\n    input logic [7:0] b,\n    output logic [7:0] o\n);\n    assign o = a[0] ? a : b;\nendmodule\n", "1:2/2:3"),
    ("translate:size-cast-to-logic-N",
     "module Top (\n    input logic clk,\n    input logic rst,\n    input logic [3:0] a,\n    output logic [7:0] o\n);\n    assign o = 8'(a);\nendmodule\n", "5/7"),
    ("translate:replication-copied",
     "module Top (\n    input logic clk,\n    input logic rst,\n    input logic [3:0] a,\n    output logic [7:0] o\n);\n    assign o = {2{a}};\nendmodule\n", "5/7"),
    ("translate:type-cast-target-copied",
     "module Top (\n    input logic clk,\n    input logic rst,\n    input logic [3:0] a,\n    output logic [7:0] o\n);\n    assign o = signed'(a);\nendmodule\n", "5/7"),
];

pub fn main(opts: &Opts) -> i32 {
    let out = opts.out();
    let mut log = Log::new();
    panic::set_hook(Box::new(|_| {}));
    let mut reasons: BTreeMap<String, u64> = BTreeMap::new();
    if let Some(f) = opts.get("replay") {
        let text = std::fs::read_to_string(f).unwrap_or_default();
        for line in text.lines() {
            let t: Vec<&str> = line.split_whitespace().collect();
            if t.len() != 8 || t[0] != "t" {
                log.push(line.to_string(), "bad-op".into());
                continue;
            }
            let Some(src) = hex_decode(t[6]) else {
                log.push(line.to_string(), "bad-op".into());
                continue;
            };
            let stim: Vec<Vec<String>> = if t[2] == "-" { vec![] } else { t[2].split('/').map(|c| if c == "_" { vec![] } else { c.split(':').map(|s| s.to_string()).collect() }).collect() };
            match guarded(&TCase { tag: t[7].to_string(), sv_src: src, stim }) {
                Outcome::Line(op, imp) => log.push(op, imp),
                Outcome::Skip(class, why, _) => log.push(line.to_string(), format!("{class}:{}", why.replace(' ', "_"))),
            }
        }
        log.write(&out);
        return 0;
    }
    if opts.num("witness", 0) == 1 {
        for (key, src, stim) in WITNESSES {
            let st: Vec<Vec<String>> = stim.split('/').map(|c| c.split(':').map(|x| x.to_string()).collect()).collect();
            match guarded(&TCase { tag: key.to_string(), sv_src: src.to_string(), stim: st }) {
                Outcome::Line(op, imp) => log.push(op, imp),
                Outcome::Skip(class, why, _) => log.push(format!("t 0:1:p:l - - - - {} {}", hex_encode(src), key), format!("{class}:{}", why.replace(' ', "_"))),
            }
        }
        log.write(&out);
        return 0;
    }
    if opts.num("rewrite", 0) == 1 {
        // the text rewriter (private `expr_text_to_veryl`), reached through `translate_str`
        let mut lines = vec![];
        for (e, want) in REWRITE_PROBES {
            let src = format!("module Top (\n    input logic clk,\n    input logic rst,\n    input logic [7:0] a,\n    input logic [7:0] b,\n    output logic [7:0] o\n);\n    assign o = {e};\nendmodule\n");
            let got = match veryl_translator::translate_str(&src, "top.sv", false, NewlineStyle::Auto) {
                Ok(o) => {
                    let line = o.veryl.lines().find(|l| l.contains("assign")).unwrap_or("").trim().to_string();
                    let uns: Vec<String> = o.unsupported.iter().map(|u| u.kind.clone()).collect();
                    format!("{line} {}", if uns.is_empty() { String::new() } else { format!("[unsupported: {}]", uns.join("+")) })
                }
                Err(e) => format!("error: {e}"),
            };
            let metadata = de::metadata_for(ClockType::PosEdge, ResetType::AsyncLow);
            let verdict = match veryl_translator::translate_str(&src, "top.sv", false, NewlineStyle::Auto) {
                Ok(o) if o.unsupported.is_empty() => match de::build_top(&o.veryl, &metadata, "Top") {
                    Ok(_) => "accepted".to_string(),
                    Err(e) => format!("rejected: {e}"),
                },
                Ok(_) => "reported-unsupported".into(),
                Err(_) => "error".into(),
            };
            lines.push(format!("{e}\t=> {got}\t(model rewrite: assign o = {want};)\t{verdict}"));
        }
        std::fs::write(out.join("rewrite.txt"), lines.join("\n") + "\n").unwrap();
        return 0;
    }
    let mut r = Rng::new(opts.seed());
    let n = opts.num("n", 30);
    let cycles = opts.num("cycles", 8) as usize;
    let level = opts.num("level", 1) as u32;
    let depth = opts.num("depth", 2) as u32;
    for case_no in 0..n {
        // a design of the clean stratum, emitted for posedge / async-low, re-printed in conventional style
        let d = match opts.num("shape", 0) {
            0 => de::gen_translatable(&mut r, &mut log, level, depth),
            1 => de::gen_design_x(&mut r, &mut log, false, false, level, depth, true, true),
            _ => de::gen_design(&mut r, &mut log, false, false, level, depth, true),
        };
        let stim = de::gen_stim(&mut r, &d.ins, cycles);
        log.count("designs");
        let metadata = de::metadata_for(ClockType::PosEdge, ResetType::AsyncLow);
        let src = de::design_text(&d);
        let m = match panic::catch_unwind(panic::AssertUnwindSafe(|| de::build(&src, &metadata).ok().and_then(|b| sv::parse_module(&b.sv_text).ok()))) {
            Ok(Some(m)) => m,
            _ => {
                log.count("generator-rejected");
                continue;
            }
        };
        let mut m = m;
        m.name = "Top".into();
        let sv_src = sv::module_text(&m);
        match guarded(&TCase { tag: format!("d{case_no}"), sv_src: sv_src.clone(), stim }) {
            Outcome::Line(op, imp) => {
                let class = imp.split(':').next().unwrap_or("").split('=').next().unwrap_or("").to_string();
                log.count(&format!("line.{class}"));
                if log.samples.len() < 2 {
                    log.sample(sv_src.clone());
                }
                log.push(op, imp);
            }
            Outcome::Skip(class, why, veryl) => {
                log.count(&class);
                *reasons.entry(format!("{class}: {}", why.chars().take(100).collect::<String>())).or_insert(0) += 1;
                if class == "panic" {
                    log.sample(format!("panic src={sv_src}"));
                }
                if why.starts_with("parse:") {
                    // the SystemVerilog parser of the translator rejects the module: kept for inspection
                    let _ = std::fs::write(out.join(format!("svparse_fail_{case_no}.sv")), &sv_src);
                }
                let _ = veryl;
            }
        }
    }
    let mut rs: Vec<(String, u64)> = reasons.into_iter().collect();
    rs.sort_by(|a, b| b.1.cmp(&a.1));
    std::fs::write(out.join("reasons.txt"), rs.iter().map(|(k, v)| format!("{v}\t{k}\n")).collect::<String>()).unwrap();
    log.write(&out);
    0
}
