//! `hx assign` — multiple-assignment / uncovered-branch / unassigned-variable diagnostics (C15).
//!
//! A design: variables (kind, width, declared inside an always block or not) and processes
//! (always_comb / assign, always_ff, instance outputs) over a small statement language (writes at
//! constant part-selects or at a dynamic index, if / else, case with or without default; `for`
//! loops with constant bounds are syntactic sugar for runs of single-bit writes, `switch` and
//! `else if` for if-chains). Each design is rendered to Veryl, analysed by the real analyzer, and
//! the diagnostics are collected per variable.
//!
//! Requests (`<vars>` = `[k:w:a,…]`, k ∈ i|o|v, width hex, a ∈ 0|1; `<procs>` see `Driver/Assign.lean`):
//!   `M <vars> <procs>`  variables with `multiple_assignment`
//!   `U <vars> <procs>`  variables with `uncovered_branch`
//!   `X <vars> <procs>`  variables reported `unassign_variable` at their declaration
//!   `R <vars> <procs>`  variables reported `unassign_variable` at an assignment (read before assign)
//! Oracle (computed here, independently of the model): per-bit driver sets (M), path enumeration
//! (U), "some read bit is assigned nowhere" (X), path-wise read-before-write for straight-line
//! blocks (R).
use crate::dom_cdc::analyze;
use crate::rng::Rng;
use crate::util::{Log, Opts};
use std::collections::{BTreeMap, BTreeSet};
use std::fmt::Write as _;
use veryl_analyzer::AnalyzerError;

type Mask = u128;

#[derive(Clone, Copy, PartialEq, Eq, Debug)]
pub enum Kind {
    In,
    Out,
    Var,
}

#[derive(Clone, Debug)]
pub struct VarInfo {
    pub kind: Kind,
    pub width: u32,
    pub always: bool,
}

type Reads = Vec<(usize, Mask)>;

#[derive(Clone, Debug)]
pub enum Stmt {
    A(Reads, usize, Mask, bool),
    I(Reads, Vec<Stmt>, Vec<Stmt>),
    C(Reads, bool, Vec<Vec<Stmt>>, Vec<Stmt>),
}

#[derive(Clone, Debug)]
pub enum Proc {
    K(Vec<Stmt>),
    F(Vec<Stmt>),
    Inst(Vec<(usize, Mask)>, Reads),
}

pub struct Design {
    pub vars: Vec<VarInfo>,
    pub procs: Vec<Proc>,
}

// ---- protocol printing --------------------------------------------------------------------------

fn p_reads(r: &Reads, s: &mut String) {
    for (i, (v, m)) in r.iter().enumerate() {
        if i > 0 {
            s.push(',');
        }
        write!(s, "{v:x}:{m:x}").unwrap();
    }
}

fn p_block(b: &[Stmt], s: &mut String) {
    s.push('{');
    for st in b {
        match st {
            Stmt::A(r, d, m, dy) => {
                s.push_str("A(");
                p_reads(r, s);
                write!(s, ";{d:x},{m:x},{})", if *dy { 1 } else { 0 }).unwrap();
            }
            Stmt::I(r, t, e) => {
                s.push_str("I(");
                p_reads(r, s);
                s.push(')');
                p_block(t, s);
                p_block(e, s);
            }
            Stmt::C(r, exh, arms, d) => {
                s.push_str("C(");
                p_reads(r, s);
                write!(s, ";{})[", if *exh { 1 } else { 0 }).unwrap();
                for a in arms {
                    p_block(a, s);
                }
                s.push(']');
                p_block(d, s);
            }
        }
    }
    s.push('}');
}

impl Design {
    pub fn vars_str(&self) -> String {
        let v: Vec<String> = self
            .vars
            .iter()
            .map(|x| {
                format!(
                    "{}:{:x}:{}",
                    match x.kind {
                        Kind::In => 'i',
                        Kind::Out => 'o',
                        Kind::Var => 'v',
                    },
                    x.width,
                    if x.always { 1 } else { 0 }
                )
            })
            .collect();
        format!("[{}]", v.join(","))
    }
    pub fn procs_str(&self) -> String {
        if self.procs.is_empty() {
            return "-".into();
        }
        let mut s = String::new();
        for (i, p) in self.procs.iter().enumerate() {
            if i > 0 {
                s.push(';');
            }
            match p {
                Proc::K(b) => {
                    s.push('k');
                    p_block(b, &mut s);
                }
                Proc::F(b) => {
                    s.push('f');
                    p_block(b, &mut s);
                }
                Proc::Inst(o, r) => {
                    s.push_str("i(");
                    p_reads(o, &mut s);
                    s.push('|');
                    p_reads(r, &mut s);
                    s.push(')');
                }
            }
        }
        s
    }
}

// ---- protocol parsing (replay) ------------------------------------------------------------------

struct Ps<'a> {
    s: &'a [u8],
    i: usize,
}

impl<'a> Ps<'a> {
    fn peek(&self) -> Option<u8> {
        self.s.get(self.i).copied()
    }
    fn eat(&mut self, c: u8) -> Option<()> {
        if self.peek() == Some(c) {
            self.i += 1;
            Some(())
        } else {
            None
        }
    }
    fn hex(&mut self) -> Option<u128> {
        let st = self.i;
        while let Some(c) = self.peek() {
            if c.is_ascii_digit() || (b'a'..=b'f').contains(&c) {
                self.i += 1;
            } else {
                break;
            }
        }
        if st == self.i || self.i - st > 32 {
            return None;
        }
        u128::from_str_radix(std::str::from_utf8(&self.s[st..self.i]).ok()?, 16).ok()
    }
    fn reads(&mut self) -> Option<Reads> {
        let mut r = vec![];
        loop {
            match self.peek()? {
                c if c.is_ascii_digit() || (b'a'..=b'f').contains(&c) => {
                    let v = self.hex()? as usize;
                    self.eat(b':')?;
                    r.push((v, self.hex()?));
                    if self.peek()? == b',' {
                        self.i += 1;
                    }
                }
                _ => break,
            }
        }
        Some(r)
    }
    fn block(&mut self) -> Option<Vec<Stmt>> {
        self.eat(b'{')?;
        let mut b = vec![];
        while self.peek()? != b'}' {
            b.push(self.stmt()?);
        }
        self.i += 1;
        Some(b)
    }
    fn stmt(&mut self) -> Option<Stmt> {
        match self.peek()? {
            b'A' => {
                self.i += 1;
                self.eat(b'(')?;
                let r = self.reads()?;
                self.eat(b';')?;
                let d = self.hex()? as usize;
                self.eat(b',')?;
                let m = self.hex()?;
                self.eat(b',')?;
                let dy = match self.peek()? {
                    b'0' => false,
                    b'1' => true,
                    _ => return None,
                };
                self.i += 1;
                self.eat(b')')?;
                Some(Stmt::A(r, d, m, dy))
            }
            b'I' => {
                self.i += 1;
                self.eat(b'(')?;
                let r = self.reads()?;
                self.eat(b')')?;
                let t = self.block()?;
                let e = self.block()?;
                Some(Stmt::I(r, t, e))
            }
            b'C' => {
                self.i += 1;
                self.eat(b'(')?;
                let r = self.reads()?;
                self.eat(b';')?;
                let exh = match self.peek()? {
                    b'0' => false,
                    b'1' => true,
                    _ => return None,
                };
                self.i += 1;
                self.eat(b')')?;
                self.eat(b'[')?;
                let mut arms = vec![];
                while self.peek()? == b'{' {
                    arms.push(self.block()?);
                }
                self.eat(b']')?;
                let d = self.block()?;
                Some(Stmt::C(r, exh, arms, d))
            }
            _ => None,
        }
    }
}

pub fn parse_design(vars: &str, procs: &str) -> Option<Design> {
    let inner = vars.strip_prefix('[')?.strip_suffix(']')?;
    let mut vs = vec![];
    if !inner.is_empty() {
        for t in inner.split(',') {
            let f: Vec<&str> = t.split(':').collect();
            if f.len() != 3 {
                return None;
            }
            let kind = match f[0] {
                "i" => Kind::In,
                "o" => Kind::Out,
                "v" => Kind::Var,
                _ => return None,
            };
            let width = u32::from_str_radix(f[1], 16).ok()?;
            let always = match f[2] {
                "0" => false,
                "1" => true,
                _ => return None,
            };
            vs.push(VarInfo { kind, width, always });
        }
    }
    let mut ps = vec![];
    if procs != "-" {
        let mut p = Ps { s: procs.as_bytes(), i: 0 };
        loop {
            match p.peek()? {
                b'k' => {
                    p.i += 1;
                    ps.push(Proc::K(p.block()?));
                }
                b'f' => {
                    p.i += 1;
                    ps.push(Proc::F(p.block()?));
                }
                b'i' => {
                    p.i += 1;
                    p.eat(b'(')?;
                    let o = p.reads()?;
                    p.eat(b'|')?;
                    let r = p.reads()?;
                    p.eat(b')')?;
                    ps.push(Proc::Inst(o, r));
                }
                _ => return None,
            }
            if p.peek() == Some(b';') {
                p.i += 1;
            } else {
                break;
            }
        }
        if p.i != p.s.len() {
            return None;
        }
    }
    Some(Design { vars: vs, procs: ps })
}

// ---- rendering ----------------------------------------------------------------------------------

fn full(w: u32) -> Mask {
    if w >= 128 { Mask::MAX } else { (1u128 << w) - 1 }
}

/// A mask as a single contiguous part-select `[hi:lo]` of a `w`-bit variable.
fn contiguous(m: Mask) -> Option<(u32, u32)> {
    if m == 0 {
        return None;
    }
    let lo = m.trailing_zeros();
    let x = m >> lo;
    let len = x.trailing_ones();
    if len < 128 && (x >> len) != 0 {
        return None;
    }
    Some((lo + len - 1, lo))
}

struct R<'a> {
    d: &'a Design,
    names: Vec<String>,
    lines: Vec<(String, Option<usize>)>, // text, declared variable on this line
    salt: u32,
    err: Option<String>,
    cond_input: usize, // an input usable for conditions / dynamic indices
    cond_width: u32,
}

impl<'a> R<'a> {
    fn sel(&mut self, v: usize, m: Mask) -> String {
        let w = self.d.vars[v].width;
        if m == full(w) {
            return self.names[v].clone();
        }
        match contiguous(m) {
            Some((hi, lo)) if hi < w => {
                if hi == lo {
                    format!("{}[{}]", self.names[v], lo)
                } else {
                    format!("{}[{}:{}]", self.names[v], hi, lo)
                }
            }
            _ => {
                self.err = Some("non-contiguous or out-of-range mask".into());
                self.names[v].clone()
            }
        }
    }
    fn rhs(&mut self, reads: &Reads) -> String {
        self.salt = self.salt.wrapping_mul(31).wrapping_add(11);
        if reads.is_empty() {
            return if self.salt % 3 == 0 {
                "'0".to_string()
            } else {
                // an input bit: inputs are never part of `reads` (nothing depends on them)
                format!("{}[{}]", self.names[self.cond_input], self.salt % self.cond_width)
            };
        }
        let parts: Vec<String> = reads.iter().map(|(v, m)| self.sel(*v, *m)).collect();
        let op = ["^", "|", "&"][(self.salt % 3) as usize];
        format!("({})", parts.join(&format!(" {op} ")))
    }
    fn cond(&mut self, reads: &Reads) -> String {
        self.salt = self.salt.wrapping_mul(31).wrapping_add(5);
        let base = format!("{}[{}]", self.names[self.cond_input], self.salt % self.cond_width);
        if reads.is_empty() {
            base
        } else {
            let parts: Vec<String> = reads.iter().map(|(v, m)| format!("(|{})", self.sel(*v, *m))).collect();
            format!("({} ^ {})", base, parts.join(" ^ "))
        }
    }
    fn push(&mut self, ind: usize, s: String) {
        self.lines.push((format!("{}{}", " ".repeat(ind), s), None));
    }
    fn block(&mut self, b: &[Stmt], ind: usize) {
        let mut i = 0;
        while i < b.len() {
            // `for` sugar: a run of single-bit constant writes to consecutive bits without reads
            if let Stmt::A(r, d, m, false) = &b[i] {
                if r.is_empty() && m.count_ones() == 1 {
                    let lo = m.trailing_zeros();
                    let mut j = i + 1;
                    while j < b.len() {
                        match &b[j] {
                            Stmt::A(r2, d2, m2, false) if r2.is_empty() && d2 == d && *m2 == (1u128 << (lo + (j - i) as u32)) => j += 1,
                            _ => break,
                        }
                    }
                    let hi = lo + (j - i) as u32;
                    if j - i >= 2 && hi <= self.d.vars[*d].width && hi <= self.cond_width {
                        let nm = self.names[*d].clone();
                        let src = self.names[self.cond_input].clone();
                        self.salt = self.salt.wrapping_add(1);
                        let k = format!("k{}", self.salt % 1000);
                        self.push(ind, format!("for {k} in {lo}..{hi} {{"));
                        self.push(ind + 4, format!("{nm}[{k}] = {src}[{k}];"));
                        self.push(ind, "}".into());
                        i = j;
                        continue;
                    }
                }
            }
            match &b[i] {
                Stmt::A(r, d, m, dy) => {
                    let rhs = self.rhs(r);
                    if *dy {
                        let w = self.d.vars[*d].width;
                        if *m != full(w) || w < 2 {
                            self.err = Some("dynamic write must cover the variable".into());
                        }
                        // index wide enough to address every bit is not required; any non-constant index
                        let iw = (32 - (w - 1).leading_zeros()).max(1).min(self.cond_width);
                        let idx = if iw == 1 {
                            format!("{}[0]", self.names[self.cond_input])
                        } else {
                            format!("{}[{}:0]", self.names[self.cond_input], iw - 1)
                        };
                        let nm = self.names[*d].clone();
                        self.push(ind, format!("{nm}[{idx}] = {rhs};"));
                    } else {
                        let dst = self.sel(*d, *m);
                        self.push(ind, format!("{dst} = {rhs};"));
                    }
                }
                Stmt::I(..) => {
                    // an if whose else block is exactly one `if` is a chain: `else if` or `switch`
                    let mut chain: Vec<(&Reads, &Vec<Stmt>)> = vec![];
                    let mut cur = &b[i];
                    let tail: &Vec<Stmt>;
                    loop {
                        if let Stmt::I(r, t, e) = cur {
                            chain.push((r, t));
                            if e.len() == 1 && matches!(e[0], Stmt::I(..)) {
                                cur = &e[0];
                                continue;
                            }
                            tail = e;
                            break;
                        }
                        unreachable!();
                    }
                    self.salt = self.salt.wrapping_mul(31).wrapping_add(3);
                    let as_switch = chain.len() >= 2 && self.salt % 2 == 0;
                    if as_switch {
                        self.push(ind, "switch {".into());
                        for (r, t) in &chain {
                            let c = self.cond(r);
                            self.push(ind + 4, format!("{c}: {{"));
                            self.block(t, ind + 8);
                            self.push(ind + 4, "}".into());
                        }
                        if !tail.is_empty() {
                            self.push(ind + 4, "default: {".into());
                            self.block(tail, ind + 8);
                            self.push(ind + 4, "}".into());
                        }
                        self.push(ind, "}".into());
                    } else {
                        for (k, (r, t)) in chain.iter().enumerate() {
                            let c = self.cond(r);
                            if k == 0 {
                                self.push(ind, format!("if {c} {{"));
                            } else {
                                self.push(ind, format!("}} else if {c} {{"));
                            }
                            self.block(t, ind + 4);
                        }
                        if !tail.is_empty() {
                            self.push(ind, "} else {".into());
                            self.block(tail, ind + 4);
                        }
                        self.push(ind, "}".into());
                    }
                }
                Stmt::C(r, exh, arms, dflt) => {
                    // target: low bits of the condition input; exhaustive = 2 or 4 arms covering 1 or 2 bits
                    let n = arms.len();
                    let bits = if *exh {
                        match n {
                            2 => 1,
                            4 => 2,
                            _ => {
                                self.err = Some("exhaustive case needs 2 or 4 arms".into());
                                1
                            }
                        }
                    } else {
                        3
                    };
                    if *exh && !dflt.is_empty() {
                        self.err = Some("exhaustive case with default".into());
                    }
                    if bits > self.cond_width || n > 7 || n == 0 {
                        self.err = Some("case shape".into());
                    }
                    let src = self.names[self.cond_input].clone();
                    let mut tgt = if bits == 1 { format!("{src}[0]") } else { format!("{src}[{}:0]", bits - 1) };
                    if !r.is_empty() {
                        // extra reads in the target: xor in a reduction, replicated to the width
                        let parts: Vec<String> = r.iter().map(|(v, m)| format!("(|{})", self.sel(*v, *m))).collect();
                        tgt = format!("({tgt} ^ {{({}) repeat {bits}}})", parts.join(" ^ "));
                    }
                    self.push(ind, format!("case {tgt} {{"));
                    for (k, a) in arms.iter().enumerate() {
                        self.push(ind + 4, format!("{bits}'d{k}: {{"));
                        self.block(a, ind + 8);
                        self.push(ind + 4, "}".into());
                    }
                    // an empty default is left out (the converter adds the empty default branch itself)
                    if !dflt.is_empty() {
                        self.push(ind + 4, "default: {".into());
                        self.block(dflt, ind + 8);
                        self.push(ind + 4, "}".into());
                    }
                    self.push(ind, "}".into());
                }
            }
            i += 1;
        }
    }
}

fn stmt_vars(b: &[Stmt], f: &mut dyn FnMut(usize, bool)) {
    for s in b {
        match s {
            Stmt::A(r, d, _, _) => {
                for (v, _) in r {
                    f(*v, false);
                }
                f(*d, true);
            }
            Stmt::I(r, t, e) => {
                for (v, _) in r {
                    f(*v, false);
                }
                stmt_vars(t, f);
                stmt_vars(e, f);
            }
            Stmt::C(r, _, arms, d) => {
                for (v, _) in r {
                    f(*v, false);
                }
                for a in arms {
                    stmt_vars(a, f);
                }
                stmt_vars(d, f);
            }
        }
    }
}

struct Rendered {
    src: String,
    decl_line: BTreeMap<usize, usize>, // line -> variable declared there
    names: Vec<String>,
}

fn render(d: &Design) -> Result<Rendered, String> {
    let n = d.vars.len();
    // every index in range; always-local variables live in exactly one always block
    let mut home: Vec<BTreeSet<usize>> = vec![BTreeSet::new(); n];
    let mut bad = None;
    for (pi, p) in d.procs.iter().enumerate() {
        match p {
            Proc::K(b) | Proc::F(b) => stmt_vars(b, &mut |v, w| {
                if v >= n {
                    bad = Some("variable index");
                } else {
                    home[v].insert(pi);
                    if w && d.vars[v].kind == Kind::In {
                        bad = Some("write to an input");
                    }
                }
            }),
            Proc::Inst(o, r) => {
                for (v, _) in o.iter().chain(r.iter()) {
                    if *v >= n {
                        bad = Some("variable index");
                    } else {
                        home[*v].insert(usize::MAX);
                    }
                }
                for (v, _) in o {
                    if *v < n && d.vars[*v].kind == Kind::In {
                        bad = Some("write to an input");
                    }
                }
                if o.is_empty() && r.is_empty() {
                    bad = Some("empty inst");
                }
            }
        }
    }
    if let Some(b) = bad {
        return Err(b.into());
    }
    // the condition input: the widest input (needs >= 3 bits)
    let mut ci = None;
    for (v, x) in d.vars.iter().enumerate() {
        if x.kind == Kind::In && !x.always && ci.map(|c: usize| d.vars[c].width < x.width).unwrap_or(true) {
            ci = Some(v);
        }
    }
    let ci = ci.ok_or("no input")?;
    if d.vars[ci].width < 3 {
        return Err("condition input too narrow".into());
    }
    let mut names = vec![];
    for (v, x) in d.vars.iter().enumerate() {
        if x.width == 0 || x.width > 128 {
            return Err("width".into());
        }
        names.push(match (x.kind, x.always) {
            (Kind::In, false) => format!("in_{v}"),
            (Kind::Out, false) => format!("out_{v}"),
            (Kind::Var, false) => format!("w_{v}"),
            (Kind::Var, true) => format!("t_{v}"),
            _ => return Err("only variables can be block-local".into()),
        });
        if x.always {
            if home[v].len() > 1 || home[v].contains(&usize::MAX) {
                return Err("block-local variable used outside its block".into());
            }
            match home[v].iter().next() {
                Some(pi) => {
                    if !matches!(d.procs[*pi], Proc::K(_) | Proc::F(_)) {
                        return Err("block-local variable".into());
                    }
                }
                None => return Err("block-local variable without a block".into()),
            }
        }
    }
    let mut r = R { d, names: names.clone(), lines: vec![], salt: 7, err: None, cond_input: ci, cond_width: d.vars[ci].width };
    r.lines.push(("module Top (".into(), None));
    r.lines.push(("    clk: input clock,".into(), None));
    for (v, x) in d.vars.iter().enumerate() {
        match x.kind {
            Kind::In => r.lines.push((format!("    in_{v}: input logic<{}>,", x.width), Some(v))),
            Kind::Out => r.lines.push((format!("    out_{v}: output logic<{}>,", x.width), Some(v))),
            Kind::Var => {}
        }
    }
    r.lines.push((") {".into(), None));
    for (v, x) in d.vars.iter().enumerate() {
        if x.kind == Kind::Var && !x.always {
            r.lines.push((format!("    var w_{v}: logic<{}>;", x.width), Some(v)));
        }
    }
    let mut subs = String::new();
    for (pi, p) in d.procs.iter().enumerate() {
        match p {
            Proc::K(b) => {
                let single = b.len() == 1 && matches!(b[0], Stmt::A(..)) && pi % 2 == 0 && !home.iter().enumerate().any(|(v, h)| d.vars[v].always && h.contains(&pi));
                if single {
                    if let Stmt::A(rd, dst, m, dy) = &b[0] {
                        let rhs = r.rhs(rd);
                        if *dy {
                            r.err = Some("dynamic assign declaration".into());
                        }
                        let dst = r.sel(*dst, *m);
                        r.push(4, format!("assign {dst} = {rhs};"));
                    }
                } else {
                    r.push(4, "always_comb {".into());
                    for (v, x) in d.vars.iter().enumerate() {
                        if x.always && home[v].contains(&pi) {
                            r.lines.push((format!("        var t_{v}: logic<{}>;", x.width), Some(v)));
                        }
                    }
                    r.block(b, 8);
                    r.push(4, "}".into());
                }
            }
            Proc::F(b) => {
                r.push(4, "always_ff (clk) {".into());
                for (v, x) in d.vars.iter().enumerate() {
                    if x.always && home[v].contains(&pi) {
                        r.lines.push((format!("        var t_{v}: logic<{}>;", x.width), Some(v)));
                    }
                }
                r.block(b, 8);
                r.push(4, "}".into());
            }
            Proc::Inst(outs, ins) => {
                r.push(4, format!("inst u_{pi}: Sub_{pi} ("));
                let mut ports = vec![];
                let mut body = vec![];
                for (k, (v, m)) in ins.iter().enumerate() {
                    let e = r.sel(*v, *m);
                    r.push(8, format!("x_{k}: {e},"));
                    ports.push(format!("    x_{k}: input logic<{}>,", m.count_ones()));
                }
                for (k, (v, m)) in outs.iter().enumerate() {
                    let e = r.sel(*v, *m);
                    r.push(8, format!("y_{k}: {e},"));
                    ports.push(format!("    y_{k}: output logic<{}>,", m.count_ones()));
                    body.push(format!("    assign y_{k} = '0;"));
                }
                r.push(4, ");".into());
                write!(subs, "module Sub_{pi} (\n{}\n) {{\n{}\n}}\n", ports.join("\n"), body.join("\n")).unwrap();
            }
        }
    }
    r.lines.push(("}".into(), None));
    if let Some(e) = r.err {
        return Err(e);
    }
    let mut src = String::new();
    let mut decl_line = BTreeMap::new();
    for (i, (l, v)) in r.lines.iter().enumerate() {
        src.push_str(l);
        src.push('\n');
        if let Some(v) = v {
            decl_line.insert(i, *v);
        }
    }
    src.push_str(&subs);
    Ok(Rendered { src, decl_line, names })
}

// ---- real analyzer ------------------------------------------------------------------------------

#[derive(Default, Clone, PartialEq, Eq, Debug)]
pub struct Verdicts {
    pub m: BTreeSet<usize>,
    pub u: BTreeSet<usize>,
    pub x: BTreeSet<usize>,
    pub r: BTreeSet<usize>,
}

fn show(s: &BTreeSet<usize>) -> String {
    format!("[{}]", s.iter().map(|v| format!("{v:x}")).collect::<Vec<_>>().join(","))
}

fn run_design(d: &Design, other: &mut BTreeSet<String>) -> Result<Verdicts, String> {
    let r = render(d)?;
    if std::env::var("HX_DUMP").is_ok() {
        eprintln!("{}", r.src);
    }
    let errors = analyze(&r.src).map_err(|e| {
        if std::env::var("HX_DUMP").is_ok() {
            eprintln!("{e}");
        }
        if e == "panic" { "panic".to_string() } else { "err".to_string() }
    })?;
    let mut starts = vec![0usize];
    for (i, b) in r.src.bytes().enumerate() {
        if b == b'\n' {
            starts.push(i + 1);
        }
    }
    let line_of = |off: usize| match starts.binary_search(&off) {
        Ok(i) => i,
        Err(i) => i - 1,
    };
    let top_end = r.src.find("\n}\n").map(|p| line_of(p) + 1).unwrap_or(usize::MAX);
    let by_name = |name: &str| -> Option<usize> {
        let base = name.split('[').next().unwrap_or(name);
        r.names.iter().position(|n| n == base)
    };
    let mut out = Verdicts::default();
    for e in &errors {
        match e {
            AnalyzerError::MultipleAssignment { identifier, .. } => {
                if let Some(v) = by_name(identifier) {
                    out.m.insert(v);
                } else {
                    other.insert("MultipleAssignment(foreign)".into());
                }
            }
            AnalyzerError::UncoveredBranch { identifier, .. } => {
                if let Some(v) = by_name(identifier) {
                    out.u.insert(v);
                } else {
                    other.insert("UncoveredBranch(foreign)".into());
                }
            }
            AnalyzerError::UnassignVariable { identifier, error_location, .. } => {
                let line = line_of(error_location.offset());
                if line > top_end {
                    other.insert("UnassignVariable(foreign)".into());
                } else if let Some(v) = by_name(identifier) {
                    if r.decl_line.get(&line) == Some(&v) {
                        out.x.insert(v);
                    } else {
                        out.r.insert(v);
                    }
                }
            }
            x => {
                let s = format!("{x:?}");
                other.insert(s.split([' ', '{', '(']).next().unwrap_or("").to_string());
            }
        }
    }
    Ok(out)
}

// ---- oracle -------------------------------------------------------------------------------------

fn writes_of(b: &[Stmt], v: usize, out: &mut Vec<(Mask, bool)>) {
    for s in b {
        match s {
            Stmt::A(_, d, m, dy) => {
                if *d == v {
                    out.push((*m, *dy));
                }
            }
            Stmt::I(_, t, e) => {
                writes_of(t, v, out);
                writes_of(e, v, out);
            }
            Stmt::C(_, _, arms, d) => {
                for a in arms {
                    writes_of(a, v, out);
                }
                writes_of(d, v, out);
            }
        }
    }
}

fn proc_writes(p: &Proc, v: usize) -> Vec<(Mask, bool)> {
    let mut w = vec![];
    match p {
        Proc::K(b) | Proc::F(b) => writes_of(b, v, &mut w),
        Proc::Inst(o, _) => {
            for (d, m) in o {
                if *d == v {
                    w.push((*m, false));
                }
            }
        }
    }
    w
}

/// Per-bit driver sets: for every bit the processes that write it at a constant position; a
/// dynamic write drives (possibly) every bit of its region.
fn oracle_multi(d: &Design, v: usize) -> bool {
    let w = d.vars[v].width;
    let per_proc: Vec<Vec<(Mask, bool)>> = d.procs.iter().map(|p| proc_writes(p, v)).collect();
    for bit in 0..w.min(128) {
        let b = 1u128 << bit;
        let mut const_drivers = 0;
        let mut dyn_drivers = 0;
        let mut any_drivers = 0;
        for pw in &per_proc {
            let c = pw.iter().any(|(m, dy)| !dy && m & b != 0);
            let dn = pw.iter().any(|(m, dy)| *dy && m & b != 0);
            if c {
                const_drivers += 1;
            }
            if dn {
                dyn_drivers += 1;
            }
            if c || dn {
                any_drivers += 1;
            }
        }
        if const_drivers >= 2 || (dyn_drivers >= 1 && any_drivers >= 2) {
            return true;
        }
    }
    false
}

/// Masks written on each execution path.
fn paths(b: &[Stmt], v: usize) -> Vec<Mask> {
    let mut acc: Vec<Mask> = vec![0];
    for s in b {
        let here: Vec<Mask> = match s {
            Stmt::A(_, d, m, _) => vec![if *d == v { *m } else { 0 }],
            Stmt::I(_, t, e) => {
                let mut x = paths(t, v);
                x.extend(paths(e, v));
                x
            }
            Stmt::C(_, exh, arms, dflt) => {
                let mut x = vec![];
                for a in arms {
                    x.extend(paths(a, v));
                }
                if !*exh {
                    x.extend(paths(dflt, v));
                }
                x
            }
        };
        let mut next = BTreeSet::new();
        for a in &acc {
            for h in &here {
                next.insert(a | h);
            }
        }
        acc = next.into_iter().collect();
        if acc.len() > 4096 {
            acc.truncate(4096);
        }
    }
    acc
}

fn oracle_uncovered(d: &Design, v: usize) -> bool {
    if d.vars[v].always {
        return false; // block-local variables are exempt by design
    }
    d.procs.iter().any(|p| match p {
        Proc::K(b) => paths(b, v).len() > 1,
        _ => false,
    })
}

fn reads_of(b: &[Stmt], v: usize, with_conds: bool) -> Mask {
    let mut m = 0;
    for s in b {
        match s {
            Stmt::A(r, ..) => {
                for (x, k) in r {
                    if *x == v {
                        m |= k;
                    }
                }
            }
            Stmt::I(r, t, e) => {
                if with_conds {
                    for (x, k) in r {
                        if *x == v {
                            m |= k;
                        }
                    }
                }
                m |= reads_of(t, v, with_conds) | reads_of(e, v, with_conds);
            }
            Stmt::C(r, _, arms, dflt) => {
                if with_conds {
                    for (x, k) in r {
                        if *x == v {
                            m |= k;
                        }
                    }
                }
                for a in arms {
                    m |= reads_of(a, v, with_conds);
                }
                m |= reads_of(dflt, v, with_conds);
            }
        }
    }
    m
}

fn assigned_mask(d: &Design, v: usize) -> Mask {
    d.procs.iter().flat_map(|p| proc_writes(p, v)).fold(0, |a, (m, _)| a | m)
}

fn read_mask(d: &Design, v: usize, with_hidden: bool) -> Mask {
    let mut m = 0;
    for p in &d.procs {
        match p {
            Proc::K(b) | Proc::F(b) => m |= reads_of(b, v, with_hidden),
            Proc::Inst(_, ins) => {
                if with_hidden {
                    for (x, k) in ins {
                        if *x == v {
                            m |= k;
                        }
                    }
                }
            }
        }
    }
    m
}

/// Some bit that some logic reads (an output's bits are read by the parent) is assigned nowhere.
fn oracle_unassigned(d: &Design, v: usize, with_hidden: bool) -> bool {
    let x = &d.vars[v];
    if x.kind == Kind::In {
        return false;
    }
    let f = full(x.width);
    let mut reads = read_mask(d, v, with_hidden);
    if x.kind == Kind::Out {
        reads |= f;
    }
    reads & f & !assigned_mask(d, v) != 0
}

fn straight_line(b: &[Stmt]) -> bool {
    b.iter().all(|s| matches!(s, Stmt::A(..)))
}

/// Read-before-assign on straight-line always_comb blocks: a bit is read, not assigned before, and
/// assigned later in the same block. `None` if some comb block writing `v` has branches.
fn oracle_read_before(d: &Design, v: usize) -> Option<bool> {
    let mut res = false;
    for p in &d.procs {
        if let Proc::K(b) = p {
            let mut w = vec![];
            writes_of(b, v, &mut w);
            if w.is_empty() {
                continue;
            }
            if !straight_line(b) {
                return None;
            }
            let mut read_unassigned: Mask = 0;
            let mut assigned: Mask = 0;
            for s in b {
                if let Stmt::A(r, dst, m, _) = s {
                    for (x, k) in r {
                        if *x == v {
                            read_unassigned |= k & !assigned;
                        }
                    }
                    if *dst == v {
                        if read_unassigned & m & !assigned != 0 {
                            res = true;
                        }
                        assigned |= m;
                    }
                }
            }
        }
    }
    Some(res)
}

// ---- generator ----------------------------------------------------------------------------------

const WIDTHS: [u32; 12] = [1, 2, 3, 4, 8, 8, 8, 8, 16, 33, 64, 65];

struct Gen<'a> {
    rng: &'a mut Rng,
    vars: Vec<VarInfo>,
    writable: Vec<usize>,
}

impl<'a> Gen<'a> {
    fn part(&mut self, v: usize) -> Mask {
        let w = self.vars[v].width;
        match self.rng.below(8) {
            0..=3 => full(w),
            4 => 1u128 << self.rng.below(w as u64),
            5 => {
                // lower or upper half
                if w < 2 {
                    full(w)
                } else if self.rng.chance(1, 2) {
                    full(w / 2)
                } else {
                    full(w) & !full(w / 2)
                }
            }
            _ => {
                let lo = self.rng.below(w as u64) as u32;
                let hi = self.rng.range(lo as u64, (w - 1) as u64) as u32;
                full(hi + 1) & !full(lo)
            }
        }
    }
    fn reads(&mut self, p: u64) -> Reads {
        let mut r = vec![];
        while self.rng.chance(p, 10) && r.len() < 3 && !self.writable.is_empty() {
            let v = *self.rng.pick(&self.writable.clone());
            let m = self.part(v);
            r.push((v, m));
        }
        r
    }
    fn block(&mut self, depth: u64, dsts: &[usize]) -> Vec<Stmt> {
        let n = self.rng.range(if depth == 0 { 1 } else { 0 }, 3);
        let mut b = vec![];
        for _ in 0..n {
            let k = if depth == 0 { self.rng.below(6) } else { self.rng.below(10) };
            match k {
                0..=4 => {
                    let d = *self.rng.pick(dsts);
                    let w = self.vars[d].width;
                    if self.rng.chance(1, 12) && w >= 2 {
                        let r = self.reads(3);
                        b.push(Stmt::A(r, d, full(w), true));
                    } else if self.rng.chance(1, 8) && w >= 3 {
                        // a run of single-bit writes (rendered as a `for` loop)
                        let lo = self.rng.below((w - 1) as u64) as u32;
                        let hi = self.rng.range((lo + 2) as u64, w.min(lo + 8) as u64) as u32;
                        for k in lo..hi {
                            b.push(Stmt::A(vec![], d, 1u128 << k, false));
                        }
                    } else {
                        let m = self.part(d);
                        let r = self.reads(3);
                        b.push(Stmt::A(r, d, m, false));
                    }
                }
                5 => {
                    let r = self.reads(3);
                    let d = *self.rng.pick(dsts);
                    b.push(Stmt::A(r, d, full(self.vars[d].width), false));
                }
                6..=7 => {
                    let c = self.reads(1);
                    let t = self.block(depth - 1, dsts);
                    let e = if self.rng.chance(3, 5) { self.block(depth - 1, dsts) } else { vec![] };
                    b.push(Stmt::I(c, t, e));
                }
                _ => {
                    let c = self.reads(1);
                    let exh = self.rng.chance(1, 4);
                    let n = if exh { *self.rng.pick(&[2usize, 4]) } else { self.rng.range(1, 3) as usize };
                    let arms = (0..n).map(|_| self.block(depth - 1, dsts)).collect();
                    let d = if exh || self.rng.chance(1, 3) { vec![] } else { self.block(depth - 1, dsts) };
                    b.push(Stmt::C(c, exh, arms, d));
                }
            }
        }
        b
    }
}

/// The "read before assign" shape family: one always_comb over a fresh variable `a` and a fresh
/// output `o` — partial writes of `a`, reads of *other* sub-ranges of `a` (into `o`, or back into
/// `a`), later wider / covering writes, in sequence and inside branches. These are the shapes on
/// which the two terms of `check_refered` (`ref & mask != 0`, `ref & mask & assign == 0`) disagree
/// with their neighbours (`mask & assign == 0`, `ref & mask & !assign != 0`, …).
fn rba_steps(g: &mut Gen, a: usize, o: usize, w: u32, depth: u64) -> Vec<Stmt> {
    fn sub(g: &mut Gen, w: u32) -> Mask {
        match g.rng.below(6) {
            0 => full(w),
            1..=2 => 1u128 << g.rng.below(w as u64),
            _ => {
                let lo = g.rng.below(w as u64) as u32;
                let hi = g.rng.range(lo as u64, (w - 1).min(lo + 3) as u64) as u32;
                full(hi + 1) & !full(lo)
            }
        }
    }
    let n = g.rng.range(2, 5);
    let mut b = vec![];
    for _ in 0..n {
        match g.rng.below(9) {
            0..=2 => {
                let m = sub(g, w);
                b.push(Stmt::A(vec![], a, m, false));
            }
            3..=4 => {
                let r = sub(g, w);
                let m = sub(g, w);
                b.push(Stmt::A(vec![(a, r)], o, m, false));
            }
            5 => {
                // a wider write: from bit 0 up to a random bit, or everything
                let m = if g.rng.chance(1, 2) { full(w) } else { full(g.rng.range(1, w as u64) as u32) };
                b.push(Stmt::A(vec![], a, m, false));
            }
            6 => {
                let r = sub(g, w);
                let m = sub(g, w);
                b.push(Stmt::A(vec![(a, r)], a, m, false));
            }
            _ => {
                if depth > 0 {
                    let t = rba_steps(g, a, o, w, depth - 1);
                    let e = if g.rng.chance(1, 2) { rba_steps(g, a, o, w, depth - 1) } else { vec![] };
                    if g.rng.chance(2, 3) {
                        b.push(Stmt::I(vec![], t, e));
                    } else {
                        b.push(Stmt::C(vec![], false, vec![t], e));
                    }
                }
            }
        }
    }
    if g.rng.chance(1, 2) {
        b.push(Stmt::A(vec![], a, full(w), false));
    }
    b
}

fn rba_family(g: &mut Gen, procs: &mut Vec<Proc>) {
    let w = *g.rng.pick(&[2u32, 2, 3, 4, 8, 8, 16, 33]);
    let a = g.vars.len();
    g.vars.push(VarInfo { kind: Kind::Var, width: w, always: false });
    let o = g.vars.len();
    g.vars.push(VarInfo { kind: Kind::Out, width: w, always: false });
    let b = rba_steps(g, a, o, w, 2);
    procs.push(Proc::K(b));
}

fn gen_design(rng: &mut Rng) -> Design {
    let nvar = rng.range(3, 7) as usize;
    let mut vars = vec![VarInfo { kind: Kind::In, width: *rng.pick(&[8u32, 8, 16, 64, 65]), always: false }];
    for _ in 1..nvar {
        let kind = match rng.below(6) {
            0 => Kind::In,
            1..=2 => Kind::Out,
            _ => Kind::Var,
        };
        let width = *rng.pick(&WIDTHS);
        vars.push(VarInfo { kind, width, always: false });
    }
    let writable: Vec<usize> = (0..nvar).filter(|v| vars[*v].kind != Kind::In).collect();
    let mut g = Gen { rng, vars, writable: writable.clone() };
    let mut procs = vec![];
    if writable.is_empty() {
        return Design { vars: g.vars, procs };
    }
    let np = g.rng.range(1, 5);
    // every process owns some of the writable variables; now and then it also writes another one
    let mut owner: Vec<Vec<usize>> = vec![vec![]; np as usize];
    for v in &writable {
        if g.rng.chance(9, 10) {
            let o = g.rng.below(np) as usize;
            owner[o].push(*v);
        }
    }
    for pi in 0..np as usize {
        let k = g.rng.below(10);
        let mut dsts = owner[pi].clone();
        if dsts.is_empty() && g.rng.chance(5, 6) {
            continue;
        }
        if dsts.is_empty() || (np > 1 && g.rng.chance(1, 12)) {
            dsts.push(*g.rng.pick(&writable));
        }
        if dsts.len() > 2 && k >= 8 {
            dsts.truncate(2);
        }
        match k {
            0..=2 => {
                let d = dsts[0];
                let m = g.part(d);
                let r = g.reads(4);
                procs.push(Proc::K(vec![Stmt::A(r, d, m, false)]));
            }
            3..=6 => {
                let mut b = vec![];
                // default assignments first (the usual idiom; they become the base of later branches)
                for d in &dsts {
                    if g.rng.chance(1, 2) {
                        b.push(Stmt::A(vec![], *d, full(g.vars[*d].width), false));
                    }
                }
                b.extend(g.block(2, &dsts));
                procs.push(Proc::K(b));
            }
            7 => {
                let b = g.block(1, &dsts);
                procs.push(Proc::F(b));
            }
            _ => {
                let mut outs = vec![];
                for d in &dsts {
                    let m = g.part(*d);
                    outs.push((*d, m));
                }
                let ins = g.reads(5);
                procs.push(Proc::Inst(outs, ins));
            }
        }
    }
    // most variables nobody wrote get a driver of their own
    for v in &writable {
        let written = procs.iter().any(|p| !proc_writes(p, *v).is_empty());
        if !written && g.rng.chance(4, 5) {
            let m = if g.rng.chance(3, 4) { full(g.vars[*v].width) } else { g.part(*v) };
            let r = g.reads(2);
            procs.push(Proc::K(vec![Stmt::A(r, *v, m, false)]));
        }
    }
    // the read-before-assign shape family, in a third of the designs
    if g.rng.chance(1, 3) {
        rba_family(&mut g, &mut procs);
    }
    // a sink output that reads (parts of) most internal variables
    if g.rng.chance(9, 10) {
        let mut r = vec![];
        for v in 0..g.vars.len() {
            if g.vars[v].kind == Kind::Var && g.rng.chance(9, 10) {
                let m = if g.rng.chance(2, 3) { full(g.vars[v].width) } else { g.part(v) };
                r.push((v, m));
            }
        }
        let sink = g.vars.len();
        g.vars.push(VarInfo { kind: Kind::Out, width: 8, always: false });
        procs.push(Proc::K(vec![Stmt::A(r, sink, full(8), false)]));
    }
    // a block-local variable now and then
    if g.rng.chance(1, 6) {
        let v = g.vars.len();
        let w = *g.rng.pick(&[4u32, 8]);
        for p in procs.iter_mut() {
            if let Proc::K(b) = p {
                if b.len() != 1 || !matches!(b[0], Stmt::A(..)) {
                    g.vars.push(VarInfo { kind: Kind::Var, width: w, always: true });
                    let c = vec![];
                    b.insert(0, Stmt::I(c, vec![Stmt::A(vec![], v, full(w), false)], vec![]));
                    b.push(Stmt::A(vec![(v, full(w))], *g.rng.pick(&writable), 1, false));
                    break;
                }
            }
        }
    }
    Design { vars: g.vars, procs }
}

// ---- classification of the known deviation classes (signatures verified here) ------------------

/// `uncovered_branch` although every path writes the same bits: is there, in some always_comb
/// block, a branching statement that writes `v` followed (in the same block) by an unconditional
/// write to `v`?
fn has_later_unconditional_write(b: &[Stmt], v: usize) -> bool {
    let mut seen_branch_write = false;
    for s in b {
        match s {
            Stmt::A(_, d, _, _) => {
                if *d == v && seen_branch_write {
                    return true;
                }
            }
            Stmt::I(_, t, e) => {
                if has_later_unconditional_write(t, v) || has_later_unconditional_write(e, v) {
                    return true;
                }
                let mut w = vec![];
                writes_of(t, v, &mut w);
                writes_of(e, v, &mut w);
                if !w.is_empty() {
                    seen_branch_write = true;
                }
            }
            Stmt::C(_, _, arms, d) => {
                if arms.iter().any(|a| has_later_unconditional_write(a, v)) || has_later_unconditional_write(d, v) {
                    return true;
                }
                let mut w = vec![];
                for a in arms {
                    writes_of(a, v, &mut w);
                }
                writes_of(d, v, &mut w);
                if !w.is_empty() {
                    seen_branch_write = true;
                }
            }
        }
    }
    false
}

fn has_exhaustive_case_writing(b: &[Stmt], v: usize) -> bool {
    b.iter().any(|s| match s {
        Stmt::A(..) => false,
        Stmt::I(_, t, e) => has_exhaustive_case_writing(t, v) || has_exhaustive_case_writing(e, v),
        Stmt::C(_, exh, arms, d) => {
            let mut w = vec![];
            for a in arms {
                writes_of(a, v, &mut w);
            }
            (*exh && !w.is_empty()) || arms.iter().any(|a| has_exhaustive_case_writing(a, v)) || has_exhaustive_case_writing(d, v)
        }
    })
}

/// A later write in the same block as a branching statement (conditional or not).
fn has_later_write_after_branch(b: &[Stmt], v: usize) -> bool {
    let mut seen = false;
    for s in b {
        let mut w = vec![];
        writes_of(std::slice::from_ref(s), v, &mut w);
        let branching = !matches!(s, Stmt::A(..));
        if seen && !w.is_empty() {
            return true;
        }
        if branching && !w.is_empty() {
            seen = true;
        }
        match s {
            Stmt::A(..) => {}
            Stmt::I(_, t, e) => {
                if has_later_write_after_branch(t, v) || has_later_write_after_branch(e, v) {
                    return true;
                }
            }
            Stmt::C(_, _, arms, d) => {
                if arms.iter().any(|a| has_later_write_after_branch(a, v)) || has_later_write_after_branch(d, v) {
                    return true;
                }
            }
        }
    }
    false
}

fn classify_uncovered_fp(d: &Design, v: usize) -> &'static str {
    let mut later = false;
    let mut later_any = false;
    let mut exh = false;
    for p in &d.procs {
        if let Proc::K(b) = p {
            later |= has_later_unconditional_write(b, v);
            later_any |= has_later_write_after_branch(b, v);
            exh |= has_exhaustive_case_writing(b, v);
        }
    }
    match (later, later_any, exh) {
        (true, _, false) => "later-unconditional-write",
        (false, true, false) => "later-write",
        (false, false, true) => "exhaustive-case-without-default",
        (_, true, true) => "later-write+exhaustive-case",
        _ => "unclassified",
    }
}

fn classify_read_before(d: &Design, v: usize) -> &'static str {
    // a write whose mask meets both already-assigned read bits and not-yet-assigned read bits
    for p in &d.procs {
        if let Proc::K(b) = p {
            if !straight_line(b) {
                continue;
            }
            let mut reads: Mask = 0;
            let mut assigned: Mask = 0;
            for s in b {
                if let Stmt::A(r, dst, m, _) = s {
                    for (x, k) in r {
                        if *x == v {
                            reads |= k;
                        }
                    }
                    if *dst == v {
                        if reads & m & assigned != 0 && reads & m & !assigned != 0 {
                            return "partially-assigned-mask";
                        }
                        assigned |= m;
                    }
                }
            }
        }
    }
    "unclassified"
}

// ---- main ---------------------------------------------------------------------------------------

fn process(d: &Design, log: &mut Log, replay_op: Option<&str>, all_notes: &mut Vec<String>) -> bool {
    let vars = d.vars_str();
    let procs = d.procs_str();
    let mut other = BTreeSet::new();
    let out = match run_design(d, &mut other) {
        Ok(o) => o,
        Err(e) => {
            log.count(&format!("outcome.{}", e.split(' ').next().unwrap_or("")));
            if std::env::var("HX_DUMP").is_ok() {
                eprintln!("not comparable: {e}");
            }
            return false;
        }
    };
    log.count("analyzed");
    for e in &other {
        log.count(&format!("other_diag.{e}"));
    }
    let n = d.vars.len();
    let om: BTreeSet<usize> = (0..n).filter(|v| oracle_multi(d, *v)).collect();
    let ou: BTreeSet<usize> = (0..n).filter(|v| oracle_uncovered(d, *v)).collect();
    let ox: BTreeSet<usize> = (0..n).filter(|v| oracle_unassigned(d, *v, true)).collect();
    // R: only when every variable has a straight-line verdict
    let or_: Option<BTreeSet<usize>> = {
        let all: Vec<Option<bool>> = (0..n).map(|v| oracle_read_before(d, v)).collect();
        if all.iter().all(|x| x.is_some()) {
            Some((0..n).filter(|v| all[*v] == Some(true)).collect())
        } else {
            None
        }
    };
    // annotations for deviations: class per (kind, variable), verified structurally
    let mut notes = vec![];
    for v in out.u.difference(&ou) {
        notes.push(format!("U{v:x}=fp:{}", classify_uncovered_fp(d, *v)));
    }
    for v in ou.difference(&out.u) {
        notes.push(format!("U{v:x}=fn:unclassified"));
    }
    for v in ox.difference(&out.x) {
        // would the verdict be explained by reads the analyzer does not record (conditions, case
        // targets, instance inputs)?
        let cls = if !oracle_unassigned(d, *v, false) { "hidden-read-not-counted" } else { "unclassified" };
        notes.push(format!("X{v:x}=fn:{cls}"));
    }
    for v in out.x.difference(&ox) {
        let x = &d.vars[*v];
        let cls = if assigned_mask(d, *v) & full(x.width) == 0 && read_mask(d, *v, true) & full(x.width) == 0 && x.kind == Kind::Var {
            "unread-never-assigned"
        } else {
            "unclassified"
        };
        notes.push(format!("X{v:x}=fp:{cls}"));
    }
    if let Some(or_) = &or_ {
        for v in or_.difference(&out.r) {
            notes.push(format!("R{v:x}=fn:{}", classify_read_before(d, *v)));
        }
        for v in out.r.difference(or_) {
            notes.push(format!("R{v:x}=fp:unclassified"));
        }
    }
    for x in &notes {
        let cls = x.split('=').nth(1).unwrap_or("");
        log.count(&format!("deviation.{}.{}", &x[..1], cls));
    }
    if !out.m.is_empty() {
        log.count("verdict.multi");
    }
    if !out.u.is_empty() {
        log.count("verdict.uncovered");
    }
    if !out.x.is_empty() {
        log.count("verdict.unassigned");
    }
    if !out.r.is_empty() {
        log.count("verdict.read_before");
    }
    if out.m.is_empty() && out.u.is_empty() && out.x.is_empty() && out.r.is_empty() {
        log.count("verdict.clean");
    }
    log.sample(format!("{vars} {procs} => M{} U{} X{} R{}", show(&out.m), show(&out.u), show(&out.x), show(&out.r)));
    let emit = |log: &mut Log, op: &str, imp: String, ora: String| {
        if replay_op.is_none() || replay_op == Some(op) {
            log.push3(format!("{op} {vars} {procs}"), imp, ora);
        }
    };
    emit(log, "M", show(&out.m), show(&om));
    emit(log, "U", show(&out.u), show(&ou));
    emit(log, "X", show(&out.x), show(&ox));
    emit(log, "R", show(&out.r), or_.map(|s| show(&s)).unwrap_or("?".into()));
    if !notes.is_empty() {
        all_notes.push(format!("{vars} {procs} {}", notes.join(",")));
    }
    true
}

fn count_design(d: &Design, log: &mut Log) {
    for v in &d.vars {
        log.count(match v.kind {
            Kind::In => "var.input",
            Kind::Out => "var.output",
            Kind::Var => if v.always { "var.block_local" } else { "var.variable" },
        });
        log.count(&format!("width.{}", v.width));
    }
    fn shapes(b: &[Stmt], log: &mut Log) {
        for s in b {
            match s {
                Stmt::A(_, _, m, dy) => {
                    log.count(if *dy { "stmt.dynamic_write" } else if m.count_ones() == 1 { "stmt.bit_write" } else { "stmt.part_write" })
                }
                Stmt::I(_, t, e) => {
                    log.count(if e.is_empty() { "stmt.if" } else { "stmt.if_else" });
                    shapes(t, log);
                    shapes(e, log);
                }
                Stmt::C(_, exh, arms, d) => {
                    log.count(if *exh { "stmt.case_exhaustive" } else if d.is_empty() { "stmt.case_no_default" } else { "stmt.case_default" });
                    for a in arms {
                        shapes(a, log);
                    }
                    shapes(d, log);
                }
            }
        }
    }
    for p in &d.procs {
        match p {
            Proc::K(b) => {
                log.count("proc.comb");
                shapes(b, log);
                let mut rd = BTreeSet::new();
                let mut wr = BTreeSet::new();
                fn rw(b: &[Stmt], rd: &mut BTreeSet<usize>, wr: &mut BTreeSet<usize>) {
                    for s in b {
                        match s {
                            Stmt::A(r, d, _, _) => {
                                rd.extend(r.iter().map(|x| x.0));
                                wr.insert(*d);
                            }
                            Stmt::I(_, t, e) => {
                                rw(t, rd, wr);
                                rw(e, rd, wr);
                            }
                            Stmt::C(_, _, arms, d) => {
                                for a in arms {
                                    rw(a, rd, wr);
                                }
                                rw(d, rd, wr);
                            }
                        }
                    }
                }
                rw(b, &mut rd, &mut wr);
                if rd.intersection(&wr).next().is_some() {
                    log.count("shape.comb_reads_and_writes_same_variable");
                }
            }
            Proc::F(b) => {
                log.count("proc.ff");
                shapes(b, log);
            }
            Proc::Inst(..) => log.count("proc.inst"),
        }
    }
}

pub fn main(opts: &Opts) -> i32 {
    let mut log = Log::new();
    // deviations from the oracle with their verified class, one design per line (`notes.txt`)
    let mut notes: Vec<String> = vec![];
    if let Some(f) = opts.get("replay") {
        let text = std::fs::read_to_string(f).unwrap_or_default();
        for line in text.lines() {
            let t: Vec<&str> = line.split_whitespace().collect();
            if t.len() == 3 && ["M", "U", "X", "R"].contains(&t[0]) {
                if let Some(d) = parse_design(t[1], t[2]) {
                    if process(&d, &mut log, Some(t[0]), &mut notes) {
                        // the op line as given (not re-printed) keeps the replay file and ops.txt identical
                        let last = log.ops.len() - 1;
                        log.ops[last] = line.to_string();
                    } else {
                        log.push3("skip".into(), "bad-op".into(), "?".into());
                    }
                    continue;
                }
            }
            log.push3(line.to_string(), "bad-op".into(), "?".into());
        }
        log.write(&opts.out());
        let _ = std::fs::write(opts.out().join("notes.txt"), notes.join("\n") + "\n");
        return 0;
    }
    let mut rng = Rng::new(opts.seed());
    let n = opts.num("n", 200);
    for _ in 0..n {
        let d = gen_design(&mut rng);
        log.count("designs");
        count_design(&d, &mut log);
        process(&d, &mut log, None, &mut notes);
    }
    log.write(&opts.out());
    let _ = std::fs::write(opts.out().join("notes.txt"), notes.join("\n") + "\n");
    0
}
