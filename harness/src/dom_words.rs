//! Domain `words` (C35): values crossing the host/component boundary, on the real code:
//!   v2w       `veryl_simulator::component::runtime::host_value_from`   (value_to_words)
//!   w2v       `veryl_simulator::component::runtime::host_value_to_value` (words_to_value)
//!   frombits  `veryl_component::Value::from_bits` (component side: resize + mask_top_word)
//!   port      a native echo component (`veryl_component::export::vtable::<Echo>()`) created through
//!             `ExternalInstance::create` on a real `HostContext`: `set_input[_masked]` -> `on_clock`
//!             -> `SimCtx::read` (native `read_input` adapter, `Value::from_vrl`) -> `SimCtx::write`
//!             (`to_port_words`, native `write_output` adapter) -> `output_words`.
//! The wasm transport (`words_to_bytes` / `bytes_to_words` / import handlers) is private to
//! `component/wasm.rs` and needs a wasm32 guest: not reachable here (Lean model only).
//!
//! Requests (numbers hex, word lists `[w0,w1,...]` LSB first):
//!   v2w <arm u|b> <width> <payload>          -> [words] w=<width>
//!   w2v <width> [words]                      -> <arm> <width> <payload> <mask>
//!   frombits <width> [words] [mask]          -> [words] [mask]
//!   port <width> <4state 0|1> <mode 0|1|2> [words] [mask] -> seen=[words]/[mask] out=[words] dirty=<0|1>   | panic
//!        mode 0 = SimCtx::read/write, 1 = read_u64/write_u64, 2 = read_words/write_words
use crate::dom_svlv::{bit, build, gen_bits, gen_width, hex_to_le, le_to_hex, show_value};
use crate::rng::Rng;
use crate::util::{Log, Opts};
use std::panic::{AssertUnwindSafe, catch_unwind};
use std::sync::Mutex;
use veryl_component::{BuildCtx, ClockPort, Component, ComponentKind, InputPort, OutputPort, SimCtx, export, sys};
use veryl_simulator::component::host::{ExternalInstance, HostContext, HostValue, PortDir, PortRole};
use veryl_simulator::component::runtime::{host_value_from, host_value_to_value};

/// What the component saw in its last hook: (payload words, mask words, width).
pub static SEEN: Mutex<Vec<(Vec<u64>, Vec<u64>, u32)>> = Mutex::new(Vec::new());

/// `BuildCtx::seed()` of every echo instance created (the host's `instance_seed(base, test, instance)`).
pub static SEEDS: Mutex<Vec<u64>> = Mutex::new(Vec::new());

/// Echoes input `d` to output `q` and records what it read.  Parameter `MODE` selects the
/// `SimCtx` accessor pair: 0 = `read`/`write` (the `Value` API, X/Z mask under four-state),
/// 1 = `read_u64`/`write_u64` (scalar, X/Z dropped), 2 = `read_words`/`write_words` (wide, X/Z dropped).
pub struct Echo {
    #[allow(dead_code)]
    clk: ClockPort,
    d: InputPort,
    q: OutputPort,
    mode: u64,
    buf: Vec<u64>,
}

impl Component for Echo {
    const KIND: ComponentKind = ComponentKind::Clocked;

    fn new(ctx: &mut BuildCtx) -> veryl_component::Result<Self> {
        SEEDS.lock().unwrap().push(ctx.seed());
        let mode = ctx.param("MODE").ok().and_then(|v| v.as_u64().ok()).unwrap_or(0);
        let d = ctx.input("d")?;
        Ok(Self { clk: ctx.clock("clk")?, buf: vec![0; d.words()], d, q: ctx.output("q")?, mode })
    }

    fn on_clock(&mut self, ctx: &mut SimCtx) -> veryl_component::Result<()> {
        match self.mode {
            1 => {
                let v = ctx.read_u64(self.d);
                SEEN.lock().unwrap().push((vec![v], vec![0], self.d.width()));
                ctx.write_u64(self.q, v);
            }
            2 => {
                ctx.read_words(self.d, &mut self.buf);
                SEEN.lock().unwrap().push((self.buf.clone(), vec![0; self.buf.len()], self.d.width()));
                ctx.write_words(self.q, &self.buf);
            }
            _ => {
                let value = ctx.read(self.d);
                if let veryl_component::Value::Bits { words, mask_xz, width } = &value {
                    SEEN.lock().unwrap().push((words.to_vec(), mask_xz.to_vec(), *width));
                }
                ctx.write(self.q, value);
            }
        }
        Ok(())
    }
}

pub static ECHO: sys::VrlComponentVTable = export::vtable::<Echo>();

fn words_for(width: usize) -> usize {
    width.div_ceil(64).max(1)
}

pub fn show_words(ws: &[u64]) -> String {
    let v: Vec<String> = ws.iter().map(|x| format!("{x:x}")).collect();
    format!("[{}]", v.join(","))
}

pub fn parse_words(s: &str) -> Option<Vec<u64>> {
    let inner = s.strip_prefix('[')?.strip_suffix(']')?;
    if inner.is_empty() {
        return Some(vec![]);
    }
    inner.split(',').map(|x| u64::from_str_radix(x, 16).ok()).collect()
}

fn wbit(ws: &[u64], i: usize) -> bool {
    ws.get(i / 64).is_some_and(|w| w >> (i % 64) & 1 == 1)
}

/// `n` words holding bits `0..width` of `f`, everything else zero (the property's "every bit intact").
fn bits_to_words(n: usize, width: usize, f: impl Fn(usize) -> bool) -> Vec<u64> {
    let mut v = vec![0u64; n];
    for i in 0..width.min(64 * n) {
        if f(i) {
            v[i / 64] |= 1 << (i % 64);
        }
    }
    v
}

fn guarded(f: impl FnOnce() -> String) -> String {
    catch_unwind(AssertUnwindSafe(f)).unwrap_or_else(|_| "panic".to_string())
}

pub fn apply(line: &str) -> (String, String) {
    let t: Vec<&str> = line.split(' ').filter(|x| !x.is_empty()).collect();
    let bad = || ("bad-op".to_string(), "bad-op".to_string());
    let num = |s: &str| usize::from_str_radix(s, 16).ok().filter(|w| *w <= 100_000);
    match t.as_slice() {
        ["v2w", arm @ ("u" | "b"), w, p] => {
            let (Some(width), Some(p)) = (num(w), hex_to_le(p)) else { return bad() };
            let Some(v) = build(arm, width, &p, &[0]) else { return bad() };
            let imp = guarded(|| match host_value_from(&v) {
                HostValue::Bits { words, width } => format!("{} w={:x}", show_words(&words), width),
                _ => "not-bits".to_string(),
            });
            let n = words_for(width);
            // every payload bit the arm holds, at its position; nothing else
            let ora = format!("{} w={:x}", show_words(&bits_to_words(n, 64 * n, |i| bit(&p, i))), width);
            (imp, ora)
        }
        ["w2v", w, ws] => {
            let (Some(width), Some(ws)) = (num(w), parse_words(ws)) else { return bad() };
            let imp = guarded(|| match host_value_to_value(&HostValue::Bits { words: ws.clone(), width: width as u32 }) {
                Some(v) => show_value(&v),
                None => "none".to_string(),
            });
            let canonical = ws.len() == words_for(width) && (width..64 * ws.len()).all(|i| !wbit(&ws, i));
            let ora = if canonical {
                let mut bytes = vec![];
                for x in &ws {
                    bytes.extend_from_slice(&x.to_le_bytes());
                }
                format!("{} {:x} {} 0", if width > 64 { "b" } else { "u" }, width, le_to_hex(&bytes))
            } else {
                "?".to_string()
            };
            (imp, ora)
        }
        ["frombits", w, ws, ms] => {
            let (Some(width), Some(ws), Some(ms)) = (num(w), parse_words(ws), parse_words(ms)) else { return bad() };
            let imp = guarded(|| {
                let v = veryl_component::Value::from_bits(ws.iter().copied().collect(), ms.iter().copied().collect(), width as u32);
                let veryl_component::Value::Bits { words, mask_xz, .. } = &v else { return "not-bits".to_string() };
                // cross-check the per-bit accessor of the component API
                for i in 0..(width + 3) {
                    let want = if i < width && wbit(&ms, i) { Some(wbit(&ws, i)) } else { None };
                    if v.unknown_at(i as u32) != want {
                        return format!("unknown_at({i}) = {:?}", v.unknown_at(i as u32));
                    }
                }
                format!("{} {}", show_words(words), show_words(mask_xz))
            });
            let n = words_for(width);
            let ora = format!(
                "{} {}",
                show_words(&bits_to_words(n, width, |i| wbit(&ws, i))),
                show_words(&bits_to_words(n, width, |i| wbit(&ms, i)))
            );
            (imp, ora)
        }
        ["port", w, four @ ("0" | "1"), mode @ ("0" | "1" | "2"), ws, ms] => {
            let (Some(width), Some(ws), Some(ms)) = (num(w), parse_words(ws), parse_words(ms)) else { return bad() };
            let four = *four == "1";
            let mode: u64 = mode.parse().unwrap();
            let n = words_for(width);
            let imp = guarded(|| {
                let mut host = HostContext::new();
                host.use_4state = four;
                let d = host.add_port("d", PortDir::Input, width as u32);
                host.add_port("q", PortDir::Output, width as u32);
                host.add_port_role("clk", PortDir::Input, PortRole::Clock, 1);
                host.add_param("MODE", HostValue::bits_u64(mode, 32));
                let mut inst = match ExternalInstance::create(&ECHO, &mut host) {
                    Ok(i) => i,
                    Err(e) => return format!("create-failed:{}", e.to_string().replace(' ', "_")),
                };
                if four {
                    host.set_input_masked(d, &ws, &ms);
                } else {
                    host.set_input(d, &ws);
                }
                SEEN.lock().unwrap().clear();
                let rc = inst.on_clock(&mut host);
                if rc != 0 || host.failed() {
                    return format!("hook-failed:{rc}");
                }
                let seen = SEEN.lock().unwrap().pop();
                let Some((sw, sm, swidth)) = seen else { return "no-read".to_string() };
                if swidth as usize != width {
                    return format!("width={swidth:x}");
                }
                format!(
                    "seen={}/{} out={} dirty={}",
                    show_words(&sw),
                    show_words(&sm),
                    show_words(host.output_words("q")),
                    host.output_dirty("q") as u8
                )
            });
            let ora = if ws.len() < n || (four && ms.len() < n) || (mode == 1 && (width == 0 || width > 64)) {
                "?".to_string() // staging a short slice / a scalar accessor on a non-scalar port: preconditions, not the property
            } else if mode == 0 {
                let p = bits_to_words(n, width, |i| wbit(&ws[..n], i));
                let m = bits_to_words(n, width, |i| four && wbit(&ms[..n], i));
                format!("seen={}/{} out={} dirty=1", show_words(&p), show_words(&m), show_words(&p))
            } else {
                // scalar / word accessors: the component sees the staged payload words as they are (no X/Z),
                // and the port receives every payload bit below `width`, nothing above
                let seen: Vec<u64> = ws[..n].to_vec();
                let p = bits_to_words(n, width, |i| wbit(&ws[..n], i));
                format!("seen={}/{} out={} dirty=1", show_words(&seen), show_words(&vec![0; n]), show_words(&p))
            };
            (imp, ora)
        }
        _ => bad(),
    }
}

fn le_words(b: &[u8], n: usize) -> Vec<u64> {
    (0..n)
        .map(|i| {
            let mut a = [0u8; 8];
            for k in 0..8 {
                a[k] = *b.get(8 * i + k).unwrap_or(&0);
            }
            u64::from_le_bytes(a)
        })
        .collect()
}

fn gen_line(r: &mut Rng, log: &mut Log) -> String {
    let width = gen_width(r);
    let n = words_for(width);
    let pk = r.below(12);
    let mk = match r.below(10) {
        0..=2 => 0,
        3 => 2,
        4 => 7,
        5 => 8,
        6 => 3,
        _ => 9,
    };
    let p = gen_bits(r, width, pk);
    let m = gen_bits(r, width, mk);
    let mut pw = le_words(&p, n);
    let mut mw = le_words(&m, n);
    let noncanon = r.chance(1, 8);
    if noncanon && 64 * n > width {
        let i = width + r.below((64 * n - width) as u64) as usize;
        pw[i / 64] |= 1 << (i % 64);
        if r.chance(1, 2) {
            mw[i / 64] |= 1 << (i % 64);
        }
        log.count("noncanonical");
    }
    let bucket = match width {
        0 => "0",
        1..=63 => "1-63",
        64 => "64",
        65..=127 => "65-127",
        128 => "128",
        129..=255 => "129-255",
        _ => "256+",
    };
    log.count(&format!("width.{bucket}"));
    log.count(if mw.iter().all(|x| *x == 0) { "xz.none" } else { "xz.some" });
    match r.below(100) {
        0..=19 => {
            log.count("op.v2w");
            let arm = if width <= 64 && r.chance(2, 3) { "u" } else { "b" };
            let mut bytes = vec![];
            for x in &pw {
                bytes.extend_from_slice(&x.to_le_bytes());
            }
            if arm == "u" {
                bytes.truncate(8);
            }
            format!("v2w {arm} {width:x} {}", le_to_hex(&bytes))
        }
        20..=39 => {
            log.count("op.w2v");
            // sometimes a word list longer / shorter than the port
            match r.below(10) {
                0 => pw.push(r.next()),
                1 => {
                    pw.pop();
                }
                _ => {}
            }
            format!("w2v {width:x} {}", show_words(&pw))
        }
        40..=59 => {
            log.count("op.frombits");
            match r.below(8) {
                0 => pw.push(r.next()),
                1 => {
                    pw.pop();
                }
                2 => mw.clear(),
                3 => mw.push(r.next()),
                _ => {}
            }
            format!("frombits {width:x} {} {}", show_words(&pw), show_words(&mw))
        }
        _ => {
            log.count("op.port");
            let four = r.chance(2, 3);
            log.count(if four { "port.4state" } else { "port.2state" });
            match r.below(15) {
                0 => {
                    pw.pop();
                    log.count("port.short");
                }
                1 => pw.push(r.next()),
                _ => {}
            }
            let mode = match r.below(3) {
                1 if (1..=64).contains(&width) => 1,
                0 => 0,
                _ => 2,
            };
            log.count(&format!("port.mode{mode}"));
            if width > 0 && width % 64 == 0 {
                log.count(&format!("port.mode{mode}.width_mult64"));
            }
            format!("port {width:x} {} {mode} {} {}", four as u8, show_words(&pw), show_words(&mw))
        }
    }
}

pub fn main(opts: &Opts) -> i32 {
    let out = opts.out();
    let mut log = Log::new();
    let lines: Vec<String> = if let Some(f) = opts.get("replay") {
        std::fs::read_to_string(f).expect("replay file").lines().map(|x| x.to_string()).filter(|x| !x.is_empty()).collect()
    } else {
        let mut r = Rng::new(opts.seed());
        let mut v = vec![];
        // every width 1..300: all-ones payload with all-ones mask, both state modes
        for w in 0..=300usize {
            let n = words_for(w);
            let ones = vec![u64::MAX; n];
            for mode in 0..3 {
                if mode == 1 && !(1..=64).contains(&w) {
                    continue;
                }
                v.push(format!("port {w:x} 1 {mode} {} {}", show_words(&ones), show_words(&ones)));
                v.push(format!("port {w:x} 0 {mode} {} {}", show_words(&ones), show_words(&ones)));
            }
            v.push(format!("frombits {w:x} {} {}", show_words(&ones), show_words(&ones)));
        }
        log.add("sweep_ops", v.len() as u64);
        for _ in 0..opts.num("n", 3000) {
            v.push(gen_line(&mut r, &mut log));
        }
        for l in ["v2w q 4 1", "w2v 4 [1", "frombits 4 [1] [g]", "port 4 2 0 [1] [0]", "port 4 1 0 [10000000000000000] [0]", "port 4 1 3 [1] [0]", "port 4 1 [1] [0]"] {
            v.push(l.to_string());
            log.count("malformed");
        }
        v
    };
    std::panic::set_hook(Box::new(|_| {}));
    for l in &lines {
        let (imp, ora) = apply(l);
        if l.starts_with("port") && l.len() > 40 && l.len() < 110 {
            log.sample(format!("{l} -> {imp}"));
        }
        log.push3(l.clone(), imp, ora);
    }
    log.add("sequences", lines.len() as u64);
    log.write(&out);
    0
}
