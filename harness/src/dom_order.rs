//! Domain `order` (C24): the emitted SV, the source maps and the diagnostic set of an error-free
//! project must not depend on the order in which the files go through pass 1 / pass 2, nor on the
//! process (hash seeds).
//!
//! * `perm <set> [i,j,…]` — impl: the pipeline run with the files in that order; oracle: the run in
//!   the reference (identity) order.  Reply = error count, diagnostic multiset hash, SV hash, map hash.
//! * `reg f0;f1;…` — correspondence with M-Register: the per-file `(namespace, name)` key lists (taken
//!   from the reference run) in the permuted order; impl reply = the keys really present in the
//!   symbol table after the permuted run; the model replies with `registerAll` of the lists.
//! * `twice <set>` — the same input in two child processes (different `RandomState` seeds);
//!   impl = second process, oracle = first process (full per-file digests).
//! * `excl p n p' n'` — `DefineContext::exclusive` on two contexts built from `#[ifdef]`/`#[ifndef]`
//!   attributes over the identifiers `VD<k>` (comma lists, `-` = none): impl = `ab=a.exclusive(b)
//!   ba=b.exclusive(a)`; model = `exclusiveSets` both ways; oracle = the symmetric reply (hypothesis
//!   `hsym` of C24 `duplicate_verdict_perm`).
use crate::rng::Rng;
use crate::util::{Log, Opts};
use crate::vsets::{self, FileSet, RunCfg, RunOut};
use std::collections::BTreeMap;

fn set_of(spec: &str) -> Option<FileSet> {
    let p: Vec<&str> = spec.split(':').collect();
    if p.len() != 3 {
        return None;
    }
    let seed = u64::from_str_radix(p[1], 16).ok()?;
    let n: usize = p[2].parse().ok()?;
    match p[0] {
        "gen" => Some(vsets::generated(seed, n)),
        "tc" => {
            let mut all = vsets::testcases();
            if n > 0 {
                let mut r = Rng::new(seed);
                for i in (1..all.len()).rev() {
                    let j = r.below(i as u64 + 1) as usize;
                    all.swap(i, j);
                }
                all.truncate(n);
            }
            Some(all)
        }
        _ => None,
    }
}

fn cfg() -> RunCfg {
    RunCfg { capture: false, gaps: vec![], skip: vec![], want_dumps: false, want_emit: true }
}

/// Order-independent digest of a run: diagnostics as a sorted multiset, outputs keyed by file name.
fn digest(o: &RunOut, files: &FileSet, full: bool) -> String {
    let mut d: Vec<String> = vec![];
    for (i, p) in o.pass1.iter().enumerate() {
        for e in p {
            d.push(format!("pass1|{}|{e}", files[i].0));
        }
    }
    for (ph, src, t) in &o.later {
        let ph = if ph.starts_with("pass2") { "pass2" } else { ph };
        d.push(format!("{ph}|{src}|{t}"));
    }
    d.sort();
    let mut sv = String::new();
    let mut map = vec![];
    for (name, text) in &o.sv {
        sv.push_str(&format!("//// {name}\n{text}"));
    }
    for (name, m) in &o.map {
        map.extend_from_slice(name.as_bytes());
        map.extend_from_slice(m);
    }
    let mut s = format!(
        "nerr={} diag={}:{:x} sv={}:{:x} map={:x}",
        o.errors,
        d.len(),
        vsets::fnv(d.join("\n").as_bytes()),
        o.sv.len(),
        vsets::fnv(sv.as_bytes()),
        vsets::fnv(&map)
    );
    if full {
        for (name, text) in &o.sv {
            s.push_str(&format!(" {name}={:x}/{:x}", vsets::fnv(text.as_bytes()), vsets::fnv(o.map.get(name).map(|x| x.as_slice()).unwrap_or(b"-"))));
        }
    }
    s
}

fn key_hex(ns: &str, name: &str) -> String {
    format!("{:x}.{:x}", vsets::fnv(ns.as_bytes()) & 0xffff_ffff, vsets::fnv(name.as_bytes()) & 0xffff_ffff)
}

fn sorted_keys(keys: &BTreeMap<String, Vec<(String, String)>>) -> String {
    let mut v: Vec<(u64, u64)> = vec![];
    for l in keys.values() {
        for (ns, name) in l {
            v.push((vsets::fnv(ns.as_bytes()) & 0xffff_ffff, vsets::fnv(name.as_bytes()) & 0xffff_ffff));
        }
    }
    v.sort();
    format!("n={} [{}]", v.len(), v.iter().map(|(a, b)| format!("{a:x}.{b:x}")).collect::<Vec<_>>().join(","))
}

struct Exec<'a> {
    log: &'a mut Log,
    out: std::path::PathBuf,
    refs: BTreeMap<String, (FileSet, RunOut)>,
    nmis: usize,
}

impl Exec<'_> {
    fn reference(&mut self, spec: &str) -> bool {
        if self.refs.contains_key(spec) {
            return true;
        }
        let Some(files) = set_of(spec) else { return false };
        let n = files.len();
        let Ok(o) = vsets::run(&files, vec![None; n], cfg()) else { return false };
        self.refs.clear();
        self.refs.insert(spec.to_string(), (files, o));
        true
    }

    fn perm(&mut self, line: &str) -> bool {
        let t: Vec<&str> = line.split(' ').collect();
        if t.len() != 3 || !self.reference(t[1]) {
            return false;
        }
        let (files, r) = &self.refs[t[1]];
        let Some(inner) = t[2].strip_prefix('[').and_then(|x| x.strip_suffix(']')) else { return false };
        let perm: Vec<usize> = inner.split(',').filter_map(|x| x.parse().ok()).collect();
        let mut chk = perm.clone();
        chk.sort();
        if chk != (0..files.len()).collect::<Vec<_>>() {
            return false;
        }
        let pf: FileSet = perm.iter().map(|i| files[*i].clone()).collect();
        let ora = digest(r, files, false);
        if r.errors != 0 {
            self.log.count("perm.skipped-not-error-free");
            self.log.push3(line.into(), "not-error-free".into(), "?".into());
            return true;
        }
        let Ok(o) = vsets::run(&pf, vec![None; pf.len()], cfg()) else {
            self.log.push3(line.into(), "panic".into(), ora);
            return true;
        };
        let imp = digest(&o, &pf, false);
        if imp != ora && self.nmis < 10 {
            self.nmis += 1;
            let mut s = format!("{line}\n");
            for (name, text) in &r.sv {
                if o.sv.get(name) != Some(text) {
                    s.push_str(&format!("==== {name} (reference order)\n{text}\n==== {name} (permuted)\n{}\n", o.sv.get(name).cloned().unwrap_or_default()));
                }
            }
            let mut da: Vec<_> = r.later.iter().map(|x| format!("{x:?}")).collect();
            let mut db: Vec<_> = o.later.iter().map(|x| format!("{x:?}")).collect();
            da.sort();
            db.sort();
            if da != db {
                s.push_str(&format!("==== diagnostics (reference)\n{}\n==== diagnostics (permuted)\n{}\n", da.join("\n"), db.join("\n")));
            }
            let _ = std::fs::write(self.out.join(format!("mismatch-{}.txt", self.nmis)), s);
        }
        self.log.count("perm.compared");
        self.log.add("perm.files", pf.len() as u64);
        self.log.push3(line.into(), imp, ora);
        // correspondence with M-Register
        let mut parts = vec![];
        let mut all: Vec<&String> = vec![];
        let dash = "-".to_string();
        all.push(&dash);
        for (name, _) in &pf {
            all.push(name);
        }
        for name in all {
            match r.keys.get(name) {
                Some(l) if !l.is_empty() => parts.push(l.iter().map(|(a, b)| key_hex(a, b)).collect::<Vec<_>>().join(",")),
                _ => parts.push("-".into()),
            }
        }
        let total: usize = r.keys.values().map(|v| v.len()).sum();
        if total <= 6000 {
            self.log.count("op.reg");
            self.log.push3(format!("reg {}", parts.join(";")), sorted_keys(&o.keys), sorted_keys(&r.keys));
        }
        true
    }

    fn twice(&mut self, line: &str) -> bool {
        let t: Vec<&str> = line.split(' ').collect();
        if t.len() != 2 || set_of(t[1]).is_none() {
            return false;
        }
        let exe = std::env::current_exe().unwrap();
        let child = || -> String {
            match std::process::Command::new(&exe).args(["order", "--child", t[1]]).output() {
                Ok(o) if o.status.success() => String::from_utf8_lossy(&o.stdout).trim().to_string(),
                Ok(o) => format!("child-failed:{}", o.status),
                Err(e) => format!("child-failed:{e}").replace(' ', "_"),
            }
        };
        let a = child();
        let b = child();
        self.log.count("twice.compared");
        self.log.push3(line.into(), b, a);
        true
    }

    fn excl(&mut self, line: &str) -> bool {
        use veryl_analyzer::attribute::Attribute;
        use veryl_analyzer::namespace::DefineContext;
        let t: Vec<&str> = line.split(' ').collect();
        if t.len() != 5 {
            return false;
        }
        let set = |s: &str| -> Option<Vec<u64>> {
            if s == "-" {
                Some(vec![])
            } else {
                s.split(',').map(|x| x.parse().ok()).collect()
            }
        };
        let (Some(p), Some(n), Some(p2), Some(n2)) = (set(t[1]), set(t[2]), set(t[3]), set(t[4])) else { return false };
        let ctx = |p: &[u64], n: &[u64]| -> DefineContext {
            let mut a: Vec<Attribute> = vec![];
            for x in p {
                a.push(Attribute::Ifdef(veryl_parser::resource_table::insert_str(&format!("VD{x}"))));
            }
            for x in n {
                a.push(Attribute::Ifndef(veryl_parser::resource_table::insert_str(&format!("VD{x}"))));
            }
            a.as_slice().into()
        };
        let (a, b) = (ctx(&p, &n), ctx(&p2, &n2));
        let (ab, ba) = (a.exclusive(&b) as u8, b.exclusive(&a) as u8);
        self.log.count("op.excl");
        self.log.count(if ab == 1 { "excl.exclusive" } else { "excl.not-exclusive" });
        self.log.push3(line.into(), format!("ab={ab} ba={ba}"), format!("ab={ab} ba={ab}"));
        true
    }

    fn exec(&mut self, line: &str) {
        let ok = if line.starts_with("excl ") {
            self.excl(line)
        } else if line.starts_with("perm ") {
            self.perm(line)
        } else if line.starts_with("twice ") {
            self.twice(line)
        } else if line == "reset" {
            self.log.push3(line.into(), "ok".into(), "ok".into());
            true
        } else {
            false
        };
        if !ok {
            self.log.push3(line.to_string(), "bad-op".into(), "?".into());
        }
    }
}

fn all_perms(n: usize) -> Vec<Vec<usize>> {
    fn go(cur: &mut Vec<usize>, used: &mut Vec<bool>, out: &mut Vec<Vec<usize>>) {
        if cur.len() == used.len() {
            out.push(cur.clone());
            return;
        }
        for i in 0..used.len() {
            if !used[i] {
                used[i] = true;
                cur.push(i);
                go(cur, used, out);
                cur.pop();
                used[i] = false;
            }
        }
    }
    let mut out = vec![];
    go(&mut vec![], &mut vec![false; n], &mut out);
    out
}

fn show_perm(p: &[usize]) -> String {
    format!("[{}]", p.iter().map(|x| x.to_string()).collect::<Vec<_>>().join(","))
}

pub fn main(opts: &Opts) -> i32 {
    std::panic::set_hook(Box::new(|_| {}));
    if let Some(spec) = opts.get("child") {
        let Some(files) = set_of(spec) else { return 2 };
        let n = files.len();
        return match vsets::run(&files, vec![None; n], cfg()) {
            Ok(o) => {
                println!("{}", digest(&o, &files, true));
                0
            }
            Err(_) => {
                println!("panic");
                0
            }
        };
    }
    let out = opts.out();
    let mut log = Log::new();
    let mut ex = Exec { log: &mut log, out: out.clone(), refs: BTreeMap::new(), nmis: 0 };
    if let Some(f) = opts.get("replay") {
        for line in std::fs::read_to_string(f).unwrap_or_default().lines() {
            if !line.trim().is_empty() {
                ex.exec(line.trim());
            }
        }
        log.write(&out);
        return 0;
    }
    let mut r = Rng::new(opts.seed());
    let nsets = opts.num("sets", 8);
    let nbig = opts.num("big", 3);
    let nrand = opts.num("rand", 6);
    for _ in 0..nsets {
        let seed = r.next() >> 20;
        let nf = r.range(2, 8);
        let spec = format!("gen:{seed:x}:{nf}");
        let n = vsets::generated(seed, nf as usize).len();
        if n <= 4 {
            for p in all_perms(n).into_iter().skip(1) {
                ex.exec(&format!("perm {spec} {}", show_perm(&p)));
            }
        } else {
            let mut rev: Vec<usize> = (0..n).collect();
            rev.reverse();
            ex.exec(&format!("perm {spec} {}", show_perm(&rev)));
            for _ in 0..nrand {
                let mut p: Vec<usize> = (0..n).collect();
                for i in (1..n).rev() {
                    let j = r.below(i as u64 + 1) as usize;
                    p.swap(i, j);
                }
                ex.exec(&format!("perm {spec} {}", show_perm(&p)));
            }
        }
        if r.chance(1, 2) {
            ex.exec(&format!("twice {spec}"));
        }
    }
    // the whole self-contained testcase set
    let n = vsets::testcases().len();
    if n > 0 && nbig > 0 {
        let spec = "tc:1:0";
        let mut rev: Vec<usize> = (0..n).collect();
        rev.reverse();
        ex.exec(&format!("perm {spec} {}", show_perm(&rev)));
        for _ in 1..nbig {
            let mut p: Vec<usize> = (0..n).collect();
            for i in (1..n).rev() {
                let j = r.below(i as u64 + 1) as usize;
                p.swap(i, j);
            }
            ex.exec(&format!("perm {spec} {}", show_perm(&p)));
        }
        ex.exec(&format!("twice {spec}"));
    }
    // DefineContext::exclusive vs M-Register `exclusiveSets` (own stream: the draws above stay as they were)
    let mut rx = Rng::new(opts.seed() ^ 0x5eed_e8c1);
    let show = |v: &[u64]| if v.is_empty() { "-".to_string() } else { v.iter().map(|x| x.to_string()).collect::<Vec<_>>().join(",") };
    for _ in 0..opts.num("excl", 200) {
        let mut sets: Vec<Vec<u64>> = vec![];
        for _ in 0..4 {
            let k = rx.below(4);
            let mut v: Vec<u64> = (0..k).map(|_| rx.below(5)).collect();
            v.sort();
            v.dedup();
            sets.push(v);
        }
        ex.exec(&format!("excl {} {} {} {}", show(&sets[0]), show(&sets[1]), show(&sets[2]), show(&sets[3])));
    }
    log.stats.insert("sequences".into(), nsets + 1);
    log.write(&out);
    0
}
