//! Domain `svlv` (C36): the real `Value` <-> `Vec<SvLogicVecVal>` conversions of
//! `veryl_analyzer::value` (what `cosim_get` / `cosim_set` call) and the per-bit waveform
//! characters (`VcdValueIter`, `to_vcd_value`, `to_fst_bits`) on boundary-biased 4-state values of
//! width 0..300, both `Value` arms.  `oracle.txt` is computed bit by bit from the IEEE 1800 Annex H
//! table, without any word arithmetic shared with the implementation or the model.
//!
//! Requests (numbers hex):
//!   to  <arm> <width> <payload> <mask>   -> [aval:bval,...]         arm: u = Value::U64, b = Value::BigUint,
//!   rt  <arm> <width> <payload> <mask>   -> <arm> <width> <p> <m>        n = Value::from_le_bytes (arm by width)
//!   vcd <arm> <width> <payload> <mask>   -> 01xz… MSB first (`-` if empty)
//!   from [aval:bval,...]                 -> <arm> <width> <p> <m>
use crate::rng::Rng;
use crate::util::{Log, Opts};
use std::panic::{AssertUnwindSafe, catch_unwind};
use veryl_analyzer::value::{SvLogicVecVal, Value, ValueBigUint, ValueU64, biguint_from_le_bytes};

pub const WIDTHS: &[usize] =
    &[0, 1, 2, 31, 32, 33, 63, 64, 65, 95, 96, 97, 127, 128, 129, 159, 160, 161, 191, 192, 193, 223, 224, 225, 255, 256, 257, 300];

pub fn hex_to_le(s: &str) -> Option<Vec<u8>> {
    if s.is_empty() || !s.bytes().all(|b| b.is_ascii_hexdigit()) {
        return None;
    }
    let s = if s.len() % 2 == 1 { format!("0{s}") } else { s.to_string() };
    let mut v: Vec<u8> = (0..s.len() / 2).map(|i| u8::from_str_radix(&s[2 * i..2 * i + 2], 16).unwrap()).collect();
    v.reverse();
    Some(v)
}

pub fn le_to_hex(b: &[u8]) -> String {
    let mut s = String::new();
    for x in b.iter().rev() {
        s.push_str(&format!("{x:02x}"));
    }
    let t = s.trim_start_matches('0');
    if t.is_empty() { "0".to_string() } else { t.to_string() }
}

pub fn bit(b: &[u8], i: usize) -> bool {
    b.get(i / 8).is_some_and(|x| x >> (i % 8) & 1 == 1)
}

pub fn set_bit(b: &mut Vec<u8>, i: usize) {
    if b.len() <= i / 8 {
        b.resize(i / 8 + 1, 0);
    }
    b[i / 8] |= 1 << (i % 8);
}

fn le_u64(b: &[u8]) -> Option<u64> {
    if b.iter().skip(8).any(|x| *x != 0) {
        return None;
    }
    let mut a = [0u8; 8];
    for (i, x) in b.iter().take(8).enumerate() {
        a[i] = *x;
    }
    Some(u64::from_le_bytes(a))
}

fn pad4(b: &[u8]) -> Vec<u8> {
    let mut v = b.to_vec();
    while v.len() % 4 != 0 {
        v.push(0);
    }
    v
}

/// Builds the real value on the requested arm.
pub fn build(arm: &str, width: usize, p: &[u8], m: &[u8]) -> Option<Value> {
    match arm {
        "u" => Some(Value::U64(ValueU64 { payload: le_u64(p)?, mask_xz: le_u64(m)?, width: width as u32, signed: false })),
        "b" => Some(Value::BigUint(ValueBigUint {
            payload: Box::new(biguint_from_le_bytes(&pad4(p))),
            mask_xz: Box::new(biguint_from_le_bytes(&pad4(m))),
            width: width as u32,
            signed: false,
        })),
        "n" => {
            if width <= 64 && (le_u64(p).is_none() || le_u64(m).is_none()) {
                return None;
            }
            Some(Value::from_le_bytes(&pad4(p), &pad4(m), width, false))
        }
        _ => None,
    }
}

pub fn show_value(v: &Value) -> String {
    let arm = match v {
        Value::U64(_) => "u",
        Value::BigUint(_) => "b",
    };
    format!("{arm} {:x} {:x} {:x}", v.width(), &*v.payload(), &*v.mask_xz())
}

fn show_words(ws: &[(u32, u32)]) -> String {
    let v: Vec<String> = ws.iter().map(|(a, b)| format!("{a:x}:{b:x}")).collect();
    format!("[{}]", v.join(","))
}

fn parse_words(s: &str) -> Option<Vec<(u32, u32)>> {
    let inner = s.strip_prefix('[')?.strip_suffix(']')?;
    if inner.is_empty() {
        return Some(vec![]);
    }
    inner
        .split(',')
        .map(|x| {
            let (a, b) = x.split_once(':')?;
            Some((u32::from_str_radix(a, 16).ok()?, u32::from_str_radix(b, 16).ok()?))
        })
        .collect()
}

/// IEEE 1800-2023 Annex H.10.1.2: state -> (aval, bval).  States: 0, 1, 2 = Z, 3 = X.
const ANNEX_H: [(u32, u32); 4] = [(0, 0), (1, 0), (0, 1), (1, 1)];

/// What the simulator holds in bit `i`: (mask_xz, payload) = (0,0) 0, (0,1) 1, (1,0) X, (1,1) Z.
fn state(p: &[u8], m: &[u8], i: usize) -> usize {
    match (bit(m, i), bit(p, i)) {
        (false, false) => 0,
        (false, true) => 1,
        (true, true) => 2,
        (true, false) => 3,
    }
}

fn oracle_words(width: usize, p: &[u8], m: &[u8]) -> Vec<(u32, u32)> {
    let len = width.div_ceil(32);
    let mut ws = vec![(0u32, 0u32); len];
    for i in 0..32 * len {
        let (a, b) = ANNEX_H[state(p, m, i)];
        ws[i / 32].0 |= a << (i % 32);
        ws[i / 32].1 |= b << (i % 32);
    }
    ws
}

fn oracle_value(ws: &[(u32, u32)]) -> String {
    let width = 32 * ws.len();
    let (mut p, mut m) = (vec![0u8], vec![0u8]);
    for i in 0..width {
        let ab = (ws[i / 32].0 >> (i % 32) & 1, ws[i / 32].1 >> (i % 32) & 1);
        let st = ANNEX_H.iter().position(|x| *x == ab).unwrap();
        // state -> (mask bit, payload bit)
        let (mb, pb) = [(false, false), (false, true), (true, true), (true, false)][st];
        if mb {
            set_bit(&mut m, i);
        }
        if pb {
            set_bit(&mut p, i);
        }
    }
    format!("{} {:x} {} {}", if width > 64 { "b" } else { "u" }, width, le_to_hex(&p), le_to_hex(&m))
}

fn oracle_vcd(width: usize, p: &[u8], m: &[u8]) -> String {
    if width == 0 {
        return "-".to_string();
    }
    (0..width).rev().map(|i| ['0', '1', 'z', 'x'][state(p, m, i)]).collect()
}

/// `vcd::Value` implements Display as the VCD character 0 / 1 / x / z.
fn ch<T: std::fmt::Display>(x: T) -> String {
    x.to_string()
}

fn guarded(f: impl FnOnce() -> String) -> String {
    catch_unwind(AssertUnwindSafe(f)).unwrap_or_else(|_| "panic".to_string())
}

/// Executes one request line on the real code; returns (impl reply, oracle reply).
pub fn apply(line: &str) -> (String, String) {
    let t: Vec<&str> = line.split(' ').filter(|x| !x.is_empty()).collect();
    let bad = || ("bad-op".to_string(), "bad-op".to_string());
    match t.as_slice() {
        [op @ ("to" | "rt" | "vcd"), arm, w, p, m] => {
            let (Ok(width), Some(p), Some(m)) = (usize::from_str_radix(w, 16), hex_to_le(p), hex_to_le(m)) else {
                return bad();
            };
            if width > 100_000 {
                return bad();
            }
            let Some(v) = build(arm, width, &p, &m) else {
                return bad();
            };
            match *op {
                "to" => {
                    let imp = guarded(|| {
                        let ws: Vec<SvLogicVecVal> = (&v).into();
                        show_words(&ws.iter().map(|x| (x.aval, x.bval)).collect::<Vec<_>>())
                    });
                    (imp, show_words(&oracle_words(width, &p, &m)))
                }
                "rt" => {
                    let imp = guarded(|| {
                        let ws: Vec<SvLogicVecVal> = (&v).into();
                        let back: Value = ws.as_slice().into();
                        show_value(&back)
                    });
                    (imp, oracle_value(&oracle_words(width, &p, &m)))
                }
                _ => {
                    let imp = guarded(|| {
                        // `vcd::Value` implements Display as the VCD character 0 / 1 / x / z
                        // what `vcd::Writer::change_vector(code, &value)` consumes
                        let a: String = (&v).into_iter().map(ch).collect();
                        // what `FstBodyWriter::signal_change` is given
                        let b = String::from_utf8(v.to_fst_bits()).unwrap();
                        // random access form
                        let c: String = (0..v.width() as u64).rev().map(|i| ch(v.to_vcd_value(i))).collect();
                        if a != b || a != c {
                            return format!("vcd={a} fst={b} idx={c}");
                        }
                        if a.is_empty() { "-".to_string() } else { a }
                    });
                    (imp, oracle_vcd(width, &p, &m))
                }
            }
        }
        ["from", ws] => {
            let Some(ws) = parse_words(ws) else {
                return bad();
            };
            let imp = guarded(|| {
                let v: Vec<SvLogicVecVal> = ws.iter().map(|(a, b)| SvLogicVecVal { aval: *a, bval: *b }).collect();
                let back: Value = v.as_slice().into();
                // and forward again: must reproduce the words
                let again: Vec<SvLogicVecVal> = (&back).into();
                if again != v {
                    return format!("{} again={}", show_value(&back), show_words(&again.iter().map(|x| (x.aval, x.bval)).collect::<Vec<_>>()));
                }
                show_value(&back)
            });
            (imp, oracle_value(&ws))
        }
        _ => bad(),
    }
}

pub fn gen_width(r: &mut Rng) -> usize {
    if r.chance(2, 5) { *r.pick(WIDTHS) } else { r.range(1, 300) as usize }
}

/// Boundary-biased bit pattern of `width` bits (little-endian bytes).
pub fn gen_bits(r: &mut Rng, width: usize, kind: u64) -> Vec<u8> {
    let n = width.div_ceil(8).max(1);
    let mut b = vec![0u8; n];
    match kind {
        0 => {}
        1 => b[0] = 1,
        2 => b.iter_mut().for_each(|x| *x = 0xff),
        3 => {
            if width > 0 {
                set_bit(&mut b, width - 1)
            }
        }
        4 => {
            b.iter_mut().for_each(|x| *x = 0xff);
            if width > 0 {
                b[(width - 1) / 8] &= !(1 << ((width - 1) % 8));
            }
        }
        5 => b.iter_mut().for_each(|x| *x = 0xaa),
        6 => b.iter_mut().for_each(|x| *x = 0x55),
        7 => {
            // sparse
            for _ in 0..1 + width / 40 {
                if width > 0 {
                    let i = r.below(width as u64) as usize;
                    set_bit(&mut b, i);
                }
            }
        }
        8 => {
            // one bit around a 32-bit word boundary
            let c: Vec<usize> = [31usize, 32, 33, 63, 64, 65, 127, 128].iter().copied().filter(|i| *i < width).collect();
            if !c.is_empty() {
                set_bit(&mut b, *r.pick(&c));
            }
        }
        _ => b.iter_mut().for_each(|x| *x = r.next() as u8),
    }
    // canonical: clear bits at and above width
    for i in width..8 * n {
        b[i / 8] &= !(1 << (i % 8));
    }
    b
}

fn gen_line(r: &mut Rng, log: &mut Log) -> String {
    let k = r.below(100);
    if k < 22 {
        // words -> value
        let len = if r.chance(1, 3) { r.below(4) } else { r.below(11) } as usize;
        let ws: Vec<(u32, u32)> = (0..len)
            .map(|_| {
                let f = |r: &mut Rng| match r.below(6) {
                    0 => 0u32,
                    1 => u32::MAX,
                    2 => 0x8000_0000,
                    3 => 1,
                    _ => r.next() as u32,
                };
                (f(r), f(r))
            })
            .collect();
        log.count("op.from");
        log.count(&format!("from.len.{}", if len <= 2 { "le2" } else { "gt2" }));
        return format!("from {}", show_words(&ws));
    }
    let op = if k < 50 {
        "to"
    } else if k < 75 {
        "rt"
    } else {
        "vcd"
    };
    let width = gen_width(r);
    let pk = r.below(12);
    let mk = match r.below(10) {
        0..=2 => 0,
        3 => 2,
        4 => 7,
        5 => 8,
        6 => 3,
        _ => 9,
    };
    let mut p = gen_bits(r, width, pk);
    let mut m = gen_bits(r, width, mk);
    let arm = match r.below(10) {
        0..=4 => "n",
        5..=6 => {
            if width <= 64 { "u" } else { "b" }
        }
        7 => "b",
        // malformed: a U64 arm with any width
        _ => {
            p.truncate(8);
            m.truncate(8);
            "u"
        }
    };
    if r.chance(1, 12) {
        // non-canonical: garbage above `width` inside the storage the arm can hold
        let lim = if arm == "u" || (arm == "n" && width <= 64) { 64 } else { 64 * width.div_ceil(64).max(1) };
        if lim > width {
            let i = width + r.below((lim - width) as u64) as usize;
            set_bit(&mut p, i);
            if r.chance(1, 2) {
                set_bit(&mut m, i);
            }
            log.count("noncanonical");
        }
    }
    log.count(&format!("op.{op}"));
    log.count(&format!("arm.{arm}"));
    let bucket = match width {
        0 => "0",
        1..=31 => "1-31",
        32 => "32",
        33..=63 => "33-63",
        64 => "64",
        65..=127 => "65-127",
        128 => "128",
        129..=255 => "129-255",
        _ => "256+",
    };
    log.count(&format!("width.{bucket}"));
    if width % 32 == 0 {
        log.count("width.mult32");
    }
    log.count(if m.iter().all(|x| *x == 0) { "xz.none" } else { "xz.some" });
    format!("{op} {arm} {:x} {} {}", width, le_to_hex(&p), le_to_hex(&m))
}

pub fn main(opts: &Opts) -> i32 {
    let out = opts.out();
    let mut log = Log::new();
    let lines: Vec<String> = if let Some(f) = opts.get("replay") {
        std::fs::read_to_string(f).expect("replay file").lines().map(|x| x.to_string()).filter(|x| !x.is_empty()).collect()
    } else {
        let mut r = Rng::new(opts.seed());
        let n = opts.num("n", 2000);
        let mut v = vec![];
        // exhaustive small widths (every 4-state value of width <= 3, both natural arms)
        for w in 0..=3usize {
            for p in 0..(1u32 << w) {
                for m in 0..(1u32 << w) {
                    for op in ["to", "rt", "vcd"] {
                        v.push(format!("{op} n {w:x} {p:x} {m:x}"));
                    }
                }
            }
        }
        log.add("exhaustive_small", v.len() as u64);
        for _ in 0..n {
            let l = gen_line(&mut r, &mut log);
            v.push(l);
        }
        // malformed stream
        for l in ["to q 4 1 0", "to u 4 1ffffffffffffffffff 0", "from [1:2", "from [100000000:0]", "rt n zz 0 0", "vcd n 4 1"] {
            v.push(l.to_string());
            log.count("malformed");
        }
        v
    };
    std::panic::set_hook(Box::new(|_| {}));
    for l in &lines {
        let (imp, ora) = apply(l);
        if log.samples.len() < 5 && l.len() < 120 && l.len() > 24 {
            log.sample(format!("{l} -> {imp}"));
        }
        log.push3(l.clone(), imp, ora);
    }
    log.add("sequences", lines.len() as u64);
    log.write(&out);
    0
}
