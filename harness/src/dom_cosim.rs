//! Domain `cosim` (C36, DPI half on the real shared library): the `veryl-cosim` cdylib built next to
//! `hx` (`<target>/debug/deps/libveryl_cosim.so`) is loaded with `libloading` and driven through its
//! C entry points exactly as a SystemVerilog simulator would: `cosim_open` on a generated design
//! (`assign b = a`, width 1..300), `cosim_set(a, svLogicVecVal[4])`, `cosim_get(b, svLogicVecVal[4])`.
//!
//! Request: `cosim <width> <4state 0|1> [aval:bval x4]` -> `[aval:bval x4]`.
//! Oracle ("round-trips every bit"): the same four words with every bit at or above `width` cleared.
use crate::rng::Rng;
use crate::util::{Log, Opts};
use std::ffi::{CString, c_char, c_void};
use std::path::PathBuf;
use veryl_analyzer::value::SvLogicVecVal;

type OpenFn = unsafe extern "C" fn(*const c_char, *const c_char, bool) -> *mut c_void;
type CloseFn = unsafe extern "C" fn(*mut c_void);
type SetFn = unsafe extern "C" fn(*mut c_void, *const c_char, *const [SvLogicVecVal; 4]);
type GetFn = unsafe extern "C" fn(*mut c_void, *const c_char, *mut [SvLogicVecVal; 4]);

const WIDTHS: &[usize] = &[1, 2, 31, 32, 33, 63, 64, 65, 95, 96, 97, 127, 128, 129, 200, 256, 300];

fn lib_path() -> Option<PathBuf> {
    let exe = std::env::current_exe().ok()?;
    let dir = exe.parent()?;
    for cand in [dir.join("deps/libveryl_cosim.so"), dir.join("libveryl_cosim.so"), dir.join("deps/libveryl_cosim.dylib")] {
        if cand.exists() {
            return Some(cand);
        }
    }
    None
}

fn show(ws: &[SvLogicVecVal; 4]) -> String {
    let v: Vec<String> = ws.iter().map(|x| format!("{:x}:{:x}", x.aval, x.bval)).collect();
    format!("[{}]", v.join(","))
}

fn parse(s: &str) -> Option<[SvLogicVecVal; 4]> {
    let inner = s.strip_prefix('[')?.strip_suffix(']')?;
    let v: Vec<SvLogicVecVal> = inner
        .split(',')
        .map(|x| {
            let (a, b) = x.split_once(':')?;
            Some(SvLogicVecVal { aval: u32::from_str_radix(a, 16).ok()?, bval: u32::from_str_radix(b, 16).ok()? })
        })
        .collect::<Option<Vec<_>>>()?;
    v.try_into().ok()
}

pub fn main(opts: &Opts) -> i32 {
    let out = opts.out();
    let mut log = Log::new();
    let Some(path) = lib_path() else {
        log.count("library_missing");
        log.write(&out);
        eprintln!("hx cosim: libveryl_cosim.so not found next to hx");
        return 0;
    };
    let lines: Vec<String> = if let Some(f) = opts.get("replay") {
        std::fs::read_to_string(f).expect("replay file").lines().map(|x| x.to_string()).filter(|x| !x.is_empty()).collect()
    } else {
        let mut r = Rng::new(opts.seed() ^ 0x636f73);
        (0..opts.num("n", 100))
            .map(|_| {
                let w = if r.chance(1, 2) { *r.pick(WIDTHS) } else { r.range(1, 300) as usize };
                let four = r.chance(2, 3);
                let mut ws = [SvLogicVecVal { aval: 0, bval: 0 }; 4];
                for x in ws.iter_mut() {
                    let f = |r: &mut Rng| match r.below(6) {
                        0 => 0u32,
                        1 => u32::MAX,
                        2 => 0x8000_0000,
                        3 => 1,
                        _ => r.next() as u32,
                    };
                    x.aval = f(&mut r);
                    x.bval = if four { f(&mut r) } else { 0 };
                }
                format!("cosim {w:x} {} {}", four as u8, show(&ws))
            })
            .collect()
    };
    // SAFETY: the library is the cdylib of /repo/crates/cosim; the prototypes above are its `extern "C"` items.
    let lib = unsafe { libloading::Library::new(&path) }.expect("load libveryl_cosim");
    let (open, close, set, get) = unsafe {
        (
            *lib.get::<OpenFn>(b"cosim_open\0").unwrap(),
            *lib.get::<CloseFn>(b"cosim_close\0").unwrap(),
            *lib.get::<SetFn>(b"cosim_set\0").unwrap(),
            *lib.get::<GetFn>(b"cosim_get\0").unwrap(),
        )
    };
    let dir = out.join("designs");
    let _ = std::fs::create_dir_all(&dir);
    for (k, l) in lines.iter().enumerate() {
        let t: Vec<&str> = l.split(' ').collect();
        let parsed = match t.as_slice() {
            ["cosim", w, four @ ("0" | "1"), ws] => usize::from_str_radix(w, 16).ok().filter(|w| (1..=4096).contains(w)).zip(parse(ws)).map(|(w, ws)| (w, *four == "1", ws)),
            _ => None,
        };
        let Some((w, four, ws)) = parsed else {
            log.push3(l.clone(), "bad-op".into(), "bad-op".into());
            continue;
        };
        let top = format!("HxCosim{k}");
        let file = dir.join(format!("{top}.veryl"));
        std::fs::write(&file, format!("module {top} (\n    a: input  logic<{w}>,\n    b: output logic<{w}>,\n) {{\n    assign b = a;\n}}\n")).unwrap();
        let cpath = CString::new(file.to_str().unwrap()).unwrap();
        let ctop = CString::new(top.as_str()).unwrap();
        let (ca, cb) = (CString::new("a").unwrap(), CString::new("b").unwrap());
        let mut got = [SvLogicVecVal { aval: 0xdead_beef, bval: 0xdead_beef }; 4];
        unsafe {
            let h = open(cpath.as_ptr(), ctop.as_ptr(), four);
            set(h, ca.as_ptr(), &ws);
            get(h, cb.as_ptr(), &mut got);
            close(h);
        }
        let _ = std::fs::remove_file(&file);
        let mut want = ws;
        for i in 0..128 {
            if i >= w {
                want[i / 32].aval &= !(1 << (i % 32));
                want[i / 32].bval &= !(1 << (i % 32));
            }
        }
        log.count(if four { "4state" } else { "2state" });
        log.count(if w <= 64 { "width.le64" } else if w <= 128 { "width.65-128" } else { "width.gt128" });
        log.sample(format!("{l} -> {}", show(&got)));
        log.push3(l.clone(), show(&got), show(&want));
    }
    log.add("sequences", lines.len() as u64);
    log.write(&out);
    0
}
