//! Domain `parse` (C10): the real `veryl_parser::parser::Parser::parse` on generated and listed inputs.
//!
//! Parent (`hx parse --out DIR --seed N --n N [--list FILE] [--corpus DIR] [--timeout SECS]`):
//!   * writes the request lines of the table tie (`cfg`, `prod`, `dfa`: the PRODUCTIONS and
//!     LOOKAHEAD_AUTOMATA constants of the *linked* parser) to `ops.txt`,
//!   * generates `--n` malformed inputs from the corpus (seeded) into `DIR/gen/`,
//!   * runs every input (listed + generated) in CHILD processes (`hx parse --child LIST --from I`), so that
//!     a stack overflow / abort is an exit status, with a wall-clock limit per input,
//!   * collects `results.txt` (`<label> <path> <stackMiB> <result>`), and for inputs flagged `T` the request
//!     `ll [token types]` plus the reply reconstructed from parol's own `trace!` records of the run.
//! Child: per input, parse AND DROP in a thread with an 8 MiB stack (main-thread default) and in one with
//! 16 MiB (language server); then (flag `T`) once more with the trace logger on.
//! `hx parse --one FILE [--stack MiB | --stack-kib KiB] [--clone 1] [--measure 1]` runs a single input
//! in-process (replay of a crash; bisection / direct measurement of the stack needed).
//! List flags: `T` trace pass, `2` extra pass with a 2 MiB stack (Rust's default for spawned threads),
//! `M` stack high-water-mark measurement (parse, +clone, +drop), `X`/`O` crash-detection self-tests.
//! `--replay FILE` is accepted as a synonym of `--list FILE` (requests of this domain are derived from
//! input files, so a replay is a list of files: `<flags> <label> <path>` per line).
use crate::rng::Rng;
use crate::util::{Log, Opts};
use std::fmt::Write as _;
use std::io::{BufRead, BufReader, Write};
use std::path::{Path, PathBuf};
use std::process::{Command, Stdio};
use std::sync::Mutex;
use std::sync::atomic::{AtomicBool, Ordering};
use std::sync::mpsc;
use std::time::Duration;
use veryl_parser::parser::Parser;
use veryl_parser::parser_error::ParserError;
use veryl_parser::veryl_parser::{LOOKAHEAD_AUTOMATA, NON_TERMINALS, PRODUCTIONS, TERMINAL_NAMES};

const MIB: usize = 1024 * 1024;

// ------------------------------------------------------------------------------------------------
// running one input
// ------------------------------------------------------------------------------------------------

fn sanitize(s: &str) -> String {
    s.chars()
        .map(|c| if c.is_ascii_alphanumeric() || "_-.:=".contains(c) { c } else { '_' })
        .take(120)
        .collect()
}

/// Classify a parse result. Spans are relative to the newline-terminated copy the parser scans.
fn classify(text: &str, r: &Result<Parser, ParserError>) -> String {
    let buflen = text.len() + if text.ends_with('\n') { 0 } else { 1 };
    match r {
        Ok(_) => "ok".to_string(),
        Err(ParserError::SyntaxError(e)) => {
            let off = e.error_location.offset();
            let len = e.error_location.len();
            format!("syntax:{}..{}/{}", off, off.wrapping_add(len), buflen)
        }
        Err(ParserError::ParserError(e)) => {
            let d = format!("{e:?}");
            let name: String = d.chars().take_while(|c| c.is_ascii_alphanumeric()).collect();
            if name == "MaxParsingDepthExceeded" {
                let num: String = d.chars().filter(|c| c.is_ascii_digit()).collect();
                format!("parol:{name}:{num}")
            } else {
                format!("parol:{name}")
            }
        }
        Err(ParserError::LexerError(e)) => {
            let d = format!("{e:?}");
            let name: String = d.chars().take_while(|c| c.is_ascii_alphanumeric()).collect();
            format!("lexer:{name}")
        }
        Err(ParserError::UserError(e)) => format!("user:{}", sanitize(&e.to_string())),
    }
}

/// Parse and drop `text` in a fresh thread with the given stack size; panics are caught.
fn run_in_thread(text: &str, stack: usize, trace: bool) -> (String, Option<TraceData>) {
    let text = text.to_string();
    let h = std::thread::Builder::new().stack_size(stack).spawn(move || {
        // glibc recycles the stacks of finished threads for later threads that ask for a smaller one (up to
        // 4x smaller): a "2 MiB" thread could silently run on an old 8 MiB stack. The children are started
        // with the stack cache disabled (see `run_worker`); verify the size really obtained anyway.
        let anchor = 0u8;
        if let Some((lo, hi)) = mapping_of(std::hint::black_box(&anchor) as *const u8 as usize) {
            if hi - lo > stack + 512 * 1024 {
                return (format!("stack-recycled:{}", hi - lo), None);
            }
        }
        if trace {
            trace_begin();
        }
        let r = std::panic::catch_unwind(|| {
            let r = Parser::parse(&text, &"c10.veryl");
            let c = classify(&text, &r);
            if WITH_CLONE.load(Ordering::Relaxed) {
                if let Ok(p) = &r {
                    drop(p.veryl.clone());
                }
            }
            drop(r); // the tree (or the error) is dropped inside the measured thread
            c
        });
        let t = if trace { Some(trace_end()) } else { None };
        match r {
            Ok(c) => (c, t),
            Err(p) => {
                let msg = p
                    .downcast_ref::<String>()
                    .cloned()
                    .or_else(|| p.downcast_ref::<&str>().map(|s| s.to_string()))
                    .unwrap_or_default();
                (format!("panic:{}", sanitize(&msg)), t)
            }
        }
    });
    match h {
        Ok(h) => h.join().unwrap_or_else(|_| ("panic:thread".to_string(), None)),
        Err(_) => ("spawn-failed".to_string(), None),
    }
}

// ------------------------------------------------------------------------------------------------
// stack high-water mark (flag `M`): paint the unused part of a big thread stack, run, find the
// deepest byte that was written
// ------------------------------------------------------------------------------------------------

const PAINT: u64 = 0xA5A5_5A5A_A5A5_5A5A;
const MEASURE_STACK: usize = 96 * MIB;

/// [lo, hi) of the mapping that contains `addr` (the thread's stack without its guard page).
fn mapping_of(addr: usize) -> Option<(usize, usize)> {
    let maps = std::fs::read_to_string("/proc/self/maps").ok()?;
    for l in maps.lines() {
        let range = l.split(' ').next()?;
        let (a, b) = range.split_once('-')?;
        let (a, b) = (usize::from_str_radix(a, 16).ok()?, usize::from_str_radix(b, 16).ok()?);
        if a <= addr && addr < b {
            return Some((a, b));
        }
    }
    None
}

#[inline(never)]
fn paint(lo: usize, hi: usize) {
    let mut p = lo;
    while p + 8 <= hi {
        unsafe { std::ptr::write_volatile(p as *mut u64, PAINT) };
        p += 8;
    }
}

/// Lowest address in [lo, hi) that no longer holds the paint.
#[inline(never)]
fn lowest_dirty(lo: usize, hi: usize) -> usize {
    let mut p = lo;
    while p + 8 <= hi {
        if unsafe { std::ptr::read_volatile(p as *const u64) } != PAINT {
            return p;
        }
        p += 8;
    }
    hi
}

/// Bytes of stack used below the entry frame of the measuring thread by the parse, by cloning the tree,
/// and by dropping tree and clone (separate high-water marks), plus the parse result class.
fn measure(text: &str) -> String {
    let text = text.to_string();
    let h = std::thread::Builder::new().stack_size(MEASURE_STACK).spawn(move || {
        let anchor = 0u64;
        let top = std::hint::black_box(&anchor) as *const u64 as usize;
        let Some((lo, _)) = mapping_of(top) else { return "no-mapping".to_string() };
        let lo = (lo + 7) & !7;
        let limit = top - 64 * 1024; // the painter's own frames live above this
        paint(lo, limit);
        // high-water mark since the last (re)paint; then repaint what was dirtied
        let used = |_: ()| {
            let d = lowest_dirty(lo, limit);
            paint(d, limit);
            top - d
        };
        let r = std::panic::catch_unwind(|| {
            let r = Parser::parse(&text, &"c10.veryl");
            let u_parse = used(());
            let cls = classify(&text, &r).split(':').next().unwrap_or("").to_string();
            let (u_clone, u_drop) = match r {
                Ok(p) => {
                    let c = p.veryl.clone();
                    let u_clone = used(());
                    drop(c);
                    drop(p);
                    (u_clone, used(()))
                }
                Err(e) => {
                    drop(e);
                    (0, used(()))
                }
            };
            format!("{cls} {u_parse} {u_clone} {u_drop}")
        });
        r.unwrap_or_else(|_| "panic 0 0 0".to_string())
    });
    match h {
        Ok(h) => h.join().unwrap_or_else(|_| "panic 0 0 0".to_string()),
        Err(_) => "spawn-failed 0 0 0".to_string(),
    }
}

// ------------------------------------------------------------------------------------------------
// trace capture (parol_runtime `trace!` records)
// ------------------------------------------------------------------------------------------------

#[derive(Default, Clone)]
pub struct TraceData {
    toks: Vec<u16>,
    pushes: u64,
    consumed: u64,
    maxdepth: u64,
    hash: u64,
    err: bool,
    records: u64,
}

static TRACE_ON: AtomicBool = AtomicBool::new(false);
/// `hx parse --one FILE --clone 1`: also clone the tree (and drop the clone) in the measured thread.
static WITH_CLONE: AtomicBool = AtomicBool::new(false);
static TRACE: Mutex<Option<TraceData>> = Mutex::new(None);

struct Capture;
static CAPTURE: Capture = Capture;

fn ty_of(msg: &str) -> Option<u16> {
    let i = msg.rfind(", Ty:")?;
    let digits: String = msg[i + 5..].chars().take_while(|c| c.is_ascii_digit()).collect();
    digits.parse().ok()
}

impl log::Log for Capture {
    fn enabled(&self, m: &log::Metadata) -> bool {
        TRACE_ON.load(Ordering::Relaxed) && m.target().starts_with("parol_runtime")
    }
    fn log(&self, r: &log::Record) {
        if !TRACE_ON.load(Ordering::Relaxed) {
            return;
        }
        let target = r.target();
        let is_stream = target == "parol_runtime::lexer::token_stream";
        let is_parser = target == "parol_runtime::parser::parser_types";
        if !is_stream && !is_parser {
            return;
        }
        let mut g = TRACE.lock().unwrap();
        let Some(t) = g.as_mut() else { return };
        t.records += 1;
        if t.err {
            return; // everything after the first syntax error is recovery: not modelled
        }
        let mut msg = String::new();
        let _ = write!(msg, "{}", r.args());
        if is_stream {
            if msg.starts_with("Read ") {
                if let Some(ty) = ty_of(&msg) {
                    // skip tokens (1..=4) never reach the parser; EOI (0) is the padding
                    if ty >= 5 {
                        t.toks.push(ty);
                    }
                }
            }
        } else if msg.starts_with("Consuming token ") {
            t.consumed += 1;
        } else if let Some(rest) = msg.strip_prefix("Pushed production ") {
            // "Pushed production {p}({len}) -> depth {d}"
            let p: String = rest.chars().take_while(|c| c.is_ascii_digit()).collect();
            let d = rest.rsplit(' ').next().unwrap_or("");
            if let (Ok(p), Ok(d)) = (p.parse::<u64>(), d.parse::<u64>()) {
                t.pushes += 1;
                t.hash = (t.hash * 1000003 + p + 1) % 4294967296;
                if d > t.maxdepth {
                    t.maxdepth = d;
                }
            }
        } else if msg.starts_with("\nParser stack:") {
            t.err = true;
        }
    }
    fn flush(&self) {}
}

/// The global level stays `Off` outside the trace pass: at `Trace` the generated semantic actions
/// evaluate `trace!("{}", self.trace_item_stack(..))`, which Debug-formats the whole item stack per
/// action (quadratic) and would distort the measured passes.
fn trace_install() {
    let _ = log::set_logger(&CAPTURE);
    log::set_max_level(log::LevelFilter::Off);
}

fn trace_begin() {
    *TRACE.lock().unwrap() = Some(TraceData::default());
    TRACE_ON.store(true, Ordering::SeqCst);
    log::set_max_level(log::LevelFilter::Trace);
}

fn trace_end() -> TraceData {
    log::set_max_level(log::LevelFilter::Off);
    TRACE_ON.store(false, Ordering::SeqCst);
    TRACE.lock().unwrap().take().unwrap_or_default()
}

/// (request line, reply line) of the correspondence, from the trace and the result of the same run.
fn ll_lines(result: &str, t: &TraceData) -> (String, String) {
    let toks: Vec<String> = t.toks.iter().map(|x| format!("{x:x}")).collect();
    let op = format!("ll [{}]", toks.join(","));
    let tail = format!("pushes={:x} consumed={:x} maxdepth={:x} hash={:x}", t.pushes, t.consumed, t.maxdepth, t.hash);
    let rest = (t.toks.len() as u64).saturating_sub(t.consumed);
    let reply = if t.records == 0 {
        "no-trace".to_string()
    } else if t.err {
        format!("reject {tail}")
    } else if result == "ok" {
        format!("accepted {tail} rest=0")
    } else if result == "parol:UnprocessedInput" {
        format!("accepted {tail} rest={rest:x}")
    } else if let Some(d) = result.strip_prefix("parol:MaxParsingDepthExceeded:") {
        format!("depth-exceeded:{:x} {tail}", d.parse::<u64>().unwrap_or(0))
    } else {
        format!("other:{} {tail}", sanitize(result))
    };
    (op, reply)
}

// ------------------------------------------------------------------------------------------------
// child / one
// ------------------------------------------------------------------------------------------------

struct Entry {
    flags: String,
    label: String,
    path: String,
}

fn read_list(p: &str) -> Vec<Entry> {
    let s = std::fs::read_to_string(p).unwrap_or_default();
    s.lines()
        .filter_map(|l| {
            let mut it = l.splitn(3, ' ');
            Some(Entry { flags: it.next()?.to_string(), label: it.next()?.to_string(), path: it.next()?.to_string() })
        })
        .collect()
}

fn read_input(path: &str) -> String {
    String::from_utf8_lossy(&std::fs::read(path).unwrap_or_default()).into_owned()
}

#[allow(unconditional_recursion)]
#[inline(never)]
fn overflow(n: u64) -> u64 {
    let pad = [n; 64];
    std::hint::black_box(&pad);
    overflow(n + 1) + pad[(n % 64) as usize]
}

fn child(list: &str, from: usize, stride: usize, offset: usize) -> i32 {
    std::panic::set_hook(Box::new(|_| {}));
    trace_install();
    let entries = read_list(list);
    let out = std::io::stdout();
    for (i, e) in entries.iter().enumerate().skip(from) {
        if i % stride.max(1) != offset {
            continue;
        }
        let text = read_input(&e.path);
        let mut o = out.lock();
        writeln!(o, "B {i}").unwrap();
        o.flush().unwrap();
        let t0 = std::time::Instant::now();
        // self-tests of the crash detection (flags `X` = abort, `O` = genuine stack overflow)
        if e.flags.contains('X') {
            std::process::abort();
        }
        if e.flags.contains('O') {
            let h = std::thread::Builder::new().stack_size(8 * MIB).spawn(|| overflow(1)).unwrap();
            let _ = h.join();
        }
        // measurement first (96 MiB stack): it must be available even if a smaller stack overflows below
        if e.flags.contains('M') {
            let m = measure(&text);
            writeln!(o, "S {i} {m}").unwrap();
            o.flush().unwrap();
        }
        // ascending sizes (a smaller request is never served from a bigger cached stack of this input)
        let mut sizes: Vec<usize> = vec![8, 16];
        if e.flags.contains('2') {
            // Rust's default stack of a spawned thread: what a library caller / worker thread gets
            sizes.insert(0, 2);
        }
        for mib in sizes {
            let (r, _) = run_in_thread(&text, mib * MIB, false);
            writeln!(o, "R {i} {mib} {r}").unwrap();
            o.flush().unwrap();
        }
        let ms_plain = t0.elapsed().as_millis();
        if e.flags.contains('T') {
            let (r, t) = run_in_thread(&text, 64 * MIB, true);
            let (op, reply) = ll_lines(&r, &t.unwrap_or_default());
            writeln!(o, "T {i} {op}").unwrap();
            writeln!(o, "I {i} {reply}").unwrap();
        }
        writeln!(o, "E {i} {ms_plain} {}", t0.elapsed().as_millis()).unwrap();
        o.flush().unwrap();
    }
    0
}

fn one(path: &str, opts: &Opts) -> i32 {
    std::panic::set_hook(Box::new(|_| {}));
    let text = read_input(path);
    WITH_CLONE.store(opts.get("clone").is_some(), Ordering::SeqCst);
    if let Some(kib) = opts.get("stack-kib") {
        // exact thread stack size in KiB (bisection of the stack actually needed)
        let kib: usize = kib.parse().unwrap_or(2048);
        let (r, _) = run_in_thread(&text, kib * 1024, false);
        println!("{kib}KiB {r}");
        return 0;
    }
    if opts.get("measure").is_some() {
        println!("measure {}", measure(&text));
        return 0;
    }
    let stacks: Vec<usize> = match opts.get("stack") {
        Some(s) => vec![s.parse().unwrap_or(8)],
        None => vec![2, 8, 16],
    };
    for mib in stacks {
        let (r, _) = run_in_thread(&text, mib * MIB, false);
        println!("{mib} {r}");
    }
    if opts.get("trace").is_some() {
        trace_install();
        let (r, t) = run_in_thread(&text, 64 * MIB, true);
        let (op, reply) = ll_lines(&r, &t.unwrap_or_default());
        println!("{op}\n{reply}");
    }
    0
}

// ------------------------------------------------------------------------------------------------
// parent
// ------------------------------------------------------------------------------------------------

fn sym(s: &str) -> String {
    // Debug of ParseType: "N(12)" / "T(5)" / "E(3)"
    let k = s.chars().next().unwrap_or('?').to_ascii_lowercase();
    let n: u64 = s.chars().filter(|c| c.is_ascii_digit()).collect::<String>().parse().unwrap_or(0);
    format!("{k}{n:x}")
}

fn prod_idx(p: i32) -> String {
    if p < 0 { "-".to_string() } else { format!("{p:x}") }
}

fn table_ops(log: &mut Log) {
    let start = NON_TERMINALS.iter().position(|n| *n == "Veryl").unwrap_or(usize::MAX);
    let maxk = LOOKAHEAD_AUTOMATA.iter().map(|d| d.k).max().unwrap_or(0);
    log.push(
        format!("cfg {:x} {:x} {:x} {:x} {:x}", start, maxk, PRODUCTIONS.len(), NON_TERMINALS.len(), TERMINAL_NAMES.len()),
        "ok".to_string(),
    );
    for (i, p) in PRODUCTIONS.iter().enumerate() {
        let rhs: Vec<String> = p.production.iter().map(|s| sym(&format!("{s:?}"))).collect();
        log.push(
            format!("prod {:x} {:x} {} [{}]", i, p.lhs, if p.is_push_production { 1 } else { 0 }, rhs.join(",")),
            "ok".to_string(),
        );
        log.count("table.productions");
    }
    for (i, d) in LOOKAHEAD_AUTOMATA.iter().enumerate() {
        let tr: Vec<String> = d
            .transitions
            .iter()
            .map(|t| format!("{:x}:{:x}:{:x}:{}", t.0, t.1, t.2, prod_idx(t.3 as i32)))
            .collect();
        log.push(format!("dfa {:x} {} {:x} [{}]", i, prod_idx(d.prod0 as i32), d.k, tr.join(",")), "ok".to_string());
        log.count("table.automata");
        log.add("table.transitions", d.transitions.len() as u64);
    }
}

const STRAY: &[&str] = &[
    "\0", "\u{1}", "\u{7f}", "\\", "\"", "'", "`", "#", "@", "$", "?", "é", "日本", "𝄞", "\u{feff}", "\u{2028}", "\r", "\r\n",
    "\u{85}", "\t", "\u{b}", "}", "{", ")", "(", "]", "[", ">", "<", "::<", "{{{", "}}}", "/*", "*/", "//", "'{", "#[",
];

const VOCAB: &[&str] = &[
    "module", "interface", "package", "function", "if", "else", "for", "in", "case", "switch", "let", "var", "const", "assign",
    "always_ff", "always_comb", "inst", "import", "pub", "embed", "include", "logic", "bit", "u32", "a", "b", "_x", "r#if", "1",
    "8'hff", "'0", "1.5e3", "\"s\"", "{", "}", "(", ")", "[", "]", "<", ">", "::<", "::", ":", ";", ",", ".", "..", "..=", "=",
    "==", "+", "-", "*", "/", "**", "&", "|", "^", "~", "!", "?", "+=", "<<<", "->", "<-", "#[", "'{", "{{{", "}}}", "$sv", "as",
    "<:", ">:", "=>", "//c\n", "/*c*/", "\n",
];

fn char_pos(s: &str, r: &mut Rng) -> usize {
    if s.is_empty() {
        return 0;
    }
    let mut p = r.below(s.len() as u64 + 1) as usize;
    while !s.is_char_boundary(p) {
        p -= 1;
    }
    p
}

fn mutate(base: &str, r: &mut Rng, log: &mut Log) -> String {
    let kind = r.below(14);
    let name = [
        "truncate", "stray", "open-comment", "open-string", "open-embed", "delete", "duplicate", "bracket-swap", "random-bytes",
        "token-soup", "crlf", "no-final-newline-comment", "multi-stray", "cr-only",
    ][kind as usize];
    log.count(&format!("malformed.{name}"));
    let mut s = base.to_string();
    match kind {
        0 => {
            let p = char_pos(&s, r);
            s.truncate(p);
        }
        1 => {
            let p = char_pos(&s, r);
            s.insert_str(p, *r.pick(STRAY));
        }
        2 => {
            let p = char_pos(&s, r);
            s.insert_str(p, "/*");
            s = s.replace("*/", "* /");
        }
        3 => {
            let p = char_pos(&s, r);
            s.insert_str(p, "\"");
        }
        4 => {
            let p = char_pos(&s, r);
            s.insert_str(p, " embed (inline) sv{{{ x { y ");
        }
        5 => {
            let (a, b) = (char_pos(&s, r), char_pos(&s, r));
            let (a, b) = (a.min(b), a.max(b));
            s.replace_range(a..b.min(a + 200), "");
        }
        6 => {
            let (a, b) = (char_pos(&s, r), char_pos(&s, r));
            let (a, b) = (a.min(b), a.max(b));
            let mut e = b.min(a + 400);
            while !s.is_char_boundary(e) {
                e -= 1;
            }
            let piece = s[a..e].to_string();
            s.insert_str(a, &piece);
        }
        7 => {
            let idx: Vec<usize> = s.char_indices().filter(|(_, c)| "(){}[]<>".contains(*c)).map(|(i, _)| i).collect();
            if !idx.is_empty() {
                let i = *r.pick(&idx);
                let c = *r.pick(&["(", ")", "{", "}", "[", "]", "<", ">", ""]);
                s.replace_range(i..i + 1, c);
            }
        }
        8 => {
            let n = r.below(200) as usize;
            let bytes: Vec<u8> = (0..n).map(|_| r.next() as u8).collect();
            s = String::from_utf8_lossy(&bytes).into_owned();
        }
        9 => {
            let n = r.below(300) as usize;
            s = (0..n).map(|_| *r.pick(VOCAB)).collect::<Vec<_>>().join(" ");
        }
        10 => s = s.replace('\n', "\r\n"),
        11 => {
            while s.ends_with('\n') {
                s.pop();
            }
            s.push_str(" // trailing comment without newline");
        }
        12 => {
            for _ in 0..r.range(2, 6) {
                let p = char_pos(&s, r);
                s.insert_str(p, *r.pick(STRAY));
            }
        }
        _ => s = s.replace('\n', "\r"),
    }
    s
}

fn signal_name(st: &std::process::ExitStatus) -> String {
    #[cfg(unix)]
    {
        use std::os::unix::process::ExitStatusExt;
        if let Some(sig) = st.signal() {
            return match sig {
                11 => "SIGSEGV".to_string(),
                6 => "SIGABRT".to_string(),
                7 => "SIGBUS".to_string(),
                9 => "SIGKILL".to_string(),
                n => format!("SIG{n}"),
            };
        }
    }
    format!("exit{}", st.code().unwrap_or(-1))
}

struct Res {
    ms: u64,
    ms_all: u64,
    /// results of the 8 MiB, 16 MiB and (flag `2`) 2 MiB passes
    r: [Option<String>; 3],
    measure: Option<String>,
    ll: Option<(String, String)>,
    op: Option<String>,
}

/// Run all entries in child processes; a crashed / hung child is replaced and the run resumes
/// after the input it died on.
/// `jobs` workers, worker j owning the inputs with index ≡ j (mod jobs).
fn run_children(list: &str, n: usize, timeout: Duration, jobs: usize, log: &mut Log) -> Vec<Res> {
    let jobs = jobs.max(1);
    let handles: Vec<_> = (0..jobs)
        .map(|j| {
            let list = list.to_string();
            std::thread::spawn(move || {
                let mut l = Log::new();
                let r = run_worker(&list, n, timeout, jobs, j, &mut l);
                (r, l.stats)
            })
        })
        .collect();
    let mut parts: Vec<Vec<Res>> = vec![];
    for h in handles {
        let (r, stats) = h.join().expect("worker");
        for (k, v) in stats {
            log.add(&k, v);
        }
        parts.push(r);
    }
    let mut iters: Vec<_> = parts.into_iter().map(|p| p.into_iter()).collect();
    let mut out = vec![];
    for i in 0..n {
        // every worker returns a full-length vector; take entry i from its owner, drop the others
        let mut mine = None;
        for (j, it) in iters.iter_mut().enumerate() {
            let x = it.next().unwrap();
            if j == i % jobs {
                mine = Some(x);
            }
        }
        out.push(mine.unwrap());
    }
    out
}

fn run_worker(list: &str, n: usize, timeout: Duration, stride: usize, offset: usize, log: &mut Log) -> Vec<Res> {
    let exe = std::env::current_exe().unwrap();
    let entries = read_list(list);
    let mut res: Vec<Res> = (0..n).map(|_| Res { ms: 0, ms_all: 0, r: [None, None, None], measure: None, ll: None, op: None }).collect();
    let mut from = 0usize;
    while from < n {
        let mut ch = Command::new(&exe)
            .args(["parse", "--child", list, "--from", &from.to_string()])
            .args(["--stride", &stride.to_string(), "--offset", &offset.to_string()])
            // exact thread stack sizes: no recycling of bigger stacks of finished threads
            .env("GLIBC_TUNABLES", "glibc.pthread.stack_cache_size=0")
            .stdin(Stdio::null())
            .stdout(Stdio::piped())
            .stderr(Stdio::null())
            .spawn()
            .expect("spawn child");
        log.count("children");
        let stdout = ch.stdout.take().unwrap();
        let (tx, rx) = mpsc::channel::<String>();
        let reader = std::thread::spawn(move || {
            let mut rd = BufReader::new(stdout);
            let mut buf = Vec::new();
            loop {
                buf.clear();
                match rd.read_until(b'\n', &mut buf) {
                    Ok(0) | Err(_) => break,
                    Ok(_) => {
                        let l = String::from_utf8_lossy(&buf).trim_end_matches('\n').to_string();
                        if tx.send(l).is_err() {
                            break;
                        }
                    }
                }
            }
        });
        let mut cur: Option<usize> = None;
        let mut done_upto = from; // first index not yet completed
        let mut timed_out = false;
        loop {
            match rx.recv_timeout(timeout) {
                Ok(l) => {
                    let mut it = l.splitn(3, ' ');
                    let (k, i, rest) = (it.next().unwrap_or(""), it.next().unwrap_or(""), it.next().unwrap_or(""));
                    let Ok(i) = i.parse::<usize>() else { continue };
                    if i >= n {
                        continue;
                    }
                    match k {
                        "B" => cur = Some(i),
                        "R" => {
                            let mut p = rest.splitn(2, ' ');
                            let mib = p.next().unwrap_or("");
                            let r = p.next().unwrap_or("").to_string();
                            res[i].r[match mib {
                                "8" => 0,
                                "16" => 1,
                                _ => 2,
                            }] = Some(r);
                        }
                        "S" => res[i].measure = Some(rest.to_string()),
                        "T" => res[i].op = Some(rest.to_string()),
                        "I" => {
                            if let Some(op) = res[i].op.take() {
                                res[i].ll = Some((op, rest.to_string()));
                            }
                        }
                        "E" => {
                            res[i].ms = rest.split(' ').next().and_then(|x| x.parse().ok()).unwrap_or(0);
                            res[i].ms_all = rest.split(' ').nth(1).and_then(|x| x.parse().ok()).unwrap_or(0);
                            cur = None;
                            done_upto = i + 1;
                        }
                        _ => {}
                    }
                }
                Err(mpsc::RecvTimeoutError::Timeout) => {
                    timed_out = true;
                    let _ = ch.kill();
                    break;
                }
                Err(mpsc::RecvTimeoutError::Disconnected) => break,
            }
        }
        let st = ch.wait().expect("wait child");
        let _ = reader.join();
        if let Some(i) = cur {
            // the child died (or hung) while working on input i
            let why = if timed_out { "timeout".to_string() } else { format!("crash:{}", signal_name(&st)) };
            log.count(if timed_out { "timeouts" } else { "crashes" });
            // stages in the order the child runs them; the first one without a result is where it died
            let flags = entries.get(i).map(|e| e.flags.as_str()).unwrap_or("");
            let mut placed = false;
            if flags.contains('M') && res[i].measure.is_none() {
                res[i].measure = Some(format!("{why} 0 0 0"));
                placed = true;
            }
            for k in [2usize, 0, 1] {
                if placed || (k == 2 && !flags.contains('2')) {
                    continue;
                }
                if res[i].r[k].is_none() {
                    res[i].r[k] = Some(why.clone());
                    placed = true; // later stages were never started: they stay "not-run"
                }
            }
            if !placed && res[i].ll.is_none() && !timed_out {
                // died in the trace pass (64 MiB)
                res[i].ll = Some(("ll []".to_string(), why));
            }
            from = i + 1;
        } else if done_upto >= n || st.success() {
            from = n.max(done_upto);
        } else {
            // died between inputs (should not happen): skip one to guarantee progress
            log.count("crashes.between-inputs");
            from = done_upto + 1;
        }
    }
    res
}

pub fn main(opts: &Opts) -> i32 {
    if let Some(list) = opts.get("child") {
        return child(list, opts.num("from", 0) as usize, opts.num("stride", 1) as usize, opts.num("offset", 0) as usize);
    }
    if let Some(f) = opts.get("one") {
        return one(f, opts);
    }
    let out = opts.out();
    let mut log = Log::new();
    let mut rng = Rng::new(opts.seed());
    table_ops(&mut log);

    let mut entries: Vec<Entry> = vec![];
    if let Some(l) = opts.get("list").or(opts.get("replay")) {
        entries.extend(read_list(l));
    }
    // malformed stream from the corpus
    let corpus_dir = opts.get("corpus").unwrap_or("/repo/testcases/veryl");
    let mut corpus: Vec<PathBuf> = std::fs::read_dir(corpus_dir)
        .map(|d| d.flatten().map(|e| e.path()).filter(|p| p.extension().is_some_and(|x| x == "veryl")).collect())
        .unwrap_or_default();
    corpus.sort();
    let n = opts.num("n", 0) as usize;
    if n > 0 && !corpus.is_empty() {
        let gen_dir = out.join("gen");
        let _ = std::fs::remove_dir_all(&gen_dir);
        std::fs::create_dir_all(&gen_dir).unwrap();
        for i in 0..n {
            let base = read_input(&rng.pick(&corpus).to_string_lossy());
            let mut s = mutate(&base, &mut rng, &mut log);
            if rng.chance(1, 4) {
                s = mutate(&s, &mut rng, &mut log);
            }
            let p = gen_dir.join(format!("m{i:05}.veryl"));
            std::fs::write(&p, s.as_bytes()).unwrap();
            // the trace pass is quadratic in the input size (see `trace_install`): only small inputs
            let flags = if s.len() <= opts.num("trace-max", 1500) as usize { "T" } else { "-" };
            entries.push(Entry { flags: flags.into(), label: "malformed".into(), path: p.to_string_lossy().into_owned() });
        }
    }
    let list_path = out.join("list.txt");
    {
        let mut f = std::io::BufWriter::new(std::fs::File::create(&list_path).unwrap());
        for e in &entries {
            writeln!(f, "{} {} {}", e.flags, e.label, e.path).unwrap();
        }
    }
    let timeout = Duration::from_secs(opts.num("timeout", 120));
    let res = run_children(&list_path.to_string_lossy(), entries.len(), timeout, opts.num("jobs", 4) as usize, &mut log);

    let mut results = std::io::BufWriter::new(std::fs::File::create(out.join("results.txt")).unwrap());
    let mut measures = std::io::BufWriter::new(std::fs::File::create(out.join("measure.txt")).unwrap());
    for (e, r) in entries.iter().zip(res.iter()) {
        log.count("inputs");
        log.count(&format!("inputs.{}", e.label.split(':').next().unwrap_or("")));
        log.add(&format!("plain_ms.{}", e.label.split(':').next().unwrap_or("")), r.ms);
        log.add(&format!("trace_ms.{}", e.label.split(':').next().unwrap_or("")), r.ms_all.saturating_sub(r.ms));
        let slowest = log.stats.entry("plain_ms.max".to_string()).or_insert(0);
        *slowest = (*slowest).max(r.ms);
        for (k, mib) in [(2usize, 2), (0, 8), (1, 16)] {
            if k == 2 && !e.flags.contains('2') {
                continue;
            }
            let v = r.r[k].clone().unwrap_or_else(|| "not-run".to_string());
            let class: String = v.split(':').take(2).collect::<Vec<_>>().join(":");
            let class = if v.starts_with("syntax:") { "syntax".to_string() } else { class };
            log.count(&format!("result.{class}"));
            writeln!(results, "{} {} {} {}", e.label, e.path, mib, v).unwrap();
        }
        if e.flags.contains('M') {
            // `<label> <path> <class> <parse> <clone> <drop>` (separate stack high-water marks, bytes)
            let m = r.measure.clone().unwrap_or_else(|| "not-run 0 0 0".to_string());
            writeln!(measures, "{} {} {}", e.label, e.path, m).unwrap();
            log.count("measured");
        }
        if let Some((op, reply)) = &r.ll {
            log.count("sequences");
            log.count(&format!("ll.{}", reply.split([' ', ':']).next().unwrap_or("")));
            log.add("ll.tokens", op.matches(',').count() as u64 + 1);
            if log.samples.len() < 5 && reply.starts_with("accepted") && op.len() < 200 {
                log.sample(format!("{} -> {op} -> {reply}", Path::new(&e.path).file_name().unwrap().to_string_lossy()));
            }
            log.push(op.clone(), reply.clone());
        } else if e.flags.contains('T') {
            log.count("ll.missing");
            log.push("ll []".to_string(), "missing".to_string());
        }
    }
    drop(results);
    drop(measures);
    log.write(&out);
    0
}
