//! Domain `pipeline` (C11): every parseable input goes through all analyzer passes, the emitter
//! (only when analysis reported no error, as `veryl build` does) and the formatter under
//! `catch_unwind`, in a thread with the language server's 16 MiB stack, with a wall-clock limit.
//! Inputs: testcases/veryl, testcases/error, the std library, and line/token mutants of them
//! (ill-typed, unresolved, recursive, partially edited programs).
use crate::rng::Rng;
use crate::util::{Log, Opts};
use std::panic;
use std::path::PathBuf;
use std::sync::Mutex;
use std::time::Instant;
use veryl_analyzer::ir as air;
use veryl_analyzer::{Analyzer, Context, symbol_table};
use veryl_emitter::Emitter;
use veryl_formatter::Formatter;
use veryl_metadata::Metadata;
use veryl_parser::Parser;

static LAST_PANIC: Mutex<String> = Mutex::new(String::new());

fn mutate_lines(r: &mut Rng, src: &str, all: &[String]) -> String {
    let mut lines: Vec<String> = src.lines().map(|x| x.to_string()).collect();
    let n = 1 + r.below(3);
    for _ in 0..n {
        if lines.is_empty() {
            break;
        }
        let i = r.below(lines.len() as u64) as usize;
        match r.below(8) {
            0 => {
                lines.remove(i);
            }
            1 => {
                let l = lines[i].clone();
                lines.insert(i, l);
            }
            2 => {
                let other = &all[r.below(all.len() as u64) as usize];
                let ol: Vec<&str> = other.lines().collect();
                if !ol.is_empty() {
                    let j = r.below(ol.len() as u64) as usize;
                    lines.insert(i, ol[j].to_string());
                }
            }
            3 => {
                let l = lines[i].clone();
                let toks: Vec<&str> = l.split(' ').collect();
                if toks.len() > 1 {
                    let a = r.below(toks.len() as u64) as usize;
                    let b = r.below(toks.len() as u64) as usize;
                    let mut t: Vec<String> = toks.iter().map(|x| x.to_string()).collect();
                    t.swap(a, b);
                    lines[i] = t.join(" ");
                }
            }
            4 => {
                // inflate numbers; only rarely to sizes that make elaboration allocate for
                // minutes (that class is a recorded finding and would dominate the run time)
                let big = if r.chance(1, 12) { "100000" } else { "130" };
                lines[i] = lines[i].replace('8', "0").replace('1', big);
            }
            5 => {
                lines[i] = lines[i].replace("logic", "bit").replace("input", "output");
            }
            6 => {
                // rename one identifier occurrence: unresolved / shadowing references
                lines[i] = lines[i].replacen("a", "b", 1);
            }
            _ => {
                // swap two lines
                let j = r.below(lines.len() as u64) as usize;
                lines.swap(i, j);
            }
        }
    }
    lines.join("\n") + "\n"
}

/// Result line of one input.
fn run_one(code: &str) -> String {
    let metadata = Metadata::create_default("prj").unwrap();
    Analyzer::new(&metadata).clear();
    symbol_table::clear();
    let Ok(parser) = Parser::parse(code, &"f.veryl") else {
        return "noparse".to_string();
    };
    let analyzer = Analyzer::new(&metadata);
    let mut context = Context::default();
    let mut ir = air::Ir::default();
    let mut errors = vec![];
    errors.append(&mut analyzer.analyze_pass1("prj", &parser.veryl));
    errors.append(&mut Analyzer::analyze_post_pass1());
    errors.append(&mut analyzer.analyze_pass2(&parser.veryl, &mut context, Some(&mut ir)));
    errors.append(&mut Analyzer::analyze_post_pass2(&ir));
    let nerr = errors.iter().filter(|x| x.is_error()).count();
    let mut emitted = 0;
    if nerr == 0 {
        let p = PathBuf::from("f.veryl");
        let mut emitter = Emitter::new(&metadata, "prj", &p, &PathBuf::from("f.sv"), &PathBuf::from("f.sv.map"));
        emitter.emit(&parser.veryl, code);
        emitted = 1;
    }
    let mut formatter = Formatter::new(&metadata);
    formatter.format(&parser.veryl, code);
    format!("ok errors={} emitted={}", if nerr > 0 { 1 } else { 0 }, emitted)
}

fn load_corpus() -> Vec<(String, String)> {
    let mut files = vec![];
    // corpus/C11: minimised past crashes (witnesses of the recorded findings), always run first
    for dir in ["/verif/corpus/C11", "/repo/testcases/veryl", "/repo/testcases/error", "/repo/crates/std/veryl/src"] {
        let mut stack = vec![PathBuf::from(dir)];
        while let Some(d) = stack.pop() {
            let Ok(rd) = std::fs::read_dir(&d) else { continue };
            for e in rd.flatten() {
                let p = e.path();
                if p.is_dir() {
                    stack.push(p);
                } else if p.extension().is_some_and(|x| x == "veryl") {
                    if let Ok(s) = std::fs::read_to_string(&p) {
                        files.push((p.to_string_lossy().to_string(), s));
                    }
                }
            }
        }
    }
    files.sort();
    files
}

pub fn main(opts: &Opts) -> i32 {
    let out = opts.out();
    let n = opts.num("n", 600);
    let seed = opts.seed();
    let limit_ms = opts.num("limit_ms", 30000) as u128;
    let replay = opts.get("replay").map(|x| x.to_string());
    let workers = opts.num("workers", 16) as usize;
    let one = opts.get("one").map(|x| x.to_string());
    let mem_kb = opts.num("mem_kb", 6_000_000);
    panic::set_hook(Box::new(|info| {
        let loc = info.location().map(|l| format!("{}:{}", l.file(), l.line())).unwrap_or_default();
        let msg = if let Some(s) = info.payload().downcast_ref::<&str>() {
            s.to_string()
        } else if let Some(s) = info.payload().downcast_ref::<String>() {
            s.clone()
        } else {
            "?".into()
        };
        let msg: String = msg.chars().take(80).collect();
        let msg = msg.replace(['\n', ' '], "_");
        *LAST_PANIC.lock().unwrap() = format!("{loc}::{msg}");
    }));
    if let Some(f) = one {
        // child mode: one input, one result line on stdout
        let code = std::fs::read_to_string(&f).expect("input file");
        let h = std::thread::Builder::new()
            .stack_size(16 * 1024 * 1024)
            .spawn(move || {
                let res = panic::catch_unwind(panic::AssertUnwindSafe(|| run_one(&code)));
                match res {
                    Ok(s) => println!("{s}"),
                    Err(_) => println!("panic {}", LAST_PANIC.lock().unwrap()),
                }
            })
            .unwrap();
        h.join().unwrap();
        return 0;
    }
    let out2 = out.clone();
    let handle = std::thread::Builder::new()
        .stack_size(16 * 1024 * 1024)
        .spawn(move || {
            let mut log = Log::new();
            let mut cases: Vec<(String, String)> = vec![];
            if let Some(f) = replay {
                cases.push((f.clone(), std::fs::read_to_string(&f).expect("replay file")));
            } else {
                let corpus = load_corpus();
                let all: Vec<String> = corpus.iter().map(|x| x.1.clone()).collect();
                let mut r = Rng::new(seed);
                for (name, code) in &corpus {
                    cases.push((format!("orig:{name}"), code.clone()));
                }
                // corpus/C11x: later witnesses; run as they stand but kept out of the mutation
                // base, so that recording a witness does not change the mutant stream of a seed
                let mut extra: Vec<_> = std::fs::read_dir("/verif/corpus/C11x")
                    .map(|rd| rd.flatten().map(|e| e.path()).collect())
                    .unwrap_or_default();
                extra.sort();
                for p in extra {
                    if let Ok(s) = std::fs::read_to_string(&p) {
                        cases.push((format!("orig:{}", p.to_string_lossy()), s));
                    }
                }
                for i in 0..n {
                    let k = r.below(all.len() as u64) as usize;
                    let mut code = mutate_lines(&mut r, &all[k], &all);
                    if r.chance(1, 4) {
                        code = mutate_lines(&mut r, &code, &all);
                    }
                    cases.push((format!("mut{i}:{}", corpus[k].0), code));
                }
            }
            // One child process per case (`hx pipeline --one FILE`): analyzer state is
            // thread-local and process-global tables are never fully reset, so isolation by
            // process is the only way to attribute a crash to ONE input; it also turns a stack
            // overflow or abort into an observable exit status instead of killing the harness.
            let exe = std::env::current_exe().unwrap();
            let case_dir = out2.join("cases");
            let _ = std::fs::create_dir_all(&case_dir);
            for (idx, (_, code)) in cases.iter().enumerate() {
                std::fs::write(case_dir.join(format!("{idx}.veryl")), code).unwrap();
            }
            let next = std::sync::atomic::AtomicUsize::new(0);
            let results: Mutex<Vec<Option<String>>> = Mutex::new(vec![None; cases.len()]);
            let ncase = cases.len();
            std::thread::scope(|sc| {
                for _ in 0..workers {
                    sc.spawn(|| loop {
                        let idx = next.fetch_add(1, std::sync::atomic::Ordering::SeqCst);
                        if idx >= ncase {
                            break;
                        }
                        let f = case_dir.join(format!("{idx}.veryl"));
                        let t = Instant::now();
                        // The limit is on the child's CPU time and address space (ulimit), not on
                        // wall-clock time: a loaded machine must not turn a 50 ms analysis into a
                        // "slow" verdict.  `limit_ms` is the CPU budget; the wall-clock guard is
                        // 20x larger and only catches a child that sleeps for ever.
                        let cpu_s = (limit_ms / 1000).max(1);
                        let script = format!(
                            "ulimit -t {cpu_s}; ulimit -v {mem_kb}; exec \"$0\" pipeline --one \"$1\""
                        );
                        let mut child = std::process::Command::new("sh")
                            .arg("-c")
                            .arg(&script)
                            .arg(&exe)
                            .arg(&f)
                            .stdout(std::process::Stdio::piped())
                            .stderr(std::process::Stdio::null())
                            .spawn()
                            .unwrap();
                        let reply = loop {
                            match child.try_wait().unwrap() {
                                Some(st) => {
                                    let mut so = String::new();
                                    use std::io::Read;
                                    let _ = child.stdout.take().unwrap().read_to_string(&mut so);
                                    let line = so.lines().last().unwrap_or("").to_string();
                                    if st.success() && !line.is_empty() {
                                        break line;
                                    }
                                    use std::os::unix::process::ExitStatusExt;
                                    match st.signal() {
                                        // SIGXCPU / SIGKILL after the CPU limit
                                        Some(24) | Some(9) => break format!("slow cpu>{cpu_s}s"),
                                        _ => {}
                                    }
                                    break format!("abort status={st}").replace(' ', "_").replacen("abort_", "abort ", 1);
                                }
                                None => {
                                    if t.elapsed().as_millis() > limit_ms * 20 {
                                        let _ = child.kill();
                                        let _ = child.wait();
                                        break format!("slow wall>{}ms", limit_ms * 20);
                                    }
                                    std::thread::sleep(std::time::Duration::from_millis(2));
                                }
                            }
                        };
                        results.lock().unwrap()[idx] = Some(reply);
                    });
                }
            });
            let results = results.into_inner().unwrap();
            for (idx, (name, code)) in cases.iter().enumerate() {
                let reply = results[idx].clone().unwrap_or_else(|| "abort missing".to_string());
                let kind = reply.split(' ').next().unwrap().to_string();
                log.count(&format!("result_{kind}"));
                if reply.starts_with("ok") {
                    log.count(&format!("{}", reply.replace(' ', "_")));
                }
                let oracle = if reply.starts_with("ok") || reply == "noparse" { reply.clone() } else { "ok".to_string() };
                if !(reply.starts_with("ok") || reply == "noparse") {
                    let _ = std::fs::write(out2.join(format!("case_{idx}.veryl")), code);
                }
                if idx % 97 == 0 {
                    log.sample(format!("{name} -> {reply}"));
                }
                log.push3(format!("case {idx} {}", name.replace(' ', "_")), reply, oracle);
            }
            let _ = std::fs::remove_dir_all(&case_dir);
            log.add("cases", cases.len() as u64);
            log.write(&out2);
        })
        .unwrap();
    handle.join().unwrap();
    0
}
