//! Domain `paths` (C25).
//!
//! Generated mode (`--seed N --n N` / `--replay FILE`): small project layouts in a scratch
//! directory → the real `Metadata::paths` → `dst`/`map` of every source file.
//!   `path <target> <map> <base> <rel>`            → `dst=<path> map=<path>` (relative to the project)
//!   `distinct <target> <map> [base:rel,…]`        → `dst=ok|dup map=ok|dup`  (oracle: `dst=ok map=ok`)
//!   `deps [dep:project:rel,…]`                    → `[dst,…]` of the files of PATH DEPENDENCIES (`Lockfile::paths`):
//!                                                  dependency name, its own `[project] name`, file below its root
//!   `depsdistinct [dep:project:rel,…]`            → `ok|dup` (oracle `ok`): no two dependency files share a dst/map
//! with target = `s` | `d:<dir>` | `b:<file>`, map = `t` | `d:<dir>` | `n`, paths `a/b/c` (`.` = empty),
//! `rel` the source file below the source directory `base` without its `.veryl` extension.
//!
//! Project mode (`--projects FILE`, one `<project dir>\t<filelist>` per line): for a project that the
//! `veryl` CLI has just built, re-runs parse + pass 1 + post-pass-1 in process, reads the REAL
//! `type_dag::connected_components()` / `type_dag::toposort()` and writes
//!   `sort [file ids] [candidate symbols] [toposorted symbols]`   (symbol = `id:file|-:0|1`)
//! whose implementation reply is the order of the CLI's filelist (file ids = rank of the source path).
use crate::rng::Rng;
use crate::util::{Log, Opts};
use std::collections::{BTreeMap, HashMap};
use std::fs;
use std::panic::{AssertUnwindSafe, catch_unwind};
use std::path::{Path, PathBuf};
use veryl_analyzer::Analyzer;
use veryl_analyzer::namespace::Namespace;
use veryl_analyzer::symbol::SymbolKind;
use veryl_analyzer::type_dag;
use veryl_metadata::Metadata;
use veryl_parser::veryl_token::TokenSource;
use veryl_parser::{Parser, resource_table};

const DIRS: &[&str] = &["a", "b", "sub", "x.y", "é", "core"];
const STEMS: &[&str] = &["foo", "bar", "foo.bar", "Foo", "baz_1", "top"];
const BASES: &[&str] = &[".", "src", "rtl/core", "hdl"];
const TDIRS: &[&str] = &["target", "out/sv", ".", "gen"];
const MDIRS: &[&str] = &["maps", "target", "out/maps", "."];

fn comps(s: &str) -> PathBuf {
    if s == "." { PathBuf::new() } else { PathBuf::from(s) }
}

fn show(p: &Path) -> String {
    let s = p.to_string_lossy().to_string();
    if s.is_empty() { ".".to_string() } else { s }
}

fn toml(target: &str, map: &str, bases: &[String]) -> Option<String> {
    let t = match target.split_once(':') {
        None if target == "s" => "{type = \"source\"}".to_string(),
        Some(("d", p)) => format!("{{type = \"directory\", path = \"{}\"}}", comps(p).to_string_lossy()),
        Some(("b", p)) => format!("{{type = \"bundle\", path = \"{}\"}}", comps(p).to_string_lossy()),
        _ => return None,
    };
    let m = match map.split_once(':') {
        None if map == "t" => "{type = \"target\"}".to_string(),
        None if map == "n" => "{type = \"none\"}".to_string(),
        Some(("d", p)) => format!("{{type = \"directory\", path = \"{}\"}}", comps(p).to_string_lossy()),
        _ => return None,
    };
    let srcs: Vec<String> = bases.iter().map(|b| format!("\"{}\"", comps(b).to_string_lossy())).collect();
    Some(format!(
        "[project]\nname = \"prj\"\nversion = \"0.1.0\"\n[build]\nsources = [{}]\ntarget = {t}\nsourcemap_target = {m}\nexclude_std = true\n",
        srcs.join(", ")
    ))
}

/// Creates the project and returns (dst, map) relative to the project per (base, rel) in input order.
fn real_paths(dir: &Path, target: &str, map: &str, files: &[(String, String)]) -> Result<Vec<(String, String)>, String> {
    let _ = fs::remove_dir_all(dir);
    fs::create_dir_all(dir).map_err(|e| e.to_string())?;
    let mut bases: Vec<String> = vec![];
    for (b, _) in files {
        if !bases.contains(b) {
            bases.push(b.clone());
        }
    }
    fs::write(dir.join("Veryl.toml"), toml(target, map, &bases).ok_or("bad-op")?).map_err(|e| e.to_string())?;
    for (b, rel) in files {
        let f = dir.join(comps(b)).join(format!("{rel}.veryl"));
        fs::create_dir_all(f.parent().unwrap()).map_err(|e| e.to_string())?;
        fs::write(&f, "module M {}\n").map_err(|e| e.to_string())?;
    }
    let mut md = Metadata::load(dir.join("Veryl.toml")).map_err(|e| format!("{e}"))?;
    let root = md.project_path();
    let sets = md.paths::<PathBuf>(&[], false, false).map_err(|e| format!("{e}"))?;
    let mut out = vec![];
    for (b, rel) in files {
        let src = root.join(comps(b)).join(format!("{rel}.veryl"));
        // the first not yet used PathSet of this source (a file below two source directories appears twice)
        let hit = sets.iter().find(|s| s.src == src).ok_or(format!("no PathSet for {}", src.display()))?;
        let rel_of = |p: &Path| p.strip_prefix(&root).map(show).unwrap_or_else(|_| format!("!{}", p.display()));
        out.push((rel_of(&hit.dst), rel_of(&hit.map)));
    }
    if sets.len() != files.len() {
        return Err(format!("{} PathSets for {} files", sets.len(), files.len()));
    }
    Ok(out)
}

/// Root project `<dir>/main` with one path dependency per distinct dependency name (project
/// `<dir>/deps/<dep>`, whose own `[project] name` is the second field); returns (dst, map) of each
/// listed dependency file relative to the root project, via the real `Metadata::paths(.., true)`
/// (→ `update_lockfile` → `Lockfile::paths`).
fn real_dep_paths(dir: &Path, entries: &[(String, String, String)]) -> Result<Vec<(String, String)>, String> {
    let _ = fs::remove_dir_all(dir);
    let main = dir.join("main");
    fs::create_dir_all(main.join("src")).map_err(|e| e.to_string())?;
    fs::write(main.join("src/top.veryl"), "module Top {}\n").map_err(|e| e.to_string())?;
    let mut deps: Vec<(String, String)> = vec![];
    for (d, p, _) in entries {
        if !deps.iter().any(|x| &x.0 == d) {
            deps.push((d.clone(), p.clone()));
        }
    }
    let mut toml = String::from("[project]\nname = \"prj\"\nversion = \"0.1.0\"\n[build]\nsources = [\"src\"]\ntarget = {type = \"directory\", path = \"target\"}\nexclude_std = true\n[dependencies]\n");
    for (d, p) in &deps {
        toml.push_str(&format!("{d} = {{path = \"../deps/{d}\"}}\n"));
        let dd = dir.join("deps").join(d);
        fs::create_dir_all(&dd).map_err(|e| e.to_string())?;
        fs::write(dd.join("Veryl.toml"), format!("[project]\nname = \"{p}\"\nversion = \"0.1.0\"\n[build]\nexclude_std = true\n")).map_err(|e| e.to_string())?;
    }
    fs::write(main.join("Veryl.toml"), toml).map_err(|e| e.to_string())?;
    for (d, _, rel) in entries {
        let f = dir.join("deps").join(d).join(format!("{rel}.veryl"));
        fs::create_dir_all(f.parent().unwrap()).map_err(|e| e.to_string())?;
        fs::write(&f, "pub module M {}\n").map_err(|e| e.to_string())?;
    }
    let mut md = Metadata::load(main.join("Veryl.toml")).map_err(|e| format!("{e}"))?;
    let root = md.project_path();
    let sets = md.paths::<PathBuf>(&[], false, true).map_err(|e| format!("{e}"))?;
    let mut out = vec![];
    for (d, _, rel) in entries {
        let src = dir.join("deps").join(d).join(format!("{rel}.veryl"));
        let src = src.canonicalize().unwrap_or(src);
        let hit = sets.iter().find(|s| s.src == src).ok_or(format!("no PathSet for {}", src.display()))?;
        if &hit.prj != d {
            return Err(format!("prj {} for dependency {d}", hit.prj));
        }
        let rel_of = |p: &Path| p.strip_prefix(&root).map(show).unwrap_or_else(|_| format!("!{}", p.display()));
        out.push((rel_of(&hit.dst), rel_of(&hit.map)));
    }
    Ok(out)
}

fn all_distinct(v: &[String]) -> bool {
    let mut s = std::collections::BTreeSet::new();
    v.iter().all(|x| s.insert(x.clone()))
}

fn exec(line: &str, dir: &Path, log: &mut Log) -> (String, String) {
    let t: Vec<&str> = line.split(' ').collect();
    let r = catch_unwind(AssertUnwindSafe(|| -> Result<(String, String), String> {
        match t.as_slice() {
            ["path", target, map, base, rel] => {
                let v = real_paths(dir, target, map, &[(base.to_string(), rel.to_string())])?;
                Ok((format!("dst={} map={}", v[0].0, v[0].1), "?".to_string()))
            }
            ["distinct", target, map, list] if list.starts_with('[') && list.ends_with(']') && list.len() > 2 => {
                let files: Vec<(String, String)> = list[1..list.len() - 1]
                    .split(',')
                    .map(|x| x.split_once(':').map(|(a, b)| (a.to_string(), b.to_string())).ok_or("bad-op".to_string()))
                    .collect::<Result<_, _>>()?;
                let v = real_paths(dir, target, map, &files)?;
                let d = all_distinct(&v.iter().map(|x| x.0.clone()).collect::<Vec<_>>());
                let m = all_distinct(&v.iter().map(|x| x.1.clone()).collect::<Vec<_>>());
                if !d {
                    log.count("dst_collisions");
                }
                Ok((
                    format!("dst={} map={}", if d { "ok" } else { "dup" }, if m { "ok" } else { "dup" }),
                    "dst=ok map=ok".to_string(),
                ))
            }
            [op @ ("deps" | "depsdistinct"), list] if list.starts_with('[') && list.ends_with(']') && list.len() > 2 => {
                let entries: Vec<(String, String, String)> = list[1..list.len() - 1]
                    .split(',')
                    .map(|x| {
                        let f: Vec<&str> = x.split(':').collect();
                        if f.len() == 3 { Ok((f[0].to_string(), f[1].to_string(), f[2].to_string())) } else { Err("bad-op".to_string()) }
                    })
                    .collect::<Result<_, _>>()?;
                let v = real_dep_paths(dir, &entries)?;
                if *op == "deps" {
                    Ok((format!("[{}]", v.iter().map(|x| x.0.clone()).collect::<Vec<_>>().join(",")), "?".to_string()))
                } else {
                    let d = all_distinct(&v.iter().map(|x| x.0.clone()).collect::<Vec<_>>())
                        && all_distinct(&v.iter().map(|x| x.1.clone()).collect::<Vec<_>>());
                    if !d {
                        log.count("dep_dst_collisions");
                    }
                    Ok((if d { "ok".to_string() } else { "dup".to_string() }, "ok".to_string()))
                }
            }
            _ => Ok(("bad-op".to_string(), "bad-op".to_string())),
        }
    }));
    match r {
        Ok(Ok(x)) => x,
        Ok(Err(e)) if e == "bad-op" => ("bad-op".into(), "bad-op".into()),
        Ok(Err(e)) => (format!("err:{}", e.replace(' ', "_").chars().take(80).collect::<String>()), "?".into()),
        Err(_) => ("panic".into(), "?".into()),
    }
}

fn gen_rel(r: &mut Rng) -> String {
    let depth = r.below(3);
    let mut p: Vec<&str> = (0..depth).map(|_| *r.pick(DIRS)).collect();
    p.push(*r.pick(STEMS));
    p.join("/")
}

fn gen_cfg(r: &mut Rng) -> (String, String) {
    let target = match r.below(5) {
        0 => "s".to_string(),
        1 | 2 | 3 => format!("d:{}", r.pick(TDIRS)),
        _ => format!("b:{}", r.pick(&["bundle.sv", "out/all.sv"])),
    };
    let map = match r.below(4) {
        0 => "t".to_string(),
        1 | 2 => format!("d:{}", r.pick(MDIRS)),
        _ => "n".to_string(),
    };
    (target, map)
}

fn gen_lines(r: &mut Rng, n: u64) -> Vec<String> {
    let mut lines = vec![];
    for _ in 0..n {
        let (target, map) = gen_cfg(r);
        if r.chance(1, 8) {
            // path dependencies: several dependency names, some sharing one `[project] name`
            let k = 2 + r.below(4);
            let mut entries: Vec<String> = vec![];
            let mut seen: Vec<(String, String)> = vec![];
            for _ in 0..k {
                let d = *r.pick(&["x", "y", "z", "common"]);
                let p = *r.pick(&["common", "common", "lib"]);
                let rel = if r.chance(1, 2) { format!("src/{}", gen_rel(r)) } else { gen_rel(r) };
                if !seen.contains(&(d.to_string(), rel.clone())) {
                    seen.push((d.to_string(), rel.clone()));
                    // one project name per dependency: the first one chosen
                    let p = entries.iter().find(|e| e.starts_with(&format!("{d}:"))).map(|e| e.split(':').nth(1).unwrap().to_string()).unwrap_or(p.to_string());
                    entries.push(format!("{d}:{p}:{rel}"));
                }
            }
            let op = if r.chance(1, 2) { "deps" } else { "depsdistinct" };
            lines.push(format!("{op} [{}]", entries.join(",")));
            continue;
        }
        if r.chance(1, 2) {
            lines.push(format!("path {target} {map} {} {}", r.pick(BASES), gen_rel(r)));
        } else {
            // several files; by default one source directory and distinct relative paths
            let multi = r.chance(1, 6);
            let k = 2 + r.below(5);
            let base0 = *r.pick(BASES);
            let mut files: Vec<(String, String)> = vec![];
            for _ in 0..k {
                let mut base = base0;
                if multi {
                    // several disjoint source directories (never `.` together with another one)
                    base = *r.pick(&BASES[1..]);
                    if base0 == "." {
                        base = "src";
                    }
                }
                let rel = if multi && !files.is_empty() && r.chance(1, 2) { files[0].1.clone() } else { gen_rel(r) };
                if !files.contains(&(base.to_string(), rel.clone())) {
                    files.push((base.to_string(), rel));
                }
            }
            let list: Vec<String> = files.iter().map(|(b, f)| format!("{b}:{f}")).collect();
            lines.push(format!("distinct {target} {map} [{}]", list.join(",")));
        }
    }
    lines
}

// ------------------------------------------------------------------------------------------------
// project mode
// ------------------------------------------------------------------------------------------------

fn filelist_entries(text: &str) -> Vec<String> {
    text.lines()
        .filter(|l| !l.trim().is_empty())
        .map(|l| {
            let l = l.trim();
            match l.strip_prefix("source_file '") {
                Some(x) => x.trim_end_matches('\'').to_string(),
                None => l.to_string(),
            }
        })
        .collect()
}

fn project_line(dir: &Path, filelist: &Path, log: &mut Log) -> Result<(String, String), String> {
    let mut md = Metadata::load(dir.join("Veryl.toml")).map_err(|e| format!("{e}"))?;
    let analyzer = Analyzer::new(&md);
    analyzer.clear();
    let paths = md.paths::<PathBuf>(&[], true, true).map_err(|e| format!("{e}"))?;
    let analyzer = Analyzer::new(&md);
    let mut keep = vec![];
    for p in &paths {
        let input = fs::read_to_string(&p.src).map_err(|e| e.to_string())?;
        let parser = Parser::parse(&input, &p.src).map_err(|e| format!("{e}"))?;
        let _ = analyzer.analyze_pass1(&p.prj, &parser.veryl);
        keep.push((input, parser));
    }
    let _ = Analyzer::analyze_post_pass1();
    // file ids: rank of the source path (PathBuf order, as `remaining.sort_by(|a, b| a.src.cmp(&b.src))`)
    let mut srcs: Vec<PathBuf> = paths.iter().map(|p| p.src.clone()).collect();
    srcs.sort();
    srcs.dedup();
    let id_of: HashMap<PathBuf, usize> = srcs.iter().cloned().enumerate().map(|(i, p)| (p, i)).collect();
    let mut sym_ids: HashMap<String, usize> = HashMap::new();
    let mut show_sym = |s: &veryl_analyzer::symbol::Symbol| -> String {
        let key = format!("{:?}", s.id);
        let n = sym_ids.len();
        let id = *sym_ids.entry(key).or_insert(n);
        let file = match s.token.source {
            TokenSource::File { path, .. } => id_of.get(&PathBuf::from(format!("{path}"))).map(|i| format!("{i:x}")).unwrap_or("-".into()),
            _ => "-".to_string(),
        };
        let comp = matches!(s.kind, SymbolKind::Module(_) | SymbolKind::Interface(_) | SymbolKind::Package(_));
        format!("{id:x}:{file}:{}", comp as u8)
    };
    let mut prj_namespace = Namespace::new();
    prj_namespace.push(resource_table::insert_str(&md.project.name));
    let cands: Vec<String> = type_dag::connected_components()
        .into_iter()
        .filter(|symbols| symbols[0].namespace.included(&prj_namespace))
        .flatten()
        .map(|s| show_sym(&s))
        .collect();
    let topo: Vec<String> = type_dag::toposort().iter().map(|s| show_sym(s)).collect();
    log.add("dag_symbols", topo.len() as u64);
    // the CLI's filelist → file ids (by dst; only meaningful when dst is injective)
    let out = md.project_path();
    let mut by_dst: BTreeMap<PathBuf, Vec<usize>> = BTreeMap::new();
    for p in &paths {
        if !p.example {
            by_dst.entry(p.dst.clone()).or_default().push(id_of[&p.src]);
        }
    }
    let text = fs::read_to_string(filelist).map_err(|e| e.to_string())?;
    let mut listed = vec![];
    for e in filelist_entries(&text) {
        let p = PathBuf::from(&e);
        let abs = if p.is_absolute() { p } else { out.join(p) };
        match by_dst.get(&abs) {
            Some(v) if v.len() == 1 => listed.push(format!("{:x}", v[0])),
            Some(_) => return Err("ambiguous dst".into()),
            None => listed.push(format!("?{e}")),
        }
    }
    let ids: Vec<String> = paths.iter().filter(|p| !p.example).map(|p| format!("{:x}", id_of[&p.src])).collect();
    analyzer.clear();
    drop(keep);
    Ok((format!("sort [{}] [{}] [{}]", ids.join(","), cands.join(","), topo.join(",")), format!("[{}]", listed.join(","))))
}

pub fn main(opts: &Opts) -> i32 {
    let out = opts.out();
    let out = out.canonicalize().unwrap_or(out);
    let mut log = Log::new();
    if let Some(list) = opts.get("projects") {
        let text = fs::read_to_string(list).expect("projects file");
        for l in text.lines().filter(|l| !l.is_empty()) {
            let (dir, fl) = l.split_once('\t').expect("<dir>\\t<filelist>");
            let r = catch_unwind(AssertUnwindSafe(|| project_line(Path::new(dir), Path::new(fl), &mut Log::new())));
            match r {
                Ok(Ok((op, imp))) => {
                    log.count("projects");
                    log.push3(op, imp, "?".into());
                }
                Ok(Err(e)) => {
                    log.count("project_skipped");
                    log.push3(format!("skip {}", dir.replace(' ', "_")), format!("skip:{}", e.replace(' ', "_")), "?".into());
                }
                Err(_) => {
                    log.count("project_panic");
                    log.push3(format!("skip {}", dir.replace(' ', "_")), "panic".into(), "?".into());
                }
            }
        }
        log.write(&out);
        return 0;
    }
    let scratch = out.join("scratch");
    let _ = fs::remove_dir_all(&scratch);
    fs::create_dir_all(&scratch).unwrap();
    // SAFETY: single-threaded.
    unsafe {
        std::env::set_var("HOME", &scratch);
        std::env::set_var("XDG_CACHE_HOME", scratch.join("xdg-cache"));
    }
    let lines: Vec<String> = if let Some(replay) = opts.get("replay") {
        fs::read_to_string(replay).expect("replay file").lines().filter(|l| !l.is_empty()).map(|l| l.to_string()).collect()
    } else {
        let mut r = Rng::new(opts.seed());
        let l = gen_lines(&mut r, opts.num("n", 200));
        for s in l.iter().take(3) {
            log.sample(s.clone());
        }
        l
    };
    let dir = scratch.join("prj");
    for line in &lines {
        let (imp, ora) = exec(line, &dir, &mut log);
        let t: Vec<&str> = line.split(' ').collect();
        log.count(&format!("op_{}", t[0]));
        if t.len() > 3 {
            log.count(&format!("target_{}", &t[1][..1]));
            log.count(&format!("map_{}", &t[2][..1]));
        }
        log.push3(line.clone(), imp, ora);
    }
    log.add("sequences", lines.len() as u64);
    let _ = fs::remove_dir_all(&scratch);
    log.write(&out);
    0
}
