//! Domain `tokens` (C12): every token and comment of a parsed source against positions computed by
//! scanning the source text, plus the inputs of the Lean model of `split_comment_token`,
//! `Token::end_line/end_column`, the comment scanner (against the real `COMMENT_REGEX`) and `lineCol`.
//!
//! Two logs:
//!   `<out>/pos/`  `src <hex>` / `t <k>` / `c <k>.<j> <base>` / `eof`: implementation vs oracle, no model;
//!   `<out>/`      `split` / `end` / `scan` / `lc`: implementation (and oracle) vs `vmodel tokens`.
//! Numbers are lower-case hex, texts are hex of their UTF-8 bytes (`-` = empty).
//!
//! `--replay FILE`: every `src <hex>` line of FILE is expanded again (its `t`/`c`/`split` lines are
//! regenerated); `scan`, `end`, `lc` lines are self-contained and evaluated as they stand.
use crate::rng::Rng;
use crate::util::{Log, Opts, hex};
use regex::Regex;
use std::panic;
use veryl_parser::Parser;
use veryl_parser::resource_table;
use veryl_parser::veryl_token::{Token, TokenSource, VerylToken};
use veryl_parser::veryl_walker::VerylWalker;

const TOKEN_RS: &str = include_str!("/repo/crates/parser/src/veryl_token.rs");

/// The literal handed to `Regex::new` for `COMMENT_REGEX`, taken from the source text of /repo.
fn comment_regex() -> Regex {
    let i = TOKEN_RS.find("static COMMENT_REGEX").expect("COMMENT_REGEX not found");
    let s = &TOKEN_RS[i..];
    let a = s.find("r\"").expect("raw string") + 2;
    let b = a + s[a..].find("\")").expect("end of raw string");
    Regex::new(&s[a..b]).unwrap()
}

fn hx(s: &str) -> String {
    if s.is_empty() { "-".to_string() } else { hex(s.as_bytes()) }
}

fn unhex(s: &str) -> Option<Vec<u8>> {
    if s == "-" {
        return Some(vec![]);
    }
    if s.len() % 2 != 0 {
        return None;
    }
    (0..s.len() / 2).map(|i| u8::from_str_radix(s.get(2 * i..2 * i + 2)?, 16).ok()).collect()
}

#[derive(Default)]
struct Collect {
    toks: Vec<(Token, Vec<Token>)>,
}

impl VerylWalker for Collect {
    fn veryl_token(&mut self, arg: &VerylToken) {
        self.toks.push((arg.token, arg.comments.clone()));
    }
}

fn text_of(t: &Token) -> String {
    resource_table::get_str_value(t.text).unwrap_or_default()
}

/// The oracle's position function: 1-based line, 1-based column in characters, for a byte offset.
fn line_col(src: &str, pos: usize) -> (usize, usize) {
    let (mut l, mut c) = (1, 1);
    for (i, ch) in src.char_indices() {
        if i >= pos {
            break;
        }
        if ch == '\n' {
            l += 1;
            c = 1;
        } else {
            c += 1;
        }
    }
    (l, c)
}

/// Incremental version of `line_col` for increasing offsets.
struct Walk<'a> {
    src: &'a str,
    at: usize,
    l: usize,
    c: usize,
}

impl<'a> Walk<'a> {
    fn new(src: &'a str) -> Self {
        Walk { src, at: 0, l: 1, c: 1 }
    }
    fn to(&mut self, pos: usize) -> (usize, usize) {
        if pos < self.at {
            let (l, c) = line_col(self.src, pos);
            return (l, c);
        }
        for ch in self.src[self.at..pos].chars() {
            if ch == '\n' {
                self.l += 1;
                self.c = 1;
            } else {
                self.c += 1;
            }
        }
        self.at = pos;
        (self.l, self.c)
    }
}

/// Where does `text` stand at or after `cursor`, skipping white space only?
fn find_next(src: &str, cursor: usize, text: &str) -> Option<usize> {
    let mut p = cursor;
    loop {
        if src[p..].starts_with(text) {
            return Some(p);
        }
        let ch = src[p..].chars().next()?;
        if !ch.is_whitespace() {
            return None;
        }
        p += ch.len_utf8();
    }
}

/// `text` is not at the cursor: was a short piece of text (no white space inside), possibly
/// followed by comments, passed over?  Returns (skipped text start, position of `text`).
fn resync(src: &str, cursor: usize, text: &str, re: &Regex) -> Option<(usize, usize)> {
    let skip_ws = |mut q: usize| {
        while let Some(ch) = src[q..].chars().next() {
            if !ch.is_whitespace() {
                break;
            }
            q += ch.len_utf8();
        }
        q
    };
    let q = skip_ws(cursor);
    let mut p = q;
    for ch in src[q..].chars().take(16) {
        if ch.is_whitespace() {
            break;
        }
        p += ch.len_utf8();
        if let Some(f) = find_next(src, p, text) {
            return Some((q, f));
        }
        // comments attached to the piece passed over
        let mut e = p;
        loop {
            let w = skip_ws(e);
            match re.find_at(src, w) {
                Some(m) if m.start() == w => {
                    e = m.end();
                    if let Some(f) = find_next(src, e, text) {
                        return Some((q, f));
                    }
                }
                _ => break,
            }
        }
    }
    None
}

fn fmt_tok(text: &str, line: usize, col: usize, pos: usize, len: usize) -> String {
    format!("{} {:x} {:x} {:x} {:x}", hx(text), line, col, pos, len)
}

fn end_oracle(text: &str, line: usize, col: usize) -> (usize, usize) {
    // the cursor after the text, one column back
    let (mut l, mut c) = (line, col);
    for ch in text.chars() {
        if ch == '\n' {
            l += 1;
            c = 1;
        } else {
            c += 1;
        }
    }
    (l, c.wrapping_sub(1))
}

struct Out {
    pos: Log,
    model: Log,
    re: Regex,
}

fn run_case(o: &mut Out, src: &str, tag: &str, rng: &mut Rng) {
    let op = format!("src {}", hx(src));
    let parsed = panic::catch_unwind(|| Parser::parse(src, &"t.veryl"));
    let parser = match parsed {
        Err(_) => {
            o.pos.count("parse_panic");
            o.pos.push3(op, "panic".into(), "?".into());
            return;
        }
        Ok(Err(_)) => {
            o.pos.count(&format!("parse_error.{tag}"));
            o.pos.push3(op, "parse-error".into(), "?".into());
            return;
        }
        Ok(Ok(p)) => p,
    };
    let mut col = Collect::default();
    col.veryl(&parser.veryl);
    let mut buf = src.to_string();
    if !buf.ends_with('\n') {
        buf.push('\n');
    }
    let ncom: usize = col.toks.iter().map(|x| x.1.len()).sum();
    o.pos.push3(op, format!("ok {:x} {:x}", col.toks.len(), ncom), "?".into());
    o.pos.count("sequences");
    o.pos.count(&format!("case.{tag}"));
    if !src.is_ascii() {
        o.pos.count("case_non_ascii");
    }
    if src.contains("\r\n") {
        o.pos.count("case_crlf");
    }
    let mut cursor = 0usize;
    let mut walk = Walk::new(&buf);
    let mut lost = false;
    for (k, (tok, comments)) in col.toks.iter().enumerate() {
        let text = text_of(tok);
        let imp = fmt_tok(&text, tok.line as usize, tok.column as usize, tok.pos as usize, tok.length as usize);
        let ora = if matches!(tok.source, TokenSource::Builtin) && text.is_empty() {
            // the start token: by convention (1, 1), offset 0, empty
            fmt_tok("", 1, 1, 0, 0)
        } else if lost {
            "?".to_string()
        } else {
            match find_next(&buf, cursor, &text) {
                Some(p) => {
                    let (l, c) = walk.to(p);
                    cursor = p + text.len();
                    fmt_tok(&text, l, c, p, text.len())
                }
                None => match resync(&buf, cursor, &text, &o.re) {
                    Some((q, p)) => {
                        let skipped = buf[q..p].trim_end().to_string();
                        let (l, c) = walk.to(p);
                        cursor = p + text.len();
                        o.pos.count("skipped_text");
                        format!("skipped:{}@{:x} {}", hx(&skipped), q, fmt_tok(&text, l, c, p, text.len()))
                    }
                    None => {
                        lost = true;
                        format!("text-not-at-cursor@{cursor:x}")
                    }
                },
            }
        };
        o.pos.count("tokens");
        if !text.is_ascii() {
            o.pos.count("tokens_non_ascii");
        }
        if text.contains('\n') {
            o.pos.count("tokens_multi_line");
        }
        // end_line / end_column of the real token, on a sample (all interesting ones)
        if !text.is_empty() && (!text.is_ascii() || text.contains('\n') || rng.chance(1, 8)) {
            push_end(o, &text, tok);
        }
        o.pos.push3(format!("t {k:x}"), imp, ora);
        if comments.is_empty() {
            continue;
        }
        // the comment run after this token
        let mut true_pos = vec![];
        let mut base = 0usize;
        for (j, c) in comments.iter().enumerate() {
            let ctext = text_of(c);
            let imp = fmt_tok(&ctext, c.line as usize, c.column as usize, c.pos as usize, c.length as usize);
            let ora = if lost {
                "?".to_string()
            } else {
                match find_next(&buf, cursor, &ctext) {
                    Some(p) => {
                        if j == 0 {
                            base = p;
                        }
                        let (l, cc) = walk.to(p);
                        cursor = p + ctext.len();
                        true_pos.push(p);
                        fmt_tok(&ctext, l, cc, p, ctext.len())
                    }
                    None => {
                        lost = true;
                        format!("text-not-at-cursor@{cursor:x}")
                    }
                }
            };
            o.pos.count("comments");
            if !ctext.is_ascii() {
                o.pos.count("comments_non_ascii");
            }
            if ctext.trim_end().contains('\n') {
                o.pos.count("comments_multi_line");
            }
            if rng.chance(1, 4) || !ctext.is_ascii() {
                push_end(o, &ctext, c);
            }
            o.pos.push3(format!("c {k:x}.{j:x} {base:x}"), imp, ora);
        }
        o.pos.count(&format!("run_len.{}", comments.len().min(5)));
        if !lost && true_pos.len() == comments.len() {
            let run = &buf[base..cursor];
            if !run.is_ascii() {
                o.pos.count("runs_non_ascii");
            }
            if k == 0 {
                o.pos.count("runs_before_first_token");
            }
            // the run as the lexer reported it: `split_comment_token` gives the first comment the run's
            // own (line, column, pos); whether those are TRUE is the business of the `c` lines above
            let (bl, bc, bp) = (comments[0].line, comments[0].column, comments[0].pos);
            let imp = format!(
                "[{}]",
                comments
                    .iter()
                    .map(|c| format!("{}:{:x}:{:x}:{:x}:{:x}", hx(&text_of(c)), c.line, c.column, c.pos, c.length))
                    .collect::<Vec<_>>()
                    .join(",")
            );
            let args = format!("{} {:x} {:x} {:x}", hx(run), bl, bc, bp);
            o.model.push3(format!("split {args}"), imp, "?".into());
            o.model.count("split");
            push_scan(o, run);
        }
    }
    let rest_ok = buf[cursor.min(buf.len())..].chars().all(|c| c.is_whitespace());
    let ora = if lost {
        "?".to_string()
    } else if rest_ok {
        "ok".to_string()
    } else {
        format!("uncovered@{cursor:x}")
    };
    o.pos.push3("eof".into(), "ok".into(), ora);
}

fn push_end(o: &mut Out, text: &str, tok: &Token) {
    let (el, ec) = end_oracle(text, tok.line as usize, tok.column as usize);
    let r = panic::catch_unwind(|| (tok.end_line(), tok.end_column()));
    let imp = match r {
        Ok((a, b)) => format!("{a:x} {b:x}"),
        Err(_) => "panic".into(),
    };
    o.model.push3(format!("end {} {:x} {:x}", hx(text), tok.line, tok.column), imp, format!("{el:x} {ec:x}"));
    o.model.count("end");
}

fn push_scan(o: &mut Out, text: &str) {
    let imp = format!(
        "[{}]",
        o.re.captures_iter(text)
            .map(|c| {
                let m = c.get(0).unwrap();
                format!("{:x}:{:x}", m.start(), m.end() - m.start())
            })
            .collect::<Vec<_>>()
            .join(",")
    );
    o.model.push3(format!("scan {}", hx(text)), imp, "?".into());
    o.model.count("scan");
}

fn push_lc(o: &mut Out, src: &str, pos: usize) {
    let (l, c) = line_col(src, pos);
    let r = format!("{l:x} {c:x}");
    o.model.push3(format!("lc {} {:x}", hx(src), pos), r.clone(), r);
    o.model.count("lc");
}

// ------------------------------------------------------------------------------------------------
// generators
// ------------------------------------------------------------------------------------------------

const COMMENTS: &[&str] = &[
    "/* é */ ",
    "/* é */ /* b */ ",
    "/* 日本語 */ /* b */ /* c */ ",
    "// ünï\n",
    "// 😀 x\n// y\n",
    "/* multi\n  é */ /* x */ ",
    "/* a\n b\n c */\n",
    "/// doc é\n",
    "/**/ ",
    "/***/ /* * / */ ",
    "/* a */ ",
    "/* a */ /* b */ ",
    "// plain\n",
    "/*é*//*b*/",
    "/* x */\t/* é */\t/* y */ ",
    "// é\r\n/* b */ ",
];

const WITNESSES: &[&str] = &[
    "/* é */ /* b */\nmodule A {}\n",
    "module A { /* é */ /* b */ }\n",
    "module A {} /* 日本 */ // c\n",
    "interface A { var a: logic; }\ninterface B { mixin A; var b: logic; }\n",
    "module A {} /* a */\n",
    "module A {\n/*\né */ /* b */ }\n",
    "module A {} // x\n// y\n",
    "// é\nmodule A {}",
    "module A {\r\n    // é\r\n    /* b */ /* c */\r\n}\r\n",
    "module A { const S: string = \"日本\"; /* c */ /* d */ }\n",
    "module A { const S: string = \"é\"; const T: u32 = 1; }\n",
    "module A {} // last line without newline é",
    "/// doc é\n/// doc 2\nmodule A {}\n",
    // the scanner backtracks from a failed longer match to a match ending in a line feed
    "module A {\n    let a: u32 = 4 // c\n/ 2;\n    let b: u32 = 1;\n}\n",
    "module A {\r\n    let a: u32 = 4 // c\r\n/ 2;\r\n    let b: u32 = 1; // d\r\n}\r\n",
    "module A {\n    embed (inline) sv{{{\n\\{ B \\} u ();\n    }}}\n}\n",
    "module A {\r\n    embed (inline) sv{{{\r\n\\{ B \\} u (); \\\r\n        bind u_a \\\r\n    }}}\r\n}\r\n",
    "module A {\n    var a: logic; /* 😀 */ /* b */ var b: logic;\n}\n",
];

fn files() -> Vec<(String, String)> {
    let mut v = vec![];
    if let Ok(rd) = std::fs::read_dir("/repo/testcases/veryl") {
        for e in rd.flatten() {
            if e.path().extension().is_some_and(|x| x == "veryl") {
                if let Ok(s) = std::fs::read_to_string(e.path()) {
                    v.push((e.path().file_name().unwrap().to_string_lossy().to_string(), s));
                }
            }
        }
    }
    v.sort();
    v
}

/// Byte offsets where a token starts and where a string literal's content starts.
/// Remove the indentation in front of `\{` inside embed content (puts the escape at column 1).
fn embed_escape_to_col1(src: &str) -> String {
    let mut out = String::with_capacity(src.len());
    let mut rest = src;
    while let Some(i) = rest.find('\n') {
        out.push_str(&rest[..=i]);
        rest = &rest[i + 1..];
        let trimmed = rest.trim_start_matches([' ', '\t']);
        if trimmed.starts_with("\\{") {
            rest = trimmed;
        }
    }
    out.push_str(rest);
    out
}

fn anchors(src: &str) -> Option<(Vec<usize>, Vec<usize>, Vec<usize>)> {
    let p = panic::catch_unwind(|| Parser::parse(src, &"t.veryl")).ok()?.ok()?;
    let mut col = Collect::default();
    col.veryl(&p.veryl);
    let mut starts = vec![];
    let mut strs = vec![];
    let mut slashes = vec![];
    for (t, _) in &col.toks {
        let text = text_of(t);
        let pos = t.pos as usize;
        if text.is_empty() || !src.is_char_boundary(pos) || !src[pos..].starts_with(&text) {
            continue;
        }
        starts.push(pos);
        if text.starts_with('"') && text.len() >= 2 {
            strs.push(pos + 1);
        }
        if text.starts_with('/') {
            slashes.push(pos);
        }
    }
    Some((starts, strs, slashes))
}

fn mutate(src: &str, starts: &[usize], strs: &[usize], slashes: &[usize], rng: &mut Rng) -> (String, &'static str) {
    // the two shapes that make the scanner backtrack over a line feed get a fixed share of the
    // mutants of the files that can show them
    let mut kind = if !slashes.is_empty() && rng.chance(1, 4) {
        8
    } else if src.contains("\\{") && rng.chance(1, 3) {
        9
    } else {
        rng.below(8)
    };
    let embed_src;
    if kind == 9 {
        // `\{` of embed content at column 1 (the scanner backtracks over it after a text ending in a line feed)
        embed_src = embed_escape_to_col1(src);
        if embed_src != src {
            return mutate_lines(&embed_src, rng, "embed_col1");
        }
        kind = 0;
    }
    if kind == 8 {
        if slashes.is_empty() {
            kind = 1;
        } else {
            // a `/` operator at column 1 directly after a comment run ending in a line feed
            let mut ins: Vec<(usize, String)> = vec![];
            for _ in 0..(1 + rng.below(3)) {
                ins.push((*rng.pick(slashes), rng.pick(&["// y\n", " // é\n", "/* a */\n", "// a\n// b\n"]).to_string()));
            }
            ins.sort_by(|a, b| b.0.cmp(&a.0));
            ins.dedup_by(|a, b| a.0 == b.0);
            let mut s = src.to_string();
            for (p, t) in ins {
                s.insert_str(p, &t);
            }
            return mutate_lines(&s, rng, "slash_col1");
        }
    }
    let mut ins: Vec<(usize, String)> = vec![];
    let mut tag = "comments";
    let n_ins = 1 + rng.below(6) as usize;
    match kind {
        0 | 1 | 2 => {
            for _ in 0..n_ins {
                if !starts.is_empty() {
                    ins.push((*rng.pick(starts), rng.pick(COMMENTS).to_string()));
                }
            }
        }
        3 => {
            tag = "strings";
            for _ in 0..n_ins {
                if !strs.is_empty() {
                    ins.push((*rng.pick(strs), rng.pick(&["é", "日本", "😀", "ü ", "Ω"]).to_string()));
                }
            }
            if !starts.is_empty() {
                ins.push((*rng.pick(starts), rng.pick(COMMENTS).to_string()));
            }
        }
        4 => {
            tag = "before_first";
            ins.push((0, rng.pick(COMMENTS).to_string()));
            if rng.chance(1, 2) {
                ins.push((0, rng.pick(COMMENTS).to_string()));
            }
        }
        5 => {
            tag = "tabs";
            for _ in 0..n_ins {
                if !starts.is_empty() {
                    ins.push((*rng.pick(starts), "\t".to_string()));
                }
            }
            if !starts.is_empty() {
                ins.push((*rng.pick(starts), rng.pick(COMMENTS).to_string()));
            }
        }
        _ => {
            tag = "mixed";
            for _ in 0..n_ins {
                if !starts.is_empty() {
                    ins.push((*rng.pick(starts), rng.pick(COMMENTS).to_string()));
                }
                if !strs.is_empty() && rng.chance(1, 2) {
                    ins.push((*rng.pick(strs), rng.pick(&["é", "日本", "😀"]).to_string()));
                }
            }
        }
    }
    ins.sort_by(|a, b| b.0.cmp(&a.0));
    let mut s = src.to_string();
    for (p, t) in ins {
        s.insert_str(p, &t);
    }
    mutate_lines(&s, rng, tag)
}

/// Line endings: 30 % of the mutants are converted to CRLF.
fn mutate_lines(s: &str, rng: &mut Rng, tag: &'static str) -> (String, &'static str) {
    match rng.below(10) {
        0 | 1 | 2 => {
            let s = s.replace("\r\n", "\n").replace('\n', "\r\n");
            let tag = match tag {
                "comments" => "comments_crlf",
                "strings" => "strings_crlf",
                "before_first" => "before_first_crlf",
                "tabs" => "tabs_crlf",
                "slash_col1" => "slash_col1_crlf",
                "embed_col1" => "embed_col1_crlf",
                _ => "mixed_crlf",
            };
            (s, tag)
        }
        _ => (s.to_string(), tag),
    }
}

fn gen_small(rng: &mut Rng) -> String {
    let gaps = [" ", " ", "\n", "  ", "\t", "\n    ", " /* é */ ", " /* a */ /* é */ /* b */ ", " // c é\n", " /* x\n é */ /* y */ ", "\r\n", " /**/ "];
    let mut s = String::new();
    if rng.chance(1, 3) {
        s.push_str(rng.pick(&gaps).trim_start());
    }
    let n = 1 + rng.below(3);
    for m in 0..n {
        let g = |rng: &mut Rng| rng.pick(&gaps).to_string();
        s.push_str("module");
        s.push_str(&g(rng));
        s.push_str(&format!("M{m}"));
        s.push_str(&g(rng));
        s.push('{');
        for i in 0..rng.below(4) {
            s.push_str(&g(rng));
            match rng.below(4) {
                0 => s.push_str(&format!("var{}v{i}:{}logic;", g(rng), g(rng))),
                1 => s.push_str(&format!("const{}S{i}: string ={}\"{}\";", g(rng), g(rng), rng.pick(&["é", "a", "日本 x", "", "😀"]))),
                2 => s.push_str(&format!("let{}w{i}: logic<8> ={}8'hff{};", g(rng), g(rng), g(rng))),
                _ => s.push_str(&format!("assign{}q{i}{}={}1{}+{}2;", g(rng), g(rng), g(rng), g(rng), g(rng))),
            }
        }
        s.push_str(&g(rng));
        s.push('}');
        s.push_str(&g(rng));
    }
    s
}

fn gen_scan_text(rng: &mut Rng) -> String {
    let alpha = ["/", "/", "*", "*", "\n", "\r", "a", "é", " ", "//", "/*", "*/", "日"];
    let n = rng.below(14);
    (0..n).map(|_| *rng.pick(&alpha)).collect()
}

pub fn main(opts: &Opts) -> i32 {
    panic::set_hook(Box::new(|_| {}));
    let out = opts.out();
    let seed = opts.seed();
    let n = opts.num("n", 300) as usize;
    let replay = opts.get("replay").map(|s| s.to_string());
    let handle = std::thread::Builder::new()
        .stack_size(512 * 1024 * 1024)
        .spawn(move || {
            let mut rng = Rng::new(seed);
            let mut o = Out { pos: Log::new(), model: Log::new(), re: comment_regex() };
            if let Some(f) = replay {
                let body = std::fs::read_to_string(&f).unwrap_or_default();
                for line in body.lines() {
                    let t: Vec<&str> = line.split_whitespace().collect();
                    match t.as_slice() {
                        ["src", h] => match unhex(h).and_then(|b| String::from_utf8(b).ok()) {
                            Some(s) => run_case(&mut o, &s, "replay", &mut rng),
                            None => o.pos.push3(line.to_string(), "bad-op".into(), "?".into()),
                        },
                        ["scan", h] => match unhex(h).and_then(|b| String::from_utf8(b).ok()) {
                            Some(s) => push_scan(&mut o, &s),
                            None => o.model.push3(line.to_string(), "bad-op".into(), "?".into()),
                        },
                        ["lc", h, p] => match (unhex(h).and_then(|b| String::from_utf8(b).ok()), usize::from_str_radix(p, 16)) {
                            (Some(s), Ok(p)) => push_lc(&mut o, &s, p),
                            _ => o.model.push3(line.to_string(), "bad-op".into(), "?".into()),
                        },
                        ["end", h, l, c] => {
                            match (unhex(h).and_then(|b| String::from_utf8(b).ok()), u32::from_str_radix(l, 16), u32::from_str_radix(c, 16)) {
                                (Some(s), Ok(l), Ok(c)) => {
                                    let tok = Token::new(&s, l, c, s.len() as u32, 0, TokenSource::External);
                                    push_end(&mut o, &s, &tok);
                                }
                                _ => o.model.push3(line.to_string(), "bad-op".into(), "?".into()),
                            }
                        }
                        _ => {} // t / c / split / eof lines are regenerated from `src`
                    }
                }
            } else {
                for w in WITNESSES {
                    run_case(&mut o, w, "witness", &mut rng);
                    for p in [0, 1, w.len() / 2, w.len()] {
                        let mut p = p;
                        while !w.is_char_boundary(p) {
                            p += 1;
                        }
                        push_lc(&mut o, w, p);
                    }
                }
                let fs = files();
                let mut anch = vec![];
                for (_, s) in &fs {
                    run_case(&mut o, s, "testcase", &mut rng);
                    anch.push(anchors(s));
                }
                // mutants of the test cases, round robin
                let mut made = 0;
                let mut i = 0;
                while made < n && !fs.is_empty() {
                    let k = i % fs.len();
                    i += 1;
                    if let Some((starts, strs, slashes)) = &anch[k] {
                        let (m, tag) = mutate(&fs[k].1, starts, strs, slashes, &mut rng);
                        run_case(&mut o, &m, tag, &mut rng);
                    }
                    made += 1;
                }
                // generated small sources
                for _ in 0..n {
                    let s = gen_small(&mut rng);
                    run_case(&mut o, &s, "generated", &mut rng);
                    if s.len() < 400 {
                        let mut p = rng.below(s.len() as u64 + 1) as usize;
                        while !s.is_char_boundary(p) {
                            p += 1;
                        }
                        push_lc(&mut o, &s, p);
                    }
                }
                // the scanner against the real regex on arbitrary short texts
                for _ in 0..(4 * n) {
                    let s = gen_scan_text(&mut rng);
                    push_scan(&mut o, &s);
                }
                // end_line/end_column on synthetic tokens
                for _ in 0..n {
                    let alpha = ["a", "é", "\n", "日", " ", "😀", "\r\n"];
                    let k = 1 + rng.below(8);
                    let s: String = (0..k).map(|_| *rng.pick(&alpha)).collect();
                    let tok = Token::new(&s, 1 + rng.below(5) as u32, 1 + rng.below(40) as u32, s.len() as u32, 0, TokenSource::External);
                    push_end(&mut o, &s, &tok);
                }
            }
            let posdir = out.join("pos");
            let _ = std::fs::create_dir_all(&posdir);
            o.pos.write(&posdir);
            o.model.write(&out);
            0
        })
        .unwrap();
    handle.join().unwrap_or(3)
}
