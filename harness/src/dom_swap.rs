//! Domain `swap` (C33): the hand-over from the Cranelift JIT to the asynchronously compiled C code
//! (`Config::aot_c_async`) is forced, through hook H1 (`backend::aot_c::verif_swap::set_ready_at`),
//! to happen at every possible whole-module dispatch attempt `k` of a run, and never.
//!
//! Every run happens in a CHILD PROCESS (`hx swap --child …`; the hook, the compile pool and the
//! residency table are process-global).  Per generated design the parent runs
//!   interp · jit · cc-sync (the references) · cc-async with k = never, 0, 1, …, A   (A = attempts of the k=0 run)
//! and writes, per design:
//!   `case <dseed> <kind>`                         impl `ok …` | `rejected …` | `skipped engines-already-disagree …`
//!                                                 (a design on which the three references do not agree is not
//!                                                 C33's subject: counted, skipped)                 (model `?`)
//!   `trace <dseed> k=<jit|ccsync|never|K>`        impl = port trace of that run, oracle = the references' common trace
//!   `sched k=<K|never> passes=<p> comb=<b> evc=<b> evr=<b> nd=<n> ops=<string>`
//!                                                 impl = `att=[…] deg=<c><e>` measured (attempt counter
//!                                                 after every API call; residency fall-back flags);
//!                                                 model = the same, predicted by the dispatch model
//!   `state k=<K> loc=[off+len,…] diff=[off+len,…]`  impl = `eq`/`diff` (harness: all differing comb
//!                                                 bytes vs the never-run lie in localised ranges and ff
//!                                                 is identical); model = its own `≈` decision
//! API-call alphabet of `ops`: n = Simulator::new, s = set every input, g = get every output (settles),
//! c = step(clk), r = step_reset(clk, rst).
use crate::rng::Rng;
use crate::simutil::{bits_of, build};
use crate::util::{Log, Opts};
use std::collections::BTreeMap;
use std::io::Write;
use std::panic::{AssertUnwindSafe, catch_unwind};
use std::process::{Command, Stdio};
use veryl_analyzer::value::Value;
use veryl_simulator::backend::aot_c::verif_swap;
use veryl_simulator::{Config, Simulator};

// ------------------------------------------------------------------------------------------------
// design + stimulus generator (deterministic in dseed)
// ------------------------------------------------------------------------------------------------

pub struct Design {
    pub code: String,
    pub kind: &'static str,
    pub seq: bool,
    pub ins: Vec<(String, usize)>,
    pub outs: Vec<String>,
    pub ops: String,
    pub stim: Vec<Vec<u64>>,
    pub feats: Vec<&'static str>,
}

const BIN: &[&str] = &["+", "-", "*", "&", "|", "^", "==", "!=", "<:", "<=", ">:", ">=", "<<", ">>"];
const UN: &[&str] = &["~", "-", "&", "|", "^"];
const WS: &[usize] = &[1, 2, 7, 8, 16, 31, 32, 33, 63, 64];

/// Random expression; every operator node has at least one variable below it (no constant-only
/// subexpression: the engines are known to size those differently, which is not C33's subject).
fn gen_expr(r: &mut Rng, depth: u32, names: &[String]) -> String {
    gen_expr2(r, depth, names).0
}

fn lit(r: &mut Rng) -> String {
    let w = *r.pick(&[1usize, 4, 8, 16]);
    format!("{}'h{:x}", w, r.next() & ((1u64 << w) - 1))
}

/// (text, contains a variable)
fn gen_expr2(r: &mut Rng, depth: u32, names: &[String]) -> (String, bool) {
    if depth == 0 || r.below(4) == 0 {
        if r.below(5) == 0 {
            return (lit(r), false);
        }
        return (r.pick(names).clone(), true);
    }
    let var = |r: &mut Rng| r.pick(names).clone();
    match r.below(9) {
        0 => {
            let (x, v) = gen_expr2(r, depth - 1, names);
            let x = if v { x } else { var(r) };
            (format!("({}{})", r.pick(UN), x), true)
        }
        1 => {
            let (a, va) = gen_expr2(r, depth - 1, names);
            let (b, vb) = gen_expr2(r, depth - 1, names);
            let b = if va || vb { b } else { var(r) };
            (format!("{{{a}, {b}}}"), true)
        }
        2 => {
            let c = gen_cond(r, names);
            let (a, _) = gen_expr2(r, depth - 1, names);
            let (b, _) = gen_expr2(r, depth - 1, names);
            (format!("(if {c} ? {a} : {b})"), true)
        }
        _ => {
            let (a, va) = gen_expr2(r, depth - 1, names);
            let (b, vb) = gen_expr2(r, depth - 1, names);
            let b = if va || vb { b } else { var(r) };
            (format!("({a} {} {b})", r.pick(BIN)), true)
        }
    }
}

fn gen_cond(r: &mut Rng, names: &[String]) -> String {
    let (a, va) = gen_expr2(r, 1, names);
    let (b, vb) = gen_expr2(r, 1, names);
    let b = if va || vb { b } else { r.pick(names).clone() };
    format!("({a} {} {b})", r.pick(&["==", "!=", "<:", ">="]))
}

/// `multi` = several assignments to one register on one path are allowed (finding #24 territory).
fn gen_stmts(r: &mut Rng, depth: u32, regs: &[String], names: &[String], out: &mut String, ind: usize, multi: bool) {
    let pad = " ".repeat(ind);
    if !multi {
        // every register is assigned at most once on every path: either here or in both branches below
        if depth == 0 || r.below(3) == 0 {
            for q in regs {
                if r.below(4) != 0 {
                    out.push_str(&format!("{pad}{q} = {};\n", gen_expr(r, 2, names)));
                }
            }
        } else if r.below(2) == 0 {
            out.push_str(&format!("{pad}if {} {{\n", gen_cond(r, names)));
            gen_stmts(r, depth - 1, regs, names, out, ind + 4, multi);
            if r.below(3) != 0 {
                out.push_str(&format!("{pad}}} else {{\n"));
                gen_stmts(r, depth - 1, regs, names, out, ind + 4, multi);
            }
            out.push_str(&format!("{pad}}}\n"));
        } else {
            out.push_str(&format!("{pad}case {} {{\n", r.pick(names)));
            for k in 0..2 {
                out.push_str(&format!("{pad}    {k}: {{\n"));
                gen_stmts(r, depth - 1, regs, names, out, ind + 8, multi);
                out.push_str(&format!("{pad}    }}\n"));
            }
            out.push_str(&format!("{pad}    default: {{\n"));
            gen_stmts(r, depth - 1, regs, names, out, ind + 8, multi);
            out.push_str(&format!("{pad}    }}\n{pad}}}\n"));
        }
        return;
    }
    let n = 1 + r.below(3);
    for _ in 0..n {
        match if depth == 0 { 0 } else { r.below(4) } {
            0 | 1 => {
                let q = r.pick(regs).clone();
                out.push_str(&format!("{pad}{q} = {};\n", gen_expr(r, 2, names)));
            }
            2 => {
                out.push_str(&format!("{pad}if {} {{\n", gen_cond(r, names)));
                gen_stmts(r, depth - 1, regs, names, out, ind + 4, multi);
                if r.below(2) == 0 {
                    out.push_str(&format!("{pad}}} else {{\n"));
                    gen_stmts(r, depth - 1, regs, names, out, ind + 4, multi);
                }
                out.push_str(&format!("{pad}}}\n"));
            }
            _ => {
                out.push_str(&format!("{pad}case {} {{\n", r.pick(names)));
                for k in 0..2 {
                    out.push_str(&format!("{pad}    {k}: {{\n"));
                    gen_stmts(r, depth - 1, regs, names, out, ind + 8, multi);
                    out.push_str(&format!("{pad}    }}\n"));
                }
                out.push_str(&format!("{pad}    default: {{\n"));
                gen_stmts(r, depth - 1, regs, names, out, ind + 8, multi);
                out.push_str(&format!("{pad}    }}\n{pad}}}\n"));
            }
        }
    }
}

pub fn gen_design(dseed: u64, cycles: usize) -> Design {
    let mut r = Rng::new(dseed ^ 0x5157_4150);
    // kind: comb-only 20 %, sequential single-assignment 55 %, sequential multi-assignment 25 %
    let kr = r.below(20);
    let (seq, multi, kind) = if kr < 4 { (false, false, "comb") } else if kr < 15 { (true, false, "seq1") } else { (true, true, "seqm") };
    let mut feats = vec![];
    let mut ports = String::new();
    if seq {
        ports.push_str("    clk: input clock,\n    rst: input reset,\n");
    }
    let nin = 2 + r.below(2) as usize;
    let mut ins = vec![];
    for i in 0..nin {
        let w = *r.pick(WS);
        ports.push_str(&format!("    i{i}: input logic<{w}>,\n"));
        ins.push((format!("i{i}"), w));
    }
    let mut names: Vec<String> = ins.iter().map(|x| x.0.clone()).collect();
    let mut decl = String::new();
    let mut regs = vec![];
    if seq {
        for i in 0..2 {
            let w = *r.pick(WS);
            decl.push_str(&format!("    var q{i}: logic<{w}>;\n"));
            regs.push(format!("q{i}"));
            names.push(format!("q{i}"));
        }
    }
    // a constant table written by an always_comb (constant cone of the C backend) read dynamically
    let has_tbl = r.below(2) == 0;
    if has_tbl {
        feats.push("const_table");
        decl.push_str(&format!("    let sel: logic<2> = {};\n", if ins[0].1 >= 2 { "i0[1:0]" } else { "{i0, i0}" }));
        decl.push_str("    var tbl: logic<8> [4];\n    always_comb {\n");
        for j in 0..4 {
            decl.push_str(&format!("        tbl[{j}] = 8'h{:02x};\n", r.next() & 0xff));
        }
        decl.push_str("    }\n");
    }
    // `let` intermediates (the only variables the C backend may keep in locals)
    let nlet = r.below(4) as usize;
    if nlet > 0 {
        feats.push("let");
    }
    for i in 0..nlet {
        let w = *r.pick(WS);
        let e = gen_expr(&mut r, 2, &names);
        decl.push_str(&format!("    let t{i}: logic<{w}> = {e};\n"));
        names.push(format!("t{i}"));
    }
    // a let fed only by constants (constant cone candidate)
    if r.below(3) == 0 {
        feats.push("const_let");
        decl.push_str(&format!("    let kc: logic<16> = 16'h{:04x};\n", r.next() & 0xffff));
        names.push("kc".to_string());
    }
    // registers' next-state logic sees the names so far; the lets below are read by the output
    // assigns only (comb-only intermediates: what the C backend may keep in a local)
    let ff_names = names.clone();
    let mut clets = String::new();
    let ncl = r.below(3) as usize;
    if ncl > 0 {
        feats.push("comb_only_let");
    }
    for i in 0..ncl {
        let w = *r.pick(&[8usize, 16, 32, 64]);
        let e = gen_expr(&mut r, 2, &names);
        clets.push_str(&format!("    let c{i}: logic<{w}> = {e};\n"));
        names.push(format!("c{i}"));
    }
    let mut outs = vec![];
    let nout = 2 + r.below(2) as usize;
    let mut body = String::new();
    for i in 0..nout {
        let w = *r.pick(WS);
        ports.push_str(&format!("    o{i}: output logic<{w}>,\n"));
        outs.push(format!("o{i}"));
        let mut e = gen_expr(&mut r, 2, &names);
        if has_tbl && r.below(2) == 0 {
            e = format!("({e} ^ tbl[sel])");
        }
        body.push_str(&format!("    assign o{i} = {e};\n"));
    }
    // a child module, instantiated once or twice with different parameters
    let mut sub = String::new();
    let ninst = if r.below(3) == 0 { 1 + r.below(2) as usize } else { 0 };
    if ninst > 0 {
        feats.push("inst");
        let clkp = if seq { "    clk: input clock,\n    rst: input reset,\n" } else { "" };
        let subbody = if seq {
            "    var r: logic<W>;\n    always_ff {\n        if_reset {\n            r = 0;\n        } else {\n            r = a + K;\n        }\n    }\n    let m: logic<W> = r ^ a;\n    assign y = m + 1;\n"
        } else {
            "    let m: logic<W> = a + K;\n    assign y = m ^ (a >> 1);\n"
        };
        sub = format!("module Sub #(\n    param W: u32 = 8,\n    param K: u32 = 3,\n) (\n{clkp}    a: input logic<W>,\n    y: output logic<W>,\n) {{\n{subbody}}}\n");
        for j in 0..ninst {
            let w = *r.pick(&[4usize, 8, 16, 32]);
            let k = r.below(16);
            ports.push_str(&format!("    y{j}: output logic<{w}>,\n"));
            outs.push(format!("y{j}"));
            let a = gen_expr(&mut r, 1, &names);
            body.push_str(&format!("    let sa{j}: logic<{w}> = {a};\n"));
            let cr = if seq { "clk, rst, " } else { "" };
            body.push_str(&format!("    inst u{j}: Sub #(W: {w}, K: {k}) ({cr}a: sa{j}, y: y{j});\n"));
        }
    }
    let mut ff = String::new();
    if seq {
        let mut stmts = String::new();
        gen_stmts(&mut r, 2, &regs, &ff_names, &mut stmts, 12, multi);
        let resets: String = regs.iter().map(|q| format!("            {q} = 0;\n")).collect();
        ff = format!("    always_ff {{\n        if_reset {{\n{resets}        }} else {{\n{stmts}        }}\n    }}\n");
    }
    let code = format!("{sub}module Top (\n{ports}) {{\n{decl}{ff}{clets}{body}}}\n");
    // stimulus and API-call string
    let mut stim = vec![];
    let mut ops = String::from("n");
    if r.below(2) == 0 {
        ops.push('g');
    }
    if seq {
        ops.push('r');
        if r.below(2) == 0 {
            ops.push('g');
        }
    }
    for _ in 0..cycles {
        ops.push('s');
        if r.below(4) == 0 {
            ops.push('g');
        }
        if seq {
            ops.push('c');
            if r.below(6) == 0 {
                ops.push('c');
            }
        }
        if r.below(8) != 0 {
            ops.push('g');
        }
        if r.below(10) == 0 {
            ops.push('g');
        }
    }
    ops.push('g');
    for _ in 0..ops.matches('s').count() {
        stim.push(
            ins.iter()
                .map(|(_, w)| {
                    let v = match r.below(5) {
                        0 => 0,
                        1 => u64::MAX,
                        2 => r.below(4),
                        _ => r.next(),
                    };
                    if *w == 64 { v } else { v & ((1u64 << w) - 1) }
                })
                .collect(),
        );
    }
    Design { code, kind, seq, ins, outs, ops, stim, feats }
}

// ------------------------------------------------------------------------------------------------
// child: one run of one design in one engine mode
// ------------------------------------------------------------------------------------------------

fn mode_config(mode: &str) -> Config {
    match mode {
        "interp" => Config::default(),
        "jit" => Config { use_jit: true, ..Default::default() },
        "ccsync" => Config { use_jit: true, aot_c: true, aot_c_event: true, aot_c_async: false, ..Default::default() },
        _ => Config { use_jit: true, aot_c: true, aot_c_event: true, aot_c_async: true, ..Default::default() },
    }
}

fn hexs(b: &[u8]) -> String {
    b.iter().map(|x| format!("{x:02x}")).collect()
}

/// Prints the result block of one run on stdout.
fn child(opts: &Opts) -> i32 {
    let mode = opts.get("child").unwrap_or("interp").to_string();
    let dseed = u64::from_str_radix(opts.get("dseed").unwrap_or("1"), 16).unwrap_or(1);
    let cycles = opts.num("cycles", 8) as usize;
    let k: i64 = opts.get("k").and_then(|x| x.parse().ok()).unwrap_or(-1);
    let d = match opts.get("design") {
        Some(f) => load_design(f),
        None => gen_design(dseed, cycles),
    };
    std::panic::set_hook(Box::new(|info| {
        eprintln!("PANICMSG {}", info.location().map(|l| format!("{}:{}", l.file(), l.line())).unwrap_or_default());
    }));
    let config = mode_config(&mode);
    let res = catch_unwind(AssertUnwindSafe(|| -> Result<(), String> {
        if mode == "async" {
            verif_swap::set_ready_at(k);
        }
        let ir = build(&d.code, "Top", &config, false)?;
        let passes = ir.required_comb_passes;
        let comb = ir.whole_comb.is_some();
        let loc: Vec<(isize, usize)> = ir.whole_comb.as_ref().map(|w| w.localized_comb_bytes().to_vec()).unwrap_or_default();
        let nd = ir.derived_clock_schedule.clocks.len();
        let nev = ir.whole_events.len();
        let name = ir.name.to_string();
        let mut att = vec![];
        let mut trace = vec![];
        let mut states = vec![];
        let mut si = 0usize;
        let mut sim: Option<Simulator> = None;
        let mut ir_slot = Some(ir);
        let (mut evc, mut evr) = (false, false);
        for op in d.ops.chars() {
            match op {
                'n' => {
                    let s = Simulator::new(ir_slot.take().ok_or("two n")?, None);
                    if d.seq {
                        let clk = s.get_clock("clk").ok_or("no clk")?;
                        let rst = s.get_reset("rst").ok_or("no rst")?;
                        evc = s.ir.whole_events.contains_key(&clk);
                        evr = s.ir.whole_events.contains_key(&rst);
                    }
                    sim = Some(s);
                }
                's' => {
                    let s = sim.as_mut().ok_or("no sim")?;
                    for (j, (n, w)) in d.ins.iter().enumerate() {
                        s.set(n, Value::new(d.stim[si][j], *w, false));
                    }
                    si += 1;
                }
                'g' => {
                    let s = sim.as_mut().ok_or("no sim")?;
                    let vals: Vec<String> = d.outs.iter().map(|o| s.get(o).map(|v| bits_hex(&v)).unwrap_or("none".into())).collect();
                    trace.push(vals.join(","));
                    states.push(format!("{}/{}", hexs(&s.ir.ff_values), hexs(&s.ir.comb_values)));
                }
                'c' => {
                    let s = sim.as_mut().ok_or("no sim")?;
                    let clk = s.get_clock("clk").ok_or("no clk")?;
                    s.step(&clk);
                }
                'r' => {
                    let s = sim.as_mut().ok_or("no sim")?;
                    let clk = s.get_clock("clk").ok_or("no clk")?;
                    let rst = s.get_reset("rst").ok_or("no rst")?;
                    s.step_reset(&clk, &rst);
                }
                _ => return Err(format!("bad op {op}")),
            }
            att.push(verif_swap::attempts());
        }
        let deg = veryl_simulator::residency::degraded_modules();
        let dc = deg.iter().any(|x| *x == format!("whole_comb:{name}"));
        let de = deg.iter().any(|x| *x == format!("whole_event:{name}"));
        let out = std::io::stdout();
        let mut o = out.lock();
        let locs: Vec<String> = loc.iter().map(|(a, b)| format!("{a}+{b}")).collect();
        writeln!(o, "info passes={passes} comb={} evc={} evr={} nd={nd} nev={nev} loc=[{}]", comb as u8, evc as u8, evr as u8, locs.join(",")).ok();
        writeln!(o, "trace {}", trace.join("|")).ok();
        writeln!(o, "att {}", att.iter().map(|x| x.to_string()).collect::<Vec<_>>().join(",")).ok();
        writeln!(o, "deg {}{}", dc as u8, de as u8).ok();
        writeln!(o, "states {}", states.join("|")).ok();
        Ok(())
    }));
    match res {
        Ok(Ok(())) => 0,
        Ok(Err(e)) => {
            println!("rejected {}", e.replace('\n', " "));
            0
        }
        Err(_) => {
            println!("panic");
            0
        }
    }
}

fn bits_hex(v: &Value) -> String {
    // binary text -> hex, MSB first (2-state runs only; x/z kept as letters per bit group)
    let b = bits_of(v);
    if b.contains('x') || b.contains('z') {
        return b;
    }
    let padn = (4 - b.len() % 4) % 4;
    let s = "0".repeat(padn) + &b;
    s.as_bytes().chunks(4).map(|c| format!("{:x}", u8::from_str_radix(std::str::from_utf8(c).unwrap(), 2).unwrap())).collect()
}

// ------------------------------------------------------------------------------------------------
// design files (replay of an edited / shrunk design): `key value` lines, code last
// ------------------------------------------------------------------------------------------------

pub fn save_design(d: &Design, path: &std::path::Path) {
    let mut s = String::new();
    s.push_str(&format!("kind {}\nseq {}\nops {}\n", d.kind, d.seq as u8, d.ops));
    s.push_str(&format!("ins {}\n", d.ins.iter().map(|(n, w)| format!("{n}:{w}")).collect::<Vec<_>>().join(",")));
    s.push_str(&format!("outs {}\n", d.outs.join(",")));
    for v in &d.stim {
        s.push_str(&format!("stim {}\n", v.iter().map(|x| format!("{x:x}")).collect::<Vec<_>>().join(",")));
    }
    s.push_str("code\n");
    s.push_str(&d.code);
    std::fs::write(path, s).unwrap();
}

pub fn load_design(path: &str) -> Design {
    let text = std::fs::read_to_string(path).expect("design file");
    let (head, code) = text.split_once("\ncode\n").expect("code marker");
    let mut d = Design { code: code.to_string(), kind: "file", seq: false, ins: vec![], outs: vec![], ops: String::new(), stim: vec![], feats: vec![] };
    for l in head.lines() {
        let (k, v) = l.split_once(' ').unwrap_or((l, ""));
        match k {
            "seq" => d.seq = v == "1",
            "ops" => d.ops = v.to_string(),
            "ins" => {
                d.ins = v.split(',').filter(|x| !x.is_empty()).map(|x| { let (n, w) = x.split_once(':').unwrap(); (n.to_string(), w.parse().unwrap()) }).collect()
            }
            "outs" => d.outs = v.split(',').map(|x| x.to_string()).collect(),
            "stim" => d.stim.push(v.split(',').filter(|x| !x.is_empty()).map(|x| u64::from_str_radix(x, 16).unwrap()).collect()),
            _ => {}
        }
    }
    d
}

// ------------------------------------------------------------------------------------------------
// parent
// ------------------------------------------------------------------------------------------------

#[derive(Default, Clone)]
struct Run {
    status: String, // ok | rejected… | panic | crash
    info: String,
    trace: String,
    att: Vec<i64>,
    deg: String,
    states: Vec<String>,
    nconst: Option<u64>,
    stderr_tail: String,
}

fn spawn(exe: &std::path::Path, mode: &str, spec: &[String], k: i64, cache: &std::path::Path) -> std::process::Child {
    let mut c = Command::new(exe);
    c.arg("swap").arg("--child").arg(mode).arg("--k").arg(k.to_string());
    for a in spec {
        c.arg(a);
    }
    c.env("VERYL_AOT_CACHE_DIR", cache).env("VERYL_AOT_C_CONST_DIAG", "1").env("RUST_BACKTRACE", "0");
    c.stdin(Stdio::null()).stdout(Stdio::piped()).stderr(Stdio::piped());
    c.spawn().expect("spawn child")
}

fn collect(ch: std::process::Child) -> Run {
    let out = ch.wait_with_output().expect("child output");
    let so = String::from_utf8_lossy(&out.stdout).to_string();
    let se = String::from_utf8_lossy(&out.stderr).to_string();
    let mut r = Run::default();
    r.status = if out.status.success() { "ok".into() } else { "crash".into() };
    for l in so.lines() {
        if let Some(x) = l.strip_prefix("info ") {
            r.info = x.to_string();
        } else if let Some(x) = l.strip_prefix("trace ") {
            r.trace = x.to_string();
        } else if let Some(x) = l.strip_prefix("att ") {
            r.att = x.split(',').filter_map(|y| y.parse().ok()).collect();
        } else if let Some(x) = l.strip_prefix("deg ") {
            r.deg = x.to_string();
        } else if let Some(x) = l.strip_prefix("states ") {
            r.states = x.split('|').map(|y| y.to_string()).collect();
        } else if l.starts_with("rejected") {
            r.status = l.to_string();
        } else if l == "panic" {
            r.status = "panic".into();
        }
    }
    for l in se.lines() {
        if let Some(p) = l.find("post-gather n_const=") {
            let t = &l[p + "post-gather n_const=".len()..];
            let n: u64 = t.split_whitespace().next().and_then(|x| x.parse().ok()).unwrap_or(0);
            r.nconst = Some(r.nconst.unwrap_or(0).max(n));
        }
    }
    if r.status != "ok" {
        let lines: Vec<&str> = se.lines().filter(|l| !l.starts_with("[const_skip]")).collect();
        r.stderr_tail = lines.iter().rev().take(3).rev().cloned().collect::<Vec<_>>().join(" / ");
        if let Some(p) = lines.iter().find(|l| l.starts_with("PANICMSG")) {
            r.status = format!("panic@{}", p.trim_start_matches("PANICMSG ").trim());
        }
    }
    r
}

fn info_get(info: &str, key: &str) -> String {
    info.split_whitespace().find_map(|t| t.strip_prefix(&format!("{key}=")).map(|x| x.to_string())).unwrap_or_default()
}

fn parse_loc(s: &str) -> Vec<(usize, usize)> {
    s.trim_matches(|c| c == '[' || c == ']')
        .split(',')
        .filter(|x| !x.is_empty())
        .filter_map(|x| {
            let (a, b) = x.split_once('+')?;
            let a: i64 = a.parse().ok()?;
            if a < 0 { None } else { Some((a as usize, b.parse().ok()?)) }
        })
        .collect()
}

fn unhex(s: &str) -> Vec<u8> {
    (0..s.len() / 2).map(|i| u8::from_str_radix(&s[2 * i..2 * i + 2], 16).unwrap_or(0)).collect()
}

/// Differing byte ranges `off+len` (merged) of two equally long buffers.
fn diff_ranges(a: &[u8], b: &[u8]) -> Vec<(usize, usize)> {
    let mut v: Vec<(usize, usize)> = vec![];
    for i in 0..a.len().max(b.len()) {
        if a.get(i) != b.get(i) {
            match v.last_mut() {
                Some((o, l)) if *o + *l == i => *l += 1,
                _ => v.push((i, 1)),
            }
        }
    }
    v
}

fn run_design(exe: &std::path::Path, spec: &[String], label: &str, d: &Design, cache: &std::path::Path, par: usize, kmax_cap: usize, log: &mut Log) {
    // the three reference engines, concurrently (the cc-sync run also fills the .so cache)
    let (c1, c2, c3) = (spawn(exe, "interp", spec, -1, cache), spawn(exe, "jit", spec, -1, cache), spawn(exe, "ccsync", spec, -1, cache));
    let (interp, jit, ccs) = (collect(c1), collect(c2), collect(c3));
    if interp.status.starts_with("rejected") {
        log.count("rejected.analysis");
        log.push3(format!("case {label} {}", d.kind), format!("rejected {}", interp.status.split_whitespace().take(6).collect::<Vec<_>>().join("_")), "?".into());
        return;
    }
    // C33 compares an engine history with the histories of the SAME design; designs on which the
    // engines disagree before any swap (interpreter / JIT / synchronous C: other properties' subject)
    // are counted and skipped.
    if interp.status != "ok" || jit.status != "ok" || ccs.status != "ok" || interp.trace != jit.trace || interp.trace != ccs.trace {
        let why = if interp.status != "ok" {
            "interp-not-ok"
        } else if jit.status != "ok" {
            "jit-not-ok"
        } else if ccs.status != "ok" {
            "cc-not-ok"
        } else if interp.trace != jit.trace && jit.trace == ccs.trace {
            "interp-vs-jit=cc"
        } else if interp.trace == jit.trace {
            "cc-vs-interp=jit"
        } else if interp.trace == ccs.trace {
            "jit-vs-interp=cc"
        } else {
            "all-differ"
        };
        log.count("designs.engines_already_disagree");
        log.count(&format!("engines_already_disagree.{why}.{}", d.kind));
        log.push3(format!("case {label} {}", d.kind), format!("skipped engines-already-disagree {why}"), "?".into());
        return;
    }
    let k0 = collect(spawn(exe, "async", spec, 0, cache));
    let total = k0.att.last().copied().unwrap_or(0).max(0) as usize;
    let info = k0.info.clone();
    log.push3(format!("case {label} {}", d.kind), format!("ok attempts={total} nconst={} {}", k0.nconst.unwrap_or(0), info.split(" loc=").next().unwrap_or("")), "?".into());
    log.count("designs");
    log.count(&format!("kind.{}", d.kind));
    for f in &d.feats {
        log.count(&format!("feat.{f}"));
    }
    log.count(&format!("passes.{}", info_get(&info, "passes")));
    log.count(&format!("whole_comb.{}", info_get(&info, "comb")));
    log.count(&format!("whole_event_clk.{}", info_get(&info, "evc")));
    log.count(&format!("whole_event_rst.{}", info_get(&info, "evr")));
    let loc = parse_loc(&info_get(&info, "loc"));
    let locbytes: usize = loc.iter().map(|x| x.1).sum();
    log.count(if locbytes > 0 { "localized.some" } else { "localized.none" });
    log.add("localized.bytes", locbytes as u64);
    if let Some(n) = k0.nconst {
        log.count(if n > 0 { "const_cone.some" } else { "const_cone.none" });
    }
    log.add("attempts.total", total as u64);
    // the remaining swap points, `par` children at a time: every early attempt, then a stride, always
    // the last two
    let ks: Vec<i64> = if total <= kmax_cap {
        (1..=total as i64).collect()
    } else {
        let early = (kmax_cap * 2 / 3).max(1);
        let mut v: Vec<i64> = (1..=early as i64).collect();
        let rest = (kmax_cap - early).max(2);
        let lo = early as i64 + 1;
        for j in 0..rest {
            v.push(lo + (total as i64 - lo) * j as i64 / (rest as i64 - 1));
        }
        v.push(total as i64 - 1);
        v.push(total as i64);
        v.sort();
        v.dedup();
        v.retain(|x| *x >= 1 && *x <= total as i64);
        v
    };
    let mut runs: BTreeMap<i64, Run> = BTreeMap::new();
    runs.insert(0, k0);
    let mut all: Vec<i64> = vec![-1];
    all.extend(ks.iter());
    for chunk in all.chunks(par.max(1)) {
        let chs: Vec<(i64, std::process::Child)> = chunk.iter().map(|k| (*k, spawn(exe, "async", spec, *k, cache))).collect();
        for (k, ch) in chs {
            runs.insert(k, collect(ch));
        }
    }
    let never = runs.remove(&-1).unwrap_or_default();
    // ---- trace lines (property: every engine history gives the interpreter's trace)
    let mut tr = |name: &str, r: &Run, log: &mut Log| {
        let imp = if r.status == "ok" { r.trace.clone() } else { format!("{} {}", r.status, r.stderr_tail) };
        log.push3(format!("trace {label} k={name}"), imp, interp.trace.clone());
        log.count("runs");
        if r.status != "ok" {
            log.count("runs.not_ok");
        }
    };
    tr("jit", &jit, log);
    tr("ccsync", &ccs, log);
    tr("never", &never, log);
    for (k, r) in &runs {
        tr(&k.to_string(), r, log);
    }
    // ---- schedule lines (correspondence with the dispatch model)
    let sched_req = |k: &str| {
        format!(
            "sched k={k} passes={} comb={} evc={} evr={} nd={} ops={}",
            info_get(&info, "passes"),
            info_get(&info, "comb"),
            info_get(&info, "evc"),
            info_get(&info, "evr"),
            info_get(&info, "nd"),
            d.ops
        )
    };
    let sched_imp = |r: &Run| {
        if r.status == "ok" { format!("att=[{}] deg={}", r.att.iter().map(|x| x.to_string()).collect::<Vec<_>>().join(","), r.deg) } else { r.status.clone() }
    };
    log.push3(sched_req("never"), sched_imp(&never), "?".into());
    for (k, r) in &runs {
        log.push3(sched_req(&k.to_string()), sched_imp(r), "?".into());
        // evidence that swaps happen at different API calls: index of the first call served by C
        if r.status == "ok" {
            let first = r.att.iter().position(|a| *a > *k).map(|p| p.to_string()).unwrap_or("none".into());
            log.count(&format!("swap_at_call.{}", if first == "none" { "none".to_string() } else { format!("{:02}", first.parse::<usize>().unwrap().min(40)) }));
        }
    }
    // ---- state lines (≈ of the theorem: everything but the localised comb bytes)
    if never.status == "ok" {
        for (k, r) in &runs {
            if r.status != "ok" {
                continue;
            }
            let mut diffs: Vec<(usize, usize)> = vec![];
            let mut ffdiff = false;
            let mut lendiff = r.states.len() != never.states.len();
            for (a, b) in r.states.iter().zip(never.states.iter()) {
                let (fa, ca) = a.split_once('/').unwrap_or(("", ""));
                let (fb, cb) = b.split_once('/').unwrap_or(("", ""));
                if fa != fb {
                    ffdiff = true;
                }
                if ca.len() != cb.len() {
                    lendiff = true;
                }
                for x in diff_ranges(&unhex(ca), &unhex(cb)) {
                    if !diffs.contains(&x) {
                        diffs.push(x);
                    }
                }
            }
            diffs.sort();
            diffs.truncate(24);
            let inside = diffs.iter().all(|(o, l)| (*o..*o + *l).all(|b| loc.iter().any(|(lo, ll)| b >= *lo && b < *lo + *ll)));
            let imp = if !ffdiff && !lendiff && inside { "eq" } else { "diff" };
            if !diffs.is_empty() && inside {
                log.count("state.stale_localized_bytes_seen");
            }
            let f = |v: &Vec<(usize, usize)>| v.iter().map(|(a, b)| format!("{a}+{b}")).collect::<Vec<_>>().join(",");
            log.push3(
                format!("state {label} k={k} ff={} loc=[{}] diff=[{}]", if ffdiff || lendiff { "diff" } else { "eq" }, f(&loc), f(&diffs)),
                imp.to_string(),
                "eq".into(),
            );
            log.count("state.lines");
        }
    }
    log.count("sequences");
    if log.samples.len() < 3 {
        log.sample(format!("{label} kind={} attempts={total} ops={} {}", d.kind, d.ops, d.code.replace('\n', "⏎")).chars().take(1400).collect());
    }
}

pub fn main(opts: &Opts) -> i32 {
    if opts.get("child").is_some() {
        return child(opts);
    }
    if !veryl_simulator::backend::aot_c::cc_available() {
        eprintln!("swap: no C compiler");
        return 3;
    }
    let out = opts.out();
    let exe = std::env::current_exe().expect("current exe");
    let cache = out.join("aotcache");
    let _ = std::fs::create_dir_all(&cache);
    let cycles = opts.num("cycles", 6) as usize;
    let par = opts.num("par", 4) as usize;
    let kcap = opts.num("kcap", 64) as usize;
    let mut log = Log::new();
    if let Some(f) = opts.get("replay") {
        // request lines of a previous run: every `case <dseed|file:PATH> …` line is re-run in full
        let text = std::fs::read_to_string(f).unwrap_or_default();
        for l in text.lines() {
            let t: Vec<&str> = l.split_whitespace().collect();
            if t.first() != Some(&"case") || t.len() < 2 {
                continue;
            }
            if let Some(p) = t[1].strip_prefix("file:") {
                let d = load_design(p);
                run_design(&exe, &["--design".to_string(), p.to_string()], t[1], &d, &cache, par, kcap, &mut log);
            } else {
                let ds = u64::from_str_radix(t[1], 16).unwrap_or(1);
                let d = gen_design(ds, cycles);
                run_design(&exe, &["--dseed".to_string(), format!("{ds:x}"), "--cycles".to_string(), cycles.to_string()], t[1], &d, &cache, par, kcap, &mut log);
            }
        }
    } else if let Some(ds) = opts.get("dump") {
        // print one generated design as a design file (for shrinking by hand / by the check)
        let ds = u64::from_str_radix(ds, 16).unwrap_or(1);
        save_design(&gen_design(ds, cycles), &out.join("design.txt"));
    } else {
        // `--n` designs, but no new design is started after `--budget-s` seconds (a loaded machine
        // compiles slowly); at least `--min-n` designs are always run.
        let mut r = Rng::new(opts.seed());
        let t0 = std::time::Instant::now();
        let budget = opts.num("budget-s", 100_000);
        let min_n = opts.num("min-n", 3);
        for i in 0..opts.num("n", 10) {
            if i >= min_n && t0.elapsed().as_secs() > budget {
                log.count("stopped_early_on_time_budget");
                break;
            }
            let ds = r.next() >> 16;
            let d = gen_design(ds, cycles);
            run_design(&exe, &["--dseed".to_string(), format!("{ds:x}"), "--cycles".to_string(), cycles.to_string()], &format!("{ds:x}"), &d, &cache, par, kcap, &mut log);
        }
    }
    let _ = std::fs::remove_dir_all(&cache);
    log.write(&out);
    0
}
