//! `hx emit`: C01 — emitted SystemVerilog behaves like the Veryl design.
//!
//! For every generated design (Veryl text) and each of the 2 x 4 `[build] clock_type` x
//! `reset_type` settings:
//!   (a) real parser + analyzer + simulator (interpreter, 2-state): `step_reset`, then one `step`
//!       per stimulus vector -> output trace;
//!   (b) real emitter -> SystemVerilog text -> `svparse` (mini parser, this crate) -> Polish
//!       notation for the Lean model `SV.run` (the only SystemVerilog semantics available).
//! Request line: `c <cfg> <tb> <stim> <sv> <vd> <names> <srchex>`
//!   cfg   = `<p|n><al|ah|sl|sh>`        clock_type / reset_type
//!   tb    = `<clk-id>:<rst-id>:<p|n>:<h|l>` what a user of that configuration drives
//!   stim  = `a:b/a:b/…` hex input values per cycle
//!   sv    = parsed emitted module, vd = the generated design (for `emitModel` and the Veryl-side
//!           model), names = `.`-separated signal names by identifier, srchex = Veryl source (hex)
//! Reply of the implementation: `sv=<trace> vm=<trace> emit=eq` (both traces = the real simulator's);
//! the Lean driver answers with `SV.run` of the emitted module, the Veryl-side model's trace and
//! whether the parsed module equals `emitModel` of the design.
use crate::rng::Rng;
use crate::svparse as sv;
use crate::util::{Log, Opts};
use std::collections::BTreeMap;
use std::panic;
use std::path::PathBuf;
use veryl_analyzer::ir as air;
use veryl_analyzer::value::Value;
use veryl_analyzer::{Analyzer, Context};
use veryl_emitter::Emitter;
use veryl_metadata::{ClockType, Metadata, ResetType};
use veryl_parser::Parser;
use veryl_simulator::ir as sir;
use veryl_simulator::{Config, Simulator};

// ------------------------------------------------------------------------------------------------
// Veryl design AST (the generator's output)

#[derive(Clone, Debug)]
pub enum VExpr {
    Var(String),
    BitSel(String, u64),
    PartSel(String, u64, u64),
    /// width, signed, base, value hex
    Lit(u64, bool, char, String),
    Dec(u64),
    Fill(bool),
    Un(&'static str, Box<VExpr>),
    /// operators by their SystemVerilog spelling (`<` prints as `<:`)
    Chain(Box<VExpr>, Vec<(&'static str, VExpr)>),
    Paren(Box<VExpr>),
    If(Box<VExpr>, Box<VExpr>, Box<VExpr>),
    /// items with optional `repeat n`
    Cat(Vec<(VExpr, Option<u64>)>),
    AsNum(u64, Box<VExpr>),
    /// signed, width (8/16/32/64)
    AsInt(bool, u64, Box<VExpr>),
    SysSigned(bool, Box<VExpr>),
}

#[derive(Clone, Debug)]
pub enum VStmt {
    Assign(sv::SvLhs, VExpr),
    If(VExpr, Vec<VStmt>, Vec<VStmt>),
    IfReset(Vec<VStmt>, Vec<VStmt>),
    Case(VExpr, Vec<(Vec<VExpr>, Vec<VStmt>)>, Vec<VStmt>),
}

#[derive(Clone, Debug)]
pub enum VItem {
    Assign(sv::SvLhs, VExpr),
    Comb(Vec<VStmt>),
    /// explicit `(clk, rst)` list, body
    Ff(bool, Vec<VStmt>),
}

#[derive(Clone, Debug)]
pub struct Sig {
    pub name: String,
    pub width: u64,
    pub signed: bool,
}

#[derive(Clone, Debug)]
pub struct VDesign {
    pub clk_kind: &'static str,
    pub rst_kind: &'static str,
    pub ins: Vec<Sig>,
    pub outs: Vec<Sig>,
    pub vars: Vec<Sig>,
    pub items: Vec<VItem>,
}

impl VDesign {
    pub fn order(&self) -> Vec<String> {
        let mut v = vec!["clk".to_string(), "rst".to_string()];
        v.extend(self.ins.iter().map(|s| s.name.clone()));
        v.extend(self.outs.iter().map(|s| s.name.clone()));
        v.extend(self.vars.iter().map(|s| s.name.clone()));
        v
    }
}

fn vop(op: &str) -> &str {
    match op {
        "<" => "<:",
        ">" => ">:",
        x => x,
    }
}

fn starts_with_op(s: &str) -> bool {
    s.starts_with(['+', '-', '~', '!', '&', '|', '^'])
}

pub fn vexpr_text(e: &VExpr) -> String {
    match e {
        VExpr::Var(n) => n.clone(),
        VExpr::BitSel(n, i) => format!("{n}[{i}]"),
        VExpr::PartSel(n, h, l) => format!("{n}[{h}:{l}]"),
        VExpr::Lit(w, s, base, v) => {
            let digits = match base {
                'h' => v.clone(),
                'b' => {
                    let x = u128::from_str_radix(v, 16).unwrap();
                    format!("{x:b}")
                }
                'o' => {
                    let x = u128::from_str_radix(v, 16).unwrap();
                    format!("{x:o}")
                }
                _ => {
                    let x = u128::from_str_radix(v, 16).unwrap();
                    format!("{x}")
                }
            };
            format!("{}'{}{}{}", w, if *s { "s" } else { "" }, base, digits)
        }
        VExpr::Dec(v) => format!("{v}"),
        VExpr::Fill(b) => format!("'{}", *b as u8),
        VExpr::Un(op, a) => {
            let t = vexpr_text(a);
            if starts_with_op(&t) { format!("{op} {t}") } else { format!("{op}{t}") }
        }
        VExpr::Chain(f, rest) => {
            let mut s = vexpr_text(f);
            for (op, x) in rest {
                s.push_str(&format!(" {} {}", vop(op), vexpr_text(x)));
            }
            s
        }
        VExpr::Paren(a) => format!("({})", vexpr_text(a)),
        VExpr::If(c, a, b) => format!("if {} ? {} : {}", vexpr_text(c), vexpr_text(a), vexpr_text(b)),
        VExpr::Cat(v) => {
            let items: Vec<String> = v
                .iter()
                .map(|(x, r)| match r {
                    Some(n) => format!("{} repeat {}", vexpr_text(x), n),
                    None => vexpr_text(x),
                })
                .collect();
            format!("{{{}}}", items.join(", "))
        }
        VExpr::AsNum(n, a) => format!("{} as {}", vexpr_text(a), n),
        VExpr::AsInt(s, w, a) => format!("{} as {}{}", vexpr_text(a), if *s { "i" } else { "u" }, w),
        VExpr::SysSigned(s, a) => format!("${}({})", if *s { "signed" } else { "unsigned" }, vexpr_text(a)),
    }
}

fn vstmts_text(v: &[VStmt], ind: usize, out: &mut String) {
    for s in v {
        vstmt_text(s, ind, out);
    }
}

fn vstmt_text(s: &VStmt, ind: usize, out: &mut String) {
    let pad = " ".repeat(ind);
    match s {
        VStmt::Assign(l, e) => out.push_str(&format!("{pad}{} = {};\n", sv::lhs_text(l), vexpr_text(e))),
        VStmt::If(c, t, e) => {
            out.push_str(&format!("{pad}if {} {{\n", vexpr_text(c)));
            vstmts_text(t, ind + 4, out);
            // `else if` chain when the else branch is exactly one `if`
            let mut cur = e;
            loop {
                if cur.is_empty() {
                    out.push_str(&format!("{pad}}}\n"));
                    break;
                }
                if cur.len() == 1 {
                    if let VStmt::If(c2, t2, e2) = &cur[0] {
                        out.push_str(&format!("{pad}}} else if {} {{\n", vexpr_text(c2)));
                        vstmts_text(t2, ind + 4, out);
                        cur = e2;
                        continue;
                    }
                }
                out.push_str(&format!("{pad}}} else {{\n"));
                vstmts_text(cur, ind + 4, out);
                out.push_str(&format!("{pad}}}\n"));
                break;
            }
        }
        VStmt::IfReset(t, e) => {
            out.push_str(&format!("{pad}if_reset {{\n"));
            vstmts_text(t, ind + 4, out);
            if e.is_empty() {
                out.push_str(&format!("{pad}}}\n"));
            } else {
                out.push_str(&format!("{pad}}} else {{\n"));
                vstmts_text(e, ind + 4, out);
                out.push_str(&format!("{pad}}}\n"));
            }
        }
        VStmt::Case(sel, arms, d) => {
            out.push_str(&format!("{pad}case {} {{\n", vexpr_text(sel)));
            for (labels, body) in arms {
                out.push_str(&format!("{pad}    {}: {{\n", labels.iter().map(vexpr_text).collect::<Vec<_>>().join(", ")));
                vstmts_text(body, ind + 8, out);
                out.push_str(&format!("{pad}    }}\n"));
            }
            out.push_str(&format!("{pad}    default: {{\n"));
            vstmts_text(d, ind + 8, out);
            out.push_str(&format!("{pad}    }}\n{pad}}}\n"));
        }
    }
}

fn ty_text(s: &Sig) -> String {
    format!("{}logic<{}>", if s.signed { "signed " } else { "" }, s.width)
}

pub fn design_text(d: &VDesign) -> String {
    let mut s = String::from("module Top (\n");
    s.push_str(&format!("    clk: input {},\n    rst: input {},\n", d.clk_kind, d.rst_kind));
    for p in &d.ins {
        s.push_str(&format!("    {}: input {},\n", p.name, ty_text(p)));
    }
    for p in &d.outs {
        s.push_str(&format!("    {}: output {},\n", p.name, ty_text(p)));
    }
    s.push_str(") {\n");
    for v in &d.vars {
        s.push_str(&format!("    var {}: {};\n", v.name, ty_text(v)));
    }
    for it in &d.items {
        match it {
            VItem::Assign(l, e) => s.push_str(&format!("    assign {} = {};\n", sv::lhs_text(l), vexpr_text(e))),
            VItem::Comb(v) => {
                s.push_str("    always_comb {\n");
                vstmts_text(v, 8, &mut s);
                s.push_str("    }\n");
            }
            VItem::Ff(explicit, v) => {
                s.push_str(if *explicit { "    always_ff (clk, rst) {\n" } else { "    always_ff {\n" });
                vstmts_text(v, 8, &mut s);
                s.push_str("    }\n");
            }
        }
    }
    s.push_str("}\n");
    s
}

// Polish notation of the design for the Lean side ------------------------------------------------

fn id_of(ids: &sv::Ids, n: &str) -> usize {
    *ids.get(n).expect("generated name")
}

fn vexpr_polish(e: &VExpr, ids: &sv::Ids, out: &mut Vec<String>) {
    match e {
        VExpr::Var(n) => out.push(format!("v{}", id_of(ids, n))),
        VExpr::BitSel(n, i) => out.push(format!("b{}:{}", id_of(ids, n), i)),
        VExpr::PartSel(n, h, l) => out.push(format!("s{}:{}:{}", id_of(ids, n), h, l)),
        VExpr::Lit(w, s, _, v) => out.push(format!("l{}:{}:{}", w, if *s { "s" } else { "u" }, v)),
        VExpr::Dec(v) => out.push(format!("d{v:x}")),
        VExpr::Fill(b) => out.push(format!("f{}", *b as u8)),
        VExpr::Un(op, a) => {
            out.push(sv::unop_name(op).to_string());
            vexpr_polish(a, ids, out);
        }
        VExpr::Chain(f, rest) => {
            out.push("chain".into());
            out.push(rest.len().to_string());
            vexpr_polish(f, ids, out);
            for (op, x) in rest {
                out.push(sv::binop_name(op).to_string());
                vexpr_polish(x, ids, out);
            }
        }
        VExpr::Paren(a) => {
            out.push("par".into());
            vexpr_polish(a, ids, out);
        }
        VExpr::If(c, a, b) => {
            out.push("ifx".into());
            vexpr_polish(c, ids, out);
            vexpr_polish(a, ids, out);
            vexpr_polish(b, ids, out);
        }
        VExpr::Cat(v) => {
            let n = v.len();
            for (k, (x, r)) in v.iter().enumerate() {
                if k + 1 < n {
                    out.push("cat".into());
                }
                if let Some(r) = r {
                    out.push(format!("rep{r}"));
                } else if n == 1 {
                    // `{x}` = `{1{x}}`
                    out.push("rep1".into());
                }
                vexpr_polish(x, ids, out);
            }
        }
        VExpr::AsNum(n, a) => {
            out.push(format!("asn{n}"));
            vexpr_polish(a, ids, out);
        }
        VExpr::AsInt(s, w, a) => {
            out.push(format!("as{}{}", if *s { "i" } else { "u" }, w));
            vexpr_polish(a, ids, out);
        }
        VExpr::SysSigned(s, a) => {
            out.push(format!("ssg{}", if *s { "s" } else { "u" }));
            vexpr_polish(a, ids, out);
        }
    }
}

fn vstmts_polish(v: &[VStmt], ids: &sv::Ids, out: &mut Vec<String>) {
    if v.is_empty() {
        out.push("skip".into());
        return;
    }
    for (k, s) in v.iter().enumerate() {
        if k + 1 < v.len() {
            out.push("seq".into());
        }
        vstmt_polish(s, ids, out);
    }
}

fn vstmt_polish(s: &VStmt, ids: &sv::Ids, out: &mut Vec<String>) {
    match s {
        VStmt::Assign(l, e) => {
            out.push("as".into());
            out.push(sv::lhs_polish(l, ids).unwrap());
            vexpr_polish(e, ids, out);
        }
        VStmt::If(c, t, e) => {
            out.push("if".into());
            vexpr_polish(c, ids, out);
            vstmts_polish(t, ids, out);
            vstmts_polish(e, ids, out);
        }
        VStmt::IfReset(t, e) => {
            out.push("ifr".into());
            vstmts_polish(t, ids, out);
            vstmts_polish(e, ids, out);
        }
        VStmt::Case(sel, arms, d) => {
            out.push("case".into());
            vexpr_polish(sel, ids, out);
            out.push(arms.len().to_string());
            for (labels, body) in arms {
                out.push(labels.len().to_string());
                for l in labels {
                    vexpr_polish(l, ids, out);
                }
                vstmts_polish(body, ids, out);
            }
            vstmts_polish(d, ids, out);
        }
    }
}

pub fn design_polish(d: &VDesign) -> String {
    let order = d.order();
    let mut ids = sv::Ids::new();
    for (i, n) in order.iter().enumerate() {
        ids.insert(n.clone(), i);
    }
    let mut out: Vec<String> = vec!["vmod".into(), order.len().to_string(), "1u".into(), "1u".into()];
    for s in d.ins.iter().chain(d.outs.iter()).chain(d.vars.iter()) {
        out.push(format!("{}{}", s.width, if s.signed { "s" } else { "u" }));
    }
    out.push(d.ins.len().to_string());
    for s in &d.ins {
        out.push(id_of(&ids, &s.name).to_string());
    }
    out.push(d.outs.len().to_string());
    for s in &d.outs {
        out.push(id_of(&ids, &s.name).to_string());
    }
    out.push(
        match d.clk_kind {
            "clock" => "c",
            "clock_posedge" => "cp",
            _ => "cn",
        }
        .into(),
    );
    out.push(
        match d.rst_kind {
            "reset" => "r",
            "reset_async_high" => "rah",
            "reset_async_low" => "ral",
            "reset_sync_high" => "rsh",
            _ => "rsl",
        }
        .into(),
    );
    out.push(d.items.len().to_string());
    for it in &d.items {
        match it {
            VItem::Assign(l, e) => {
                out.push("assign".into());
                out.push(sv::lhs_polish(l, &ids).unwrap());
                vexpr_polish(e, &ids, &mut out);
            }
            VItem::Comb(v) => {
                out.push("comb".into());
                vstmts_polish(v, &ids, &mut out);
            }
            VItem::Ff(explicit, v) => {
                out.push(if *explicit { "ffx".into() } else { "ff".into() });
                vstmts_polish(v, &ids, &mut out);
            }
        }
    }
    out.join(",")
}

// ------------------------------------------------------------------------------------------------
// generator

const WIDTHS: &[u64] = &[1, 1, 2, 3, 4, 4, 7, 8, 8, 8, 9, 12, 16, 16, 31, 32, 32, 33, 63, 64, 64];
const WIDE: &[u64] = &[65, 100, 128];
const ARITH: &[&str] = &["+", "-", "*", "&", "|", "^", "~^"];
const DIVS: &[&str] = &["/", "%"];
const SHIFTS: &[&str] = &["<<", ">>", "<<<", ">>>"];
const CMPS: &[&str] = &["==", "!=", "<", "<=", ">", ">="];
const UN_CTX: &[&str] = &["-", "~", "+"];
const UN_RED: &[&str] = &["&", "|", "^", "~&", "~|", "~^"];

pub struct Gen<'a> {
    pub r: &'a mut Rng,
    pub log: &'a mut Log,
    /// readable signals
    pub sigs: Vec<Sig>,
    /// probability knobs
    pub wide: bool,
    pub warn: bool,
    /// 0: unsigned + - * & | ^ on variables and sized literals; 1: + signed, compare, shift, unary,
    /// if/case, ternary; 2: + concatenation, casts, $signed, selects, decimal literals, / % **; 3: all
    pub level: u32,
    /// maximal expression depth
    pub depth: u32,
    /// avoid the constructs on which the unchanged tree is known to deviate from IEEE 1800
    /// (each is exercised by a fixed witness instead, see `witnesses`)
    pub clean: bool,
    /// > 0 while generating a self-determined operand whose WIDTH matters (concatenation item,
    /// reduction operand): no widening cast there in clean mode
    pub selfdet: u32,
    /// registers assigned by the `always_ff` being generated: `$signed(q)`/`$unsigned(q)` reads the
    /// value assigned earlier in the block instead of the old one (known finding)
    pub no_sys: Vec<String>,
    /// C22 stratum: only what `veryl translate` carries over (no `< >`, `?:`, casts, replication)
    pub translatable: bool,
}

fn mask_hex(r: &mut Rng, w: u64) -> String {
    // boundary-biased value of `w` bits as hex
    let nd = w.div_ceil(4) as usize;
    let mode = r.below(8);
    let mut s = String::new();
    for _ in 0..nd {
        let d = match mode {
            0 => 0,
            1 => 15,
            2 => 10,
            3 => 5,
            _ => r.below(16) as u32,
        };
        s.push(std::char::from_digit(d, 16).unwrap());
    }
    let mut h = sv::hex_trunc(&s, w);
    if mode == 4 {
        // msb only
        let mut v = vec!['0'; nd];
        let top = ((w - 1) % 4) as u32;
        v[0] = std::char::from_digit(1 << top, 16).unwrap();
        h = sv::hex_trunc(&v.iter().collect::<String>(), w);
    }
    if mode == 5 {
        h = "1".into();
    }
    h
}

impl<'a> Gen<'a> {
    fn width(&mut self) -> u64 {
        if self.wide && self.r.chance(1, 6) { *self.r.pick(WIDE) } else { *self.r.pick(WIDTHS) }
    }

    fn leaf(&mut self) -> VExpr {
        if self.level < 2 {
            if self.r.chance(3, 4) {
                self.log.count("e.var");
                return VExpr::Var(self.r.pick(&self.sigs).name.clone());
            }
            self.log.count("e.lit");
            let w = *self.r.pick(&[1u64, 4, 8, 16, 32]);
            let signed = self.level >= 1 && self.r.chance(1, 4);
            return VExpr::Lit(w, signed, 'h', mask_hex(self.r, w));
        }
        match self.r.below(20) {
            0..=10 => {
                let s = self.r.pick(&self.sigs).clone();
                match if self.clean && s.signed { 7 } else { self.r.below(8) } {
                    0 if s.width > 1 => {
                        self.log.count("e.bitsel");
                        VExpr::BitSel(s.name, self.r.below(s.width))
                    }
                    1 if s.width > 1 => {
                        self.log.count("e.partsel");
                        let lo = self.r.below(s.width);
                        let hi = self.r.range(lo, s.width - 1);
                        VExpr::PartSel(s.name, hi, lo)
                    }
                    _ => {
                        self.log.count("e.var");
                        VExpr::Var(s.name)
                    }
                }
            }
            11..=15 => {
                self.log.count("e.lit");
                let w = *self.r.pick(&[1u64, 2, 3, 4, 8, 8, 16, 32, 33, 64]);
                let signed = self.r.chance(1, 4);
                let base = *self.r.pick(&['h', 'h', 'b', 'd', 'o']);
                let v = if base == 'd' && w > 64 { "1".to_string() } else { mask_hex(self.r, w) };
                VExpr::Lit(w, signed, base, v)
            }
            16..=17 => {
                self.log.count("e.dec");
                VExpr::Dec(match self.r.below(6) {
                    0 => 0,
                    1 => 1,
                    2 => 2,
                    3 => 0x7fff_ffff,
                    4 => self.r.below(16),
                    _ => self.r.below(1 << 31),
                })
            }
            _ => {
                self.log.count("e.sig2");
                VExpr::Var(self.r.pick(&self.sigs).name.clone())
            }
        }
    }

    /// a 1-bit expression in parentheses (operand of `&&`, `||`, `!`, conditions)
    fn boolean(&mut self, depth: u32) -> VExpr {
        if self.warn && self.r.chance(1, 4) {
            // multi-bit logical operand (analyzer warning only); a factor
            let x = self.operand(depth);
            return match x {
                VExpr::Var(_) | VExpr::BitSel(..) | VExpr::PartSel(..) | VExpr::Lit(..) | VExpr::Paren(_) | VExpr::Cat(_) => x,
                x => VExpr::Paren(Box::new(x)),
            };
        }
        let inner = match if self.level < 1 { 0 } else { self.r.below(6) } {
            0 | 1 | 2 => {
                let op = if self.level < 1 { *self.r.pick(&["==", "!="]) } else if self.translatable { *self.r.pick(&["==", "!=", "<=", ">="]) } else { *self.r.pick(CMPS) };
                self.log.count(&format!("op.{}", sv::binop_name(op)));
                if self.clean && matches!(op, "==" | "!=") {
                    VExpr::Chain(Box::new(self.leaf()), vec![(op, self.leaf())])
                } else {
                    VExpr::Chain(Box::new(self.operand(depth.saturating_sub(1))), vec![(op, self.operand(depth.saturating_sub(1)))])
                }
            }
            3 => {
                let op = *self.r.pick(UN_RED);
                self.log.count(&format!("un.{}", sv::unop_name(op)));
                self.selfdet += 1;
                let f = self.factor(depth.saturating_sub(1));
                self.selfdet -= 1;
                VExpr::Un(op, Box::new(f))
            }
            4 if depth > 0 => {
                let op = *self.r.pick(&["&&", "||"]);
                self.log.count(&format!("op.{}", sv::binop_name(op)));
                VExpr::Chain(Box::new(self.boolean(depth - 1)), vec![(op, self.boolean(depth - 1))])
            }
            _ => {
                let one: Vec<Sig> = self.sigs.iter().filter(|s| s.width == 1).cloned().collect();
                if one.is_empty() {
                    let s = self.r.pick(&self.sigs).clone();
                    if self.clean && s.signed && s.width > 1 {
                        VExpr::Paren(Box::new(VExpr::Un("|", Box::new(VExpr::Var(s.name.clone())))))
                    } else {
                        VExpr::BitSel(s.name.clone(), self.r.below(s.width.max(1))).fix1(&s)
                    }
                } else {
                    VExpr::Var(self.r.pick(&one).name.clone())
                }
            }
        };
        match inner {
            VExpr::Var(_) | VExpr::BitSel(..) => inner,
            x => VExpr::Paren(Box::new(x)),
        }
    }

    /// factor level: leaf, parenthesised expression, concatenation, if-expression, $signed
    fn factor(&mut self, depth: u32) -> VExpr {
        if depth == 0 {
            return self.leaf();
        }
        let pick = match if self.translatable { 0 } else { self.level } {
            0 => self.r.below(13),
            1 => *self.r.pick(&[0u64, 1, 2, 3, 4, 5, 6, 7, 8, 9, 10, 11, 12, 15, 16, 18, 19]),
            _ => self.r.below(20),
        };
        match pick {
            0..=7 => self.leaf(),
            8..=12 => {
                self.log.count("e.paren");
                VExpr::Paren(Box::new(self.expr(depth - 1)))
            }
            13..=14 => {
                self.log.count("e.cat");
                let n = self.r.range(1, 3);
                let mut items = vec![];
                for _ in 0..n {
                    self.selfdet += 1;
                    let mut x = self.cat_item(depth - 1);
                    self.selfdet -= 1;
                    let rep = if self.r.chance(1, 5) { Some(self.r.range(1, 3)) } else { None };
                    if rep.is_some() {
                        self.log.count("e.repeat");
                        // a repeated item is a factor
                        if !matches!(x, VExpr::Var(_) | VExpr::BitSel(..) | VExpr::PartSel(..) | VExpr::Lit(..) | VExpr::Paren(_)) {
                            x = VExpr::Paren(Box::new(x));
                        }
                    }
                    items.push((x, rep));
                }
                // values beyond 64 bits belong to the wide stratum
                if !self.wide && est_width(&VExpr::Cat(items.clone()), &self.sigs) > 64 {
                    return self.leaf();
                }
                // `{{a, b}}`: the emitter drops the redundant outer brace; not generated
                if items.len() == 1 && items[0].1.is_none() && matches!(items[0].0, VExpr::Cat(_)) {
                    return items.pop().unwrap().0;
                }
                VExpr::Cat(items)
            }
            15..=16 => {
                self.log.count("e.if");
                let c = self.boolean(depth - 1);
                let a = self.expr(depth - 1);
                let b = self.expr(depth - 1);
                VExpr::Paren(Box::new(VExpr::If(Box::new(c), Box::new(a), Box::new(b))))
            }
            17 => {
                self.log.count("e.sys_signed");
                if self.clean {
                    let ok: Vec<Sig> = self.sigs.iter().filter(|s| !self.no_sys.contains(&s.name)).cloned().collect();
                    if ok.is_empty() {
                        return self.leaf();
                    }
                    VExpr::SysSigned(self.r.chance(1, 2), Box::new(VExpr::Var(self.r.pick(&ok).name.clone())))
                } else {
                    VExpr::SysSigned(self.r.chance(1, 2), Box::new(self.expr(depth - 1)))
                }
            }
            _ => {
                let b = self.boolean(depth - 1);
                if self.clean {
                    // a relational result is unsigned in IEEE 1800; `{…}` makes it so on both sides
                    match b {
                        VExpr::Paren(x) if !matches!(*x, VExpr::Cat(_)) => VExpr::Cat(vec![(*x, None)]),
                        x => x,
                    }
                } else {
                    b
                }
            }
        }
    }

    /// concatenation item: sized (no bare decimal, no fill)
    fn cat_item(&mut self, depth: u32) -> VExpr {
        for _ in 0..8 {
            let x = self.operand(depth);
            if !has_unsized_top(&x) {
                return x;
            }
        }
        VExpr::Var(self.r.pick(&self.sigs).name.clone())
    }

    /// Expression02 level: unary* factor [as T]
    fn operand(&mut self, depth: u32) -> VExpr {
        let mut e = self.factor(depth);
        let k = if self.level < 1 {
            0
        } else {
            match self.r.below(10) {
                0 | 1 => 1,
                2 if self.r.chance(1, 3) => 2,
                _ => 0,
            }
        };
        for _ in 0..k {
            let mut op = if self.r.chance(2, 3) { *self.r.pick(UN_CTX) } else { *self.r.pick(UN_RED) };
            if self.clean && UN_RED.contains(&op) && has_cast(&e) {
                op = *self.r.pick(UN_CTX);
            }
            self.log.count(&format!("un.{}", sv::unop_name(op)));
            if matches!(e, VExpr::Fill(_)) {
                e = VExpr::Var(self.r.pick(&self.sigs).name.clone());
            }
            // the emitter prints adjacent unary operators without a space (`~ &a` -> `~&a`,
            // `- -a` -> `--a`: known finding, exercised by fixed witnesses): keep them apart
            if glues(op, &vexpr_text(&e)) {
                e = VExpr::Paren(Box::new(e));
            }
            e = VExpr::Un(op, Box::new(e));
        }
        if self.level >= 2 && self.clean {
            // `x as N` only on an unsigned variable / select / literal; widening only where the
            // width of the result does not matter
            if self.r.chance(1, 7) && k == 0 {
                let uns: Vec<Sig> = self.sigs.iter().filter(|s| !s.signed).cloned().collect();
                if !uns.is_empty() {
                    let s0 = self.r.pick(&uns).clone();
                    let n = if self.selfdet > 0 || self.r.chance(1, 2) { self.r.range(1, s0.width) } else { *self.r.pick(&[4u64, 8, 12, 16, 32, 33, 64]) };
                    self.log.count(if n > s0.width { "e.as_num_widen" } else { "e.as_num" });
                    e = VExpr::AsNum(n, Box::new(VExpr::Var(s0.name)));
                }
            }
        } else if self.level >= 2 && self.r.chance(1, 9) && !matches!(e, VExpr::Fill(_)) {
            if self.r.chance(2, 3) {
                self.log.count("e.as_num");
                let n = *self.r.pick(&[1u64, 4, 8, 8, 12, 16, 32, 33, 64]);
                e = VExpr::AsNum(n, Box::new(e));
            } else {
                self.log.count("e.as_int");
                let w = *self.r.pick(&[8u64, 16, 32, 64]);
                e = VExpr::AsInt(self.r.chance(1, 2), w, Box::new(e));
            }
        }
        e
    }

    /// chain of operands, sometimes without parentheses
    pub fn expr(&mut self, depth: u32) -> VExpr {
        let depth = depth.min(self.depth);
        let n = match self.r.below(10) {
            0 | 1 => 0,
            2..=6 => 1,
            7 | 8 => if self.level >= 3 { 2 } else { 1 },
            _ => if self.level >= 3 { 3 } else { 1 },
        };
        if n == 0 {
            return self.operand(depth);
        }
        let first = self.operand(depth);
        let mut rest = vec![];
        for _ in 0..n {
            let class = match self.level {
                0 => 0,
                1 => *self.r.pick(&[0u64, 1, 2, 3, 4, 10, 11, 12, 13, 14, 15, 17]),
                _ => self.r.below(20),
            };
            let op: &'static str = match class {
                0..=8 => *self.r.pick(ARITH),
                9 => *self.r.pick(DIVS),
                10..=12 => *self.r.pick(SHIFTS),
                13..=15 => *self.r.pick(CMPS),
                16 => "**",
                17 => *self.r.pick(&["&&", "||"]),
                _ => *self.r.pick(ARITH),
            };
            let mut op = op;
            if self.translatable && matches!(op, "<" | ">") {
                op = if op == "<" { "<=" } else { ">=" };
            }
            if self.clean {
                // relational results leak a sign (known finding): in chains only == / !=
                if matches!(op, "<" | "<=" | ">" | ">=") {
                    op = if self.r.chance(1, 2) { "==" } else { "!=" };
                }
                // `==`/`!=` read the sign FLAG of their operand values, which `& | ^ << >>` results
                // lose (known finding): both operands simple
                if matches!(op, "==" | "!=") {
                    let prev_simple = match rest.last() {
                        Some((_, x)) => is_simple(x),
                        None => is_simple(&first),
                    };
                    if !prev_simple {
                        op = *self.r.pick(ARITH);
                    }
                }
                // no `a ** b ** c`
                if op == "**" && rest.last().is_some_and(|x: &(&'static str, VExpr)| x.0 == "**") {
                    op = "*";
                }
            }
            self.log.count(&format!("op.{}", sv::binop_name(op)));
            let rhs = match op {
                "==" | "!=" if self.clean => self.leaf(),
                "&&" | "||" => self.boolean(depth.saturating_sub(1)),
                "/" | "%" => {
                    // mostly non-zero divisors: `(x | 1)`
                    let x = self.operand(depth.saturating_sub(1));
                    if self.r.chance(19, 20) {
                        VExpr::Paren(Box::new(VExpr::Chain(Box::new(x), vec![("|", VExpr::Lit(1, false, 'b', "1".into()))])))
                    } else {
                        x
                    }
                }
                "**" => {
                    // small exponents keep the values interesting
                    match self.r.below(4) {
                        0 => VExpr::Dec(self.r.below(4)),
                        1 => VExpr::Lit(2, false, 'd', format!("{:x}", self.r.below(4))),
                        2 => {
                            let s = self.r.pick(&self.sigs).clone();
                            if s.width > 2 { VExpr::PartSel(s.name, 1, 0) } else { VExpr::Var(s.name) }
                        }
                        _ => self.operand(0),
                    }
                }
                "<<" | ">>" | "<<<" | ">>>" => {
                    match self.r.below(3) {
                        0 => VExpr::Dec(self.r.below(70)),
                        1 => {
                            let s = self.r.pick(&self.sigs).clone();
                            if s.width > 3 { VExpr::PartSel(s.name, 2, 0) } else { VExpr::Var(s.name) }
                        }
                        _ => {
                            let x = self.operand(depth.saturating_sub(1));
                            if matches!(x, VExpr::Fill(_)) { VExpr::Dec(1) } else { x }
                        }
                    }
                }
                _ => self.operand(depth),
            };
            rest.push((op, rhs));
        }
        // the left operand of `&&`/`||` must be 1 bit too: parenthesise what precedes
        let mut first = first;
        let mut out: Vec<(&'static str, VExpr)> = vec![];
        for (op, rhs) in rest {
            if (op == "&&" || op == "||") && !self.warn {
                let prev = if out.is_empty() { first.clone() } else { VExpr::Chain(Box::new(first.clone()), out.clone()) };
                let b = VExpr::Paren(Box::new(VExpr::Un("|", Box::new(VExpr::Paren(Box::new(prev))))));
                first = b;
                out.clear();
            }
            out.push((op, rhs));
        }
        if matches!(first, VExpr::Fill(_)) && out.iter().any(|(op, _)| matches!(*op, "<<" | ">>" | "<<<" | ">>>" | "**" | "==" | "!=" | "<" | "<=" | ">" | ">=")) {
            first = VExpr::Var(self.r.pick(&self.sigs).name.clone());
        }
        VExpr::Chain(Box::new(first), out)
    }

    fn lhs(&mut self, s: &Sig) -> sv::SvLhs {
        sv::SvLhs::Var(s.name.clone())
    }

    /// statements assigning (some of) `targets`; every path assigns what `must` lists first
    pub fn stmts(&mut self, depth: u32, targets: &[Sig]) -> Vec<VStmt> {
        let n = self.r.range(1, 2);
        let mut v = vec![];
        for _ in 0..n {
            let t = self.r.pick(targets).clone();
            match if depth == 0 || self.level < 1 { 0 } else { self.r.below(6) } {
                0..=2 => {
                    self.log.count("s.assign");
                    let l = if self.level >= 2 && t.width > 2 && self.r.chance(1, 8) {
                        self.log.count("s.lhs_partsel");
                        let lo = self.r.below(t.width);
                        let hi = self.r.range(lo, t.width - 1);
                        if hi == lo { sv::SvLhs::BitSel(t.name.clone(), lo) } else { sv::SvLhs::PartSel(t.name.clone(), hi, lo) }
                    } else {
                        self.lhs(&t)
                    };
                    let dd = self.depth.min(2);
                    v.push(VStmt::Assign(l, self.expr(dd)));
                }
                3 | 4 => {
                    self.log.count("s.if");
                    let c = self.boolean(1);
                    let a = self.stmts(depth - 1, targets);
                    let b = if self.r.chance(2, 3) { self.stmts(depth - 1, targets) } else { vec![] };
                    v.push(VStmt::If(c, a, b));
                }
                _ => {
                    self.log.count("s.case");
                    let sel = if self.level < 2 {
                        VExpr::Var(self.r.pick(&self.sigs).name.clone())
                    } else if self.clean {
                        // the selector is not widened to the items' width (known finding): a plain
                        // variable or a select of an unsigned one
                        let s = self.r.pick(&self.sigs).clone();
                        if s.width > 3 && !s.signed && self.r.chance(1, 2) { VExpr::PartSel(s.name, 2, 0) } else { VExpr::Var(s.name) }
                    } else if self.r.chance(2, 3) {
                        let s = self.r.pick(&self.sigs).clone();
                        if s.width > 3 { VExpr::PartSel(s.name, 2, 0) } else { VExpr::Var(s.name) }
                    } else {
                        self.operand(1)
                    };
                    let narms = self.r.range(1, 3);
                    let uniform = if self.clean { Some((*self.r.pick(&[3u64, 4, 8, 32]), self.r.chance(1, 4))) } else { None };
                    let mut arms = vec![];
                    for k in 0..narms {
                        let nl = if self.r.chance(1, 4) { 2 } else { 1 };
                        let mut labels = vec![];
                        for j in 0..nl {
                            let val = k * 2 + j;
                            if let Some((lw, ls)) = uniform {
                                labels.push(VExpr::Lit(lw, ls, *self.r.pick(&['d', 'h', 'b']), format!("{:x}", val)));
                                continue;
                            }
                            labels.push(match if self.level < 2 { 2 } else { self.r.below(4) } {
                                0 => VExpr::Dec(val),
                                1 => VExpr::Lit(8, self.r.chance(1, 4), 'h', format!("{:x}", if self.r.chance(1, 6) { 0xf8 + val } else { val })),
                                _ => VExpr::Lit(3, false, 'd', format!("{val:x}")),
                            });
                        }
                        arms.push((labels, self.stmts(depth - 1, targets)));
                    }
                    let d = self.stmts(depth - 1, targets);
                    v.push(VStmt::Case(sel, arms, d));
                }
            }
        }
        v
    }
}

/// upper bound of the IEEE self-determined width of an expression
pub fn est_width(e: &VExpr, sigs: &[Sig]) -> u64 {
    let wof = |n: &String| sigs.iter().find(|s| &s.name == n).map(|s| s.width).unwrap_or(64);
    match e {
        VExpr::Var(n) => wof(n),
        VExpr::BitSel(..) => 1,
        VExpr::PartSel(_, h, l) => h - l + 1,
        VExpr::Lit(w, ..) => *w,
        VExpr::Dec(_) => 32,
        VExpr::Fill(_) => 1,
        VExpr::Un(_, a) | VExpr::Paren(a) | VExpr::SysSigned(_, a) => est_width(a, sigs),
        VExpr::Chain(f, r) => r.iter().fold(est_width(f, sigs), |m, x| m.max(est_width(&x.1, sigs))),
        VExpr::If(_, a, b) => est_width(a, sigs).max(est_width(b, sigs)),
        VExpr::Cat(v) => v.iter().map(|(x, r)| est_width(x, sigs) * r.unwrap_or(1)).sum(),
        VExpr::AsNum(n, a) => (*n).max(est_width(a, sigs)),
        VExpr::AsInt(_, w, a) => (*w).max(est_width(a, sigs)),
    }
}

/// no variable occurs in the expression
pub fn is_const(e: &VExpr) -> bool {
    match e {
        VExpr::Var(_) | VExpr::BitSel(..) | VExpr::PartSel(..) => false,
        VExpr::Lit(..) | VExpr::Dec(_) | VExpr::Fill(_) => true,
        VExpr::Un(_, a) | VExpr::Paren(a) | VExpr::SysSigned(_, a) | VExpr::AsNum(_, a) | VExpr::AsInt(_, _, a) => is_const(a),
        VExpr::Chain(f, r) => is_const(f) && r.iter().all(|x| is_const(&x.1)),
        VExpr::If(c, a, b) => is_const(c) && is_const(a) && is_const(b),
        VExpr::Cat(v) => v.iter().all(|x| is_const(&x.0)),
    }
}

/// `always_comb` with several assignments to one variable evaluates a constant non-literal
/// right-hand side at its self-determined width (known finding): such a RHS becomes a literal
pub fn fix_const_rhs(v: &mut [VStmt]) {
    for s in v.iter_mut() {
        match s {
            VStmt::Assign(_, e) => {
                if is_const(e) && !matches!(e, VExpr::Lit(..) | VExpr::Dec(_) | VExpr::Fill(_)) {
                    *e = VExpr::Lit(8, false, 'h', "a5".into());
                }
            }
            VStmt::If(_, a, b) | VStmt::IfReset(a, b) => {
                fix_const_rhs(a);
                fix_const_rhs(b);
            }
            VStmt::Case(_, arms, d) => {
                for (_, b) in arms.iter_mut() {
                    fix_const_rhs(b);
                }
                fix_const_rhs(d);
            }
        }
    }
}

/// variable, select or literal
pub fn is_simple(e: &VExpr) -> bool {
    matches!(e, VExpr::Var(_) | VExpr::BitSel(..) | VExpr::PartSel(..) | VExpr::Lit(..) | VExpr::Dec(_))
}

/// some `as` cast occurs in the expression
pub fn has_cast(e: &VExpr) -> bool {
    match e {
        VExpr::AsNum(..) | VExpr::AsInt(..) => true,
        VExpr::Un(_, a) | VExpr::Paren(a) | VExpr::SysSigned(_, a) => has_cast(a),
        VExpr::Chain(f, r) => has_cast(f) || r.iter().any(|x| has_cast(&x.1)),
        VExpr::If(c, a, b) => has_cast(c) || has_cast(a) || has_cast(b),
        VExpr::Cat(v) => v.iter().any(|x| has_cast(&x.0)),
        _ => false,
    }
}

/// would `op` followed by `text` lex as a different operator once the space is dropped?
pub fn glues(op: &str, text: &str) -> bool {
    let a = op.chars().last().unwrap_or(' ');
    let b = text.chars().next().unwrap_or(' ');
    op.len() == 1 && matches!((a, b), ('~', '&') | ('~', '|') | ('~', '^') | ('^', '~') | ('-', '-') | ('+', '+') | ('&', '&') | ('|', '|'))
}

trait Fix1 {
    fn fix1(self, s: &Sig) -> VExpr;
}
impl Fix1 for VExpr {
    fn fix1(self, s: &Sig) -> VExpr {
        if s.width == 1 { VExpr::Var(s.name.clone()) } else { self }
    }
}

/// a concatenation item may not be an unsized number (`3`, `'1`), directly or under unary ops
fn has_unsized_top(e: &VExpr) -> bool {
    match e {
        VExpr::Dec(_) | VExpr::Fill(_) => true,
        VExpr::Un(_, a) => has_unsized_top(a),
        _ => false,
    }
}

/// C22 fresh stratum: a combinational module of `assign`s and `always_comb` blocks that hold ONE
/// if/else (or case) statement with single-assignment branches — the shapes `veryl translate`
/// carries over completely (a `begin … end` with several statements loses all but the first,
/// see the findings)
pub fn gen_translatable(r: &mut Rng, log: &mut Log, level: u32, depth: u32) -> VDesign {
    let mut g = Gen { r, log, sigs: vec![], wide: false, warn: false, level, depth, clean: true, selfdet: 0, no_sys: vec![], translatable: true };
    let sg = if level >= 1 { 3 } else { u64::MAX };
    let nin = g.r.range(2, 4);
    let mut ins = vec![];
    for i in 0..nin {
        ins.push(Sig { name: format!("i{i}"), width: g.width(), signed: g.r.chance(1, sg) });
    }
    g.sigs = ins.clone();
    let nw = g.r.range(0, 2);
    let nout = g.r.range(1, 3);
    let mut vars = vec![];
    let mut outs = vec![];
    let mut items = vec![];
    for k in 0..nw + nout {
        let t = if k < nw {
            Sig { name: format!("w{k}"), width: g.width(), signed: g.r.chance(1, sg) }
        } else {
            Sig { name: format!("o{}", k - nw), width: g.width(), signed: g.r.chance(1, sg) }
        };
        let l = sv::SvLhs::Var(t.name.clone());
        if g.r.chance(3, 5) {
            g.log.count("item.assign");
            let e = g.expr(depth);
            items.push(VItem::Assign(l, e));
        } else {
            g.log.count("item.comb_if");
            let c = g.boolean(1);
            let a = g.expr(depth);
            let b = g.expr(depth);
            let st = if g.r.chance(1, 3) {
                let c2 = g.boolean(1);
                let e3 = g.expr(depth);
                VStmt::If(c, vec![VStmt::Assign(l.clone(), a)], vec![VStmt::If(c2, vec![VStmt::Assign(l.clone(), b)], vec![VStmt::Assign(l.clone(), e3)])])
            } else {
                VStmt::If(c, vec![VStmt::Assign(l.clone(), a)], vec![VStmt::Assign(l.clone(), b)])
            };
            let mut body = vec![st];
            fix_const_rhs(&mut body);
            items.push(VItem::Comb(body));
        }
        if k < nw {
            vars.push(t.clone());
        } else {
            outs.push(t.clone());
        }
        g.sigs.push(t);
    }
    VDesign { clk_kind: "clock", rst_kind: "reset", ins, outs, vars, items }
}

/// one `assign o = <expr>` over 2-3 inputs and a register that just samples `i0`
pub fn gen_tiny(r: &mut Rng, log: &mut Log, level: u32, depth: u32, clean: bool) -> VDesign {
    let mut g = Gen { r, log, sigs: vec![], wide: false, warn: false, level, depth, clean, selfdet: 0, no_sys: vec![], translatable: false };
    let sg = if level >= 1 { 2 } else { u64::MAX };
    let nin = g.r.range(2, 3);
    let mut ins = vec![];
    for i in 0..nin {
        ins.push(Sig { name: format!("i{i}"), width: *g.r.pick(&[1u64, 3, 4, 8, 8, 16, 32, 64]), signed: g.r.chance(1, sg) });
    }
    let q = Sig { name: "q0".into(), width: ins[0].width, signed: ins[0].signed };
    let o = Sig { name: "o0".into(), width: *g.r.pick(&[1u64, 4, 8, 16, 16, 32, 33, 64]), signed: g.r.chance(1, sg) };
    g.sigs = ins.clone();
    g.sigs.push(q.clone());
    let e = g.expr(depth);
    let items = vec![
        VItem::Ff(false, vec![VStmt::IfReset(vec![VStmt::Assign(sv::SvLhs::Var("q0".into()), VExpr::Lit(q.width, false, 'h', "0".into()))], vec![VStmt::Assign(sv::SvLhs::Var("q0".into()), VExpr::Var("i0".into()))])]),
        VItem::Assign(sv::SvLhs::Var("o0".into()), e),
    ];
    VDesign { clk_kind: "clock", rst_kind: "reset", ins, outs: vec![o], vars: vec![q], items }
}

pub fn gen_design(r: &mut Rng, log: &mut Log, wide: bool, warn: bool, level: u32, depth: u32, clean: bool) -> VDesign {
    gen_design_x(r, log, wide, warn, level, depth, clean, false)
}

/// `comb`: combinational module in the translator's stratum (no registers)
pub fn gen_design_x(r: &mut Rng, log: &mut Log, wide: bool, warn: bool, level: u32, depth: u32, clean: bool, comb: bool) -> VDesign {
    let mut g = Gen { r, log, sigs: vec![], wide, warn, level, depth, clean, selfdet: 0, no_sys: vec![], translatable: false };
    g.translatable = comb;
    let sg = if level >= 1 { 3 } else { u64::MAX };
    let nin = g.r.range(2, 4);
    let mut ins = vec![];
    for i in 0..nin {
        ins.push(Sig { name: format!("i{i}"), width: g.width(), signed: g.r.chance(1, sg) });
    }
    let nreg = if comb { 0 } else { g.r.range(1, 3) };
    let mut regs = vec![];
    for i in 0..nreg {
        regs.push(Sig { name: format!("q{i}"), width: g.width(), signed: g.r.chance(1, sg) });
    }
    let nwire = g.r.range(0, 3);
    let mut wires = vec![];
    for i in 0..nwire {
        wires.push(Sig { name: format!("w{i}"), width: g.width(), signed: g.r.chance(1, sg) });
    }
    let nout = g.r.range(1, 3);
    let mut outs = vec![];
    for i in 0..nout {
        outs.push(Sig { name: format!("o{i}"), width: g.width(), signed: g.r.chance(1, sg) });
    }
    let clk_kind = match g.r.below(10) {
        0 => "clock_posedge",
        1 => "clock_negedge",
        _ => "clock",
    };
    let rst_kind = match g.r.below(12) {
        0 => "reset_async_high",
        1 => "reset_async_low",
        2 => "reset_sync_high",
        3 => "reset_sync_low",
        _ => "reset",
    };
    g.log.count(&format!("clk.{clk_kind}"));
    g.log.count(&format!("rst.{rst_kind}"));
    let mut items = vec![];
    // combinational wires in dependency order
    g.sigs = ins.iter().chain(regs.iter()).cloned().collect();
    let mut k = 0;
    while k < wires.len() {
        let group = if k + 1 < wires.len() && g.r.chance(1, 3) { 2 } else { 1 };
        let targets: Vec<Sig> = wires[k..k + group].to_vec();
        if group == 1 && g.r.chance(1, 2) {
            g.log.count("item.assign");
            let e = g.expr(3);
            items.push(VItem::Assign(sv::SvLhs::Var(targets[0].name.clone()), e));
        } else {
            g.log.count("item.comb");
            let mut body = vec![];
            for t in &targets {
                let e = if g.level >= 2 && g.r.chance(1, 3) { VExpr::Fill(g.r.chance(1, 2)) } else { g.expr(2) };
                body.push(VStmt::Assign(sv::SvLhs::Var(t.name.clone()), e));
            }
            body.extend(g.stmts(2, &targets));
            if g.clean {
                fix_const_rhs(&mut body);
            }
            items.push(VItem::Comb(body));
        }
        g.sigs.extend(targets);
        k += group;
    }
    // registers
    let mut k = 0;
    while k < regs.len() {
        let group = if k + 1 < regs.len() && g.r.chance(1, 2) { 2 } else { 1 };
        let targets: Vec<Sig> = regs[k..k + group].to_vec();
        g.log.count("item.ff");
        let mut rst_body = vec![];
        for t in &targets {
            let e = match if g.level < 2 { 3 } else { g.r.below(4) } {
                0 => VExpr::Dec(g.r.below(4)),
                1 => VExpr::Fill(g.r.chance(1, 2)),
                _ => VExpr::Lit(t.width, false, 'h', mask_hex(g.r, t.width)),
            };
            rst_body.push(VStmt::Assign(sv::SvLhs::Var(t.name.clone()), e));
        }
        // (also across blocks: `$unsigned(q)` of a register assigned by another always_ff reads its new value)
        g.no_sys = g.sigs.iter().filter(|s| !s.name.starts_with('i')).map(|s| s.name.clone()).collect();
        let body = g.stmts(2, &targets);
        g.no_sys.clear();
        items.push(VItem::Ff(g.r.chance(1, 4), vec![VStmt::IfReset(rst_body, body)]));
        k += group;
    }
    // outputs
    for o in &outs {
        if g.r.chance(1, 4) {
            g.log.count("item.comb_out");
            let mut body = vec![VStmt::Assign(sv::SvLhs::Var(o.name.clone()), g.expr(2))];
            body.extend(g.stmts(1, std::slice::from_ref(o)));
            if g.clean {
                fix_const_rhs(&mut body);
            }
            items.push(VItem::Comb(body));
        } else {
            g.log.count("item.assign_out");
            let e = g.expr(3);
            items.push(VItem::Assign(sv::SvLhs::Var(o.name.clone()), e));
        }
    }
    let mut vars = regs;
    vars.extend(wires);
    VDesign { clk_kind, rst_kind, ins, outs, vars, items }
}

// ------------------------------------------------------------------------------------------------
// running the real code

pub const CFGS: &[(&str, ClockType, ResetType)] = &[
    ("pal", ClockType::PosEdge, ResetType::AsyncLow),
    ("pah", ClockType::PosEdge, ResetType::AsyncHigh),
    ("psl", ClockType::PosEdge, ResetType::SyncLow),
    ("psh", ClockType::PosEdge, ResetType::SyncHigh),
    ("nal", ClockType::NegEdge, ResetType::AsyncLow),
    ("nah", ClockType::NegEdge, ResetType::AsyncHigh),
    ("nsl", ClockType::NegEdge, ResetType::SyncLow),
    ("nsh", ClockType::NegEdge, ResetType::SyncHigh),
];

pub struct Built {
    pub sv_text: String,
    pub ir: air::Ir,
}

pub fn metadata_for(ct: ClockType, rt: ResetType) -> Metadata {
    let mut m = Metadata::create_default("prj").unwrap();
    m.build.clock_type = ct;
    m.build.reset_type = rt;
    m
}

/// parse + analyse (errors reject) + emit
pub fn build(code: &str, metadata: &Metadata) -> Result<Built, String> {
    build_top(code, metadata, "Top")
}

pub fn build_top(code: &str, metadata: &Metadata, _top: &str) -> Result<Built, String> {
    veryl_analyzer::symbol_table::clear();
    veryl_analyzer::unsafe_table::clear();
    let parser = Parser::parse(code, &"").map_err(|e| format!("parse: {e}"))?;
    let analyzer = Analyzer::new(metadata);
    let mut context = Context::default();
    let mut ir = air::Ir::default();
    let mut errors = vec![];
    errors.append(&mut analyzer.analyze_pass1("prj", &parser.veryl));
    errors.append(&mut Analyzer::analyze_post_pass1());
    errors.append(&mut analyzer.analyze_pass2(&parser.veryl, &mut context, Some(&mut ir)));
    errors.append(&mut Analyzer::analyze_post_pass2(&ir));
    let hard: Vec<String> = errors.iter().filter(|e| e.is_error()).map(|e| format!("{e}")).collect();
    if !hard.is_empty() {
        return Err(format!("analyzer: {}", hard[0]));
    }
    let p = PathBuf::from("top.veryl");
    let mut emitter = Emitter::new(metadata, "prj", &p, &PathBuf::from("top.sv"), &PathBuf::from("top.sv.map"));
    emitter.emit(&parser.veryl, code);
    Ok(Built { sv_text: emitter.as_str().to_string(), ir })
}

pub fn sim_config(rt: ResetType) -> Config {
    Config {
        use_4state: false,
        use_jit: false,
        abstract_reset_active_high: matches!(rt, ResetType::AsyncHigh | ResetType::SyncHigh),
        abstract_reset_sync: matches!(rt, ResetType::SyncHigh | ResetType::SyncLow),
        ..Config::default()
    }
}

pub fn hex_value(h: &str, w: u64) -> Value {
    // little-endian bytes of a hex string
    let nb = (w.div_ceil(64) * 8) as usize;
    let mut bytes = vec![0u8; nb];
    let hs: Vec<u8> = h.bytes().rev().collect();
    for (k, c) in hs.iter().enumerate() {
        let d = (*c as char).to_digit(16).unwrap() as u8;
        if k / 2 < nb {
            bytes[k / 2] |= d << (4 * (k % 2));
        }
    }
    let mask = vec![0u8; nb];
    Value::from_le_bytes(&bytes, &mask, w as usize, false)
}

/// trace of the real simulator: `step_reset`, then set inputs / `step` / read outputs
pub fn simulate(ir: &air::Ir, rt: ResetType, ins: &[(String, u64)], outs: &[String], stim: &[Vec<String>]) -> Result<String, String> {
    simulate_top(ir, rt, "Top", ins, outs, stim)
}

pub fn simulate_top(ir: &air::Ir, rt: ResetType, top: &str, ins: &[(String, u64)], outs: &[String], stim: &[Vec<String>]) -> Result<String, String> {
    simulate_any(ir, rt, top, ins, outs, stim, false)
}

pub fn simulate_any(ir: &air::Ir, rt: ResetType, top: &str, ins: &[(String, u64)], outs: &[String], stim: &[Vec<String>], comb_ok: bool) -> Result<String, String> {
    let cfg = sim_config(rt);
    let top = veryl_parser::resource_table::insert_str(top);
    let sir = sir::build_ir(ir, top, &cfg).map_err(|e| format!("build_ir: {e:?}"))?;
    let mut sim = Simulator::new(sir, None);
    // a module without `clock`/`reset` typed ports (translated combinational modules) is only
    // settled: set inputs, read outputs
    let ev = match (sim.get_clock("clk"), sim.get_reset("rst")) {
        (Some(c), Some(r)) => Some((c, r)),
        _ => None,
    };
    if ev.is_none() && !comb_ok {
        return Err("no clock/reset port".into());
    }
    if let Some((clk, rst)) = &ev {
        sim.step_reset(clk, rst);
    }
    let mut cycles = vec![];
    for s in stim {
        for (k, (name, w)) in ins.iter().enumerate() {
            sim.set(name, hex_value(&s[k], *w));
        }
        if let Some((clk, _)) = &ev {
            sim.step(clk);
        }
        let vals: Vec<String> = outs.iter().map(|o| sim.get(o).map(|v| plain_hex(&format!("{v:x}"))).unwrap_or_else(|| "?".into())).collect();
        cycles.push(if vals.is_empty() { "_".to_string() } else { vals.join(":") });
    }
    Ok(if cycles.is_empty() { "-".into() } else { cycles.join("/") })
}

/// `7'h7f` -> `7f`, `64'h0000` -> `0` (x/z digits are kept: `X`/`Z`)
pub fn plain_hex(s: &str) -> String {
    let d = match s.find("'h") {
        Some(i) => &s[i + 2..],
        None => s,
    };
    let t = d.trim_start_matches('0');
    if t.is_empty() { "0".into() } else { t.to_ascii_lowercase() }
}

pub fn gen_stim(r: &mut Rng, ins: &[Sig], n: usize) -> Vec<Vec<String>> {
    (0..n).map(|_| ins.iter().map(|s| mask_hex(r, s.width)).collect()).collect()
}

fn hex_encode(s: &str) -> String {
    s.bytes().map(|b| format!("{b:02x}")).collect()
}
fn hex_decode(s: &str) -> Option<String> {
    let b: Vec<u8> = (0..s.len() / 2).map(|i| u8::from_str_radix(&s[2 * i..2 * i + 2], 16)).collect::<Result<_, _>>().ok()?;
    String::from_utf8(b).ok()
}

pub struct Case {
    /// `-` or the key of the known finding this case is the witness of
    pub tag: String,
    pub cfg: usize,
    pub src: String,
    pub vd: String,
    pub order: Vec<String>,
    pub ins: Vec<(String, u64)>,
    pub outs: Vec<String>,
    pub stim: Vec<Vec<String>>,
}

/// run one case against the real code; `Ok((op, impl))`, or `Err((class, reason))`
pub fn run_case(c: &Case) -> Result<(String, String), (String, String)> {
    let (cname, ct, rt) = CFGS[c.cfg];
    let metadata = metadata_for(ct, rt);
    let built = build(&c.src, &metadata).map_err(|e| ("rejected".to_string(), e))?;
    let m = sv::parse_module(&built.sv_text).map_err(|e| ("unsupported".to_string(), e))?;
    let in_names: Vec<String> = c.ins.iter().map(|x| x.0.clone()).collect();
    let svp = sv::module_polish(&m, &c.order, &in_names, &c.outs).map_err(|e| ("unsupported".to_string(), e))?;
    let trace = simulate(&built.ir, rt, &c.ins, &c.outs, &c.stim).map_err(|e| ("sim-error".to_string(), e))?;
    // what the user of this configuration drives: the explicit port type wins over [build]
    let (ck, rk) = kinds_from_vd(&c.vd);
    let pos = match ck.as_str() {
        "cp" => true,
        "cn" => false,
        _ => matches!(ct, ClockType::PosEdge),
    };
    let high = match rk.as_str() {
        "rah" | "rsh" => true,
        "ral" | "rsl" => false,
        _ => matches!(rt, ResetType::AsyncHigh | ResetType::SyncHigh),
    };
    let tb = format!("0:1:{}:{}", if pos { "p" } else { "n" }, if high { "h" } else { "l" });
    let stim = if c.stim.is_empty() { "-".to_string() } else { c.stim.iter().map(|s| if s.is_empty() { "_".to_string() } else { s.join(":") }).collect::<Vec<_>>().join("/") };
    let op = format!("c {} {} {} {} {} {} {} {}", cname, tb, stim, svp, c.vd, c.order.join("."), hex_encode(&c.src), c.tag);
    let imp = if c.vd == "-" { format!("sv={trace} vm=na emit=na") } else { format!("sv={trace} vm={trace} emit=eq") };
    Ok((op, imp))
}


// ------------------------------------------------------------------------------------------------
// fixed witnesses of the known findings (hand-written Veryl; no design token: `vd` = `-`)

pub const WITNESSES: &[(&str, &str, &str, &str)] = &[
    // key, ports, body, stimulus
    ("emit:unary-operator-tokens-glued", "a: input logic<4>, o: output logic<8>", "assign o = ~ &a;", "f/7/0"),
    ("emit:unary-operator-tokens-glued", "a: input logic<4>, o: output logic<8>", "assign o = ^ ~a;", "f/7/0"),
    ("pow:right-assoc-vs-ieee-left-assoc", "a: input logic<8>, b: input logic<8>, o: output logic<16>", "assign o = a + b * 2 ** 3 ** 2;", "1:1/3:2"),
    ("cast:type-cast-operand-not-widened", "a: input logic<1>, o: output logic<32>", "assign o = -a as u32;", "1/0"),
    ("select:signedness-of-signed-variable-kept", "b: input signed logic<4>, c: input signed logic<4>, o: output logic<8>", "assign o = b[3:0] + c;", "f:f/1:8"),
    ("cast:width-cast-result-unsigned", "b: input signed logic<4>, c: input signed logic<4>, o: output logic<8>", "assign o = (b as 4) + c;", "f:f/1:8"),
    ("cast:widening-cast-dropped-in-self-determined-context", "a: input logic<1>, o: output logic<8>", "assign o = &(a as 4);", "1/0"),
    ("relational:result-signed-when-operands-signed", "b: input signed logic<4>, c: input signed logic<4>, o: output logic<8>", "assign o = (b <: c) + c;", "f:f/8:7"),
    ("signed-fn:non-leaf-operand-zero-extended", "d: input logic<8>, o: output logic<16>", "assign o = $signed(+d);", "aa/80/1"),
    ("case:items-compared-pairwise", "b: input signed logic<4>, o: output logic<4>", "always_comb { case b { 8'sh0f: o = 1; 8'h00: o = 2; default: o = 3; } }", "f/0/1"),
    ("case:selector-not-widened", "w: input logic<2>, o: output logic<4>", "always_comb { case ~w { 3'h3: o = 1; default: o = 2; } }", "0/3"),
    ("eq:operand-sign-flag-lost-after-bitwise", "a: input signed logic<4>, b: input signed logic<4>, c: input signed logic<1>, o: output logic<1>", "assign o = (a | b) == c;", "f:0:1/0:0:0"),
    ("always_comb:const-rhs-self-determined-on-reassignment", "a: input logic<8>, o: output logic<8>", "always_comb { o = ~1'b0; if a[0] { o = a; } }", "2/3"),
    (
        "always_ff:signed-fn-operand-reads-blocking-value",
        "a: input logic<4>, o: output logic<4>",
        "var s: logic<4>; always_ff { if_reset { s = 2; } else { s = a; s = $unsigned(s) + 1; } } assign o = s;",
        "5/7/9",
    ),
    (
        "always_ff:signed-fn-operand-reads-blocking-value",
        "a: input logic<1>, o: output logic<1>",
        "var p: logic<1>; var q: logic<1>; always_ff { if_reset { p = 0; } else { p = a; } } always_ff { if_reset { q = 0; } else { q = $unsigned(p); } } assign o = q;",
        "1/0/1/1/0",
    ),
    ("wide:select-assign-of-65-bit-rhs", "i1: input logic<33>, i2: input logic<32>, i3: input logic<1>, o: output logic<3>", "always_comb { o = 0; o[1] = (i3 ^ {i1, ~i2}); }", "1:ffffffff:1/155555555:7d11d6d5:1/100000000:1:1"),
];

/// run one hand-written module (ports discovered from the emitted text)
pub fn witness_case(src: &str, cfg: usize, stim: &[Vec<String>], tag: &str) -> Result<(String, String), String> {
    let (_, ct, rt) = CFGS[cfg];
    let metadata = metadata_for(ct, rt);
    let built = build(src, &metadata)?;
    let m = sv::parse_module(&built.sv_text).map_err(|e| format!("unsupported: {e}"))?;
    let ins: Vec<(String, u64)> = m.decls.iter().filter(|d| d.kind == 0 && d.name != "clk" && d.name != "rst").map(|d| (d.name.clone(), d.width)).collect();
    let outs: Vec<String> = m.decls.iter().filter(|d| d.kind == 1).map(|d| d.name.clone()).collect();
    let mut order = vec!["clk".to_string(), "rst".to_string()];
    order.extend(ins.iter().map(|x| x.0.clone()));
    order.extend(outs.iter().cloned());
    order.extend(m.decls.iter().filter(|d| d.kind == 2).map(|d| d.name.clone()));
    let c = Case { tag: tag.to_string(), cfg, src: src.to_string(), vd: "-".into(), order, ins, outs, stim: stim.to_vec() };
    match panic::catch_unwind(panic::AssertUnwindSafe(|| run_case(&c))) {
        Ok(Ok(x)) => Ok(x),
        Ok(Err((class, why))) => Err(format!("{class}: {why}")),
        Err(_) => Err("panic".into()),
    }
}

/// clock / reset kind tokens of a `vmod,…` design
pub fn kinds_from_vd(vd: &str) -> (String, String) {
    let t: Vec<&str> = vd.split(',').collect();
    let nd: usize = t.get(1).and_then(|x| x.parse().ok()).unwrap_or(0);
    let mut p = 2 + nd;
    let nin: usize = t.get(p).and_then(|x| x.parse().ok()).unwrap_or(0);
    p += 1 + nin;
    let nout: usize = t.get(p).and_then(|x| x.parse().ok()).unwrap_or(0);
    p += 1 + nout;
    (t.get(p).unwrap_or(&"c").to_string(), t.get(p + 1).unwrap_or(&"r").to_string())
}

fn run_guarded(c: &Case) -> Result<(String, String), (String, String)> {
    match panic::catch_unwind(panic::AssertUnwindSafe(|| run_case(c))) {
        Ok(r) => r,
        Err(_) => Err(("panic".into(), "panic in parser/analyzer/emitter/simulator".into())),
    }
}


// ------------------------------------------------------------------------------------------------
// shrinking (delta debugging on the design AST against the interactive Lean model)

pub struct Model {
    child: std::process::Child,
    stdin: std::process::ChildStdin,
    stdout: std::io::BufReader<std::process::ChildStdout>,
}

impl Model {
    pub fn spawn(path: &str, domain: &str) -> Option<Model> {
        use std::process::{Command, Stdio};
        let mut child = Command::new(path).arg(domain).stdin(Stdio::piped()).stdout(Stdio::piped()).stderr(Stdio::null()).spawn().ok()?;
        let stdin = child.stdin.take()?;
        let stdout = std::io::BufReader::new(child.stdout.take()?);
        Some(Model { child, stdin, stdout })
    }
    pub fn ask(&mut self, line: &str) -> Option<String> {
        use std::io::{BufRead, Write};
        writeln!(self.stdin, "{line}").ok()?;
        self.stdin.flush().ok()?;
        let mut out = String::new();
        self.stdout.read_line(&mut out).ok()?;
        Some(out.trim_end().to_string())
    }
}

impl Drop for Model {
    fn drop(&mut self) {
        let _ = self.child.kill();
        let _ = self.child.wait();
    }
}

fn field<'a>(reply: &'a str, k: &str) -> &'a str {
    reply.split(' ').find_map(|x| x.strip_prefix(k).and_then(|y| y.strip_prefix('='))).unwrap_or("")
}

/// (sv differs, vm differs, emit differs) of one case; `None` = rejected / unsupported / dc
pub fn verdict(m: &mut Model, c: &Case) -> Option<(bool, bool, bool, String, String)> {
    let (op, imp) = run_guarded(c).ok()?;
    let rep = m.ask(&op)?;
    if rep == "bad-op" {
        return None;
    }
    let (isv, msv, mvm, mem) = (field(&imp, "sv").to_string(), field(&rep, "sv").to_string(), field(&rep, "vm").to_string(), field(&rep, "emit").to_string());
    if msv == "dc" || msv.is_empty() {
        return None;
    }
    Some((msv != isv, mvm != "dc" && mvm != isv, mem != "eq", op, format!("{imp} || {rep}")))
}

fn wrap(e: &VExpr) -> VExpr {
    match e {
        VExpr::Var(_) | VExpr::BitSel(..) | VExpr::PartSel(..) | VExpr::Lit(..) | VExpr::Dec(_) | VExpr::Paren(_) | VExpr::Cat(_) | VExpr::SysSigned(..) => e.clone(),
        _ => VExpr::Paren(Box::new(e.clone())),
    }
}

/// one-step reductions of an expression
pub fn shrinks(e: &VExpr) -> Vec<VExpr> {
    let mut out = vec![];
    let sub = |x: &VExpr, mk: &dyn Fn(VExpr) -> VExpr, out: &mut Vec<VExpr>| {
        for y in shrinks(x) {
            out.push(mk(y));
        }
    };
    match e {
        VExpr::Var(_) | VExpr::Dec(_) | VExpr::Fill(_) => {}
        VExpr::BitSel(n, _) | VExpr::PartSel(n, _, _) => out.push(VExpr::Var(n.clone())),
        VExpr::Lit(w, s, _, v) => {
            if v != "0" && v != "1" {
                out.push(VExpr::Lit(*w, *s, 'h', "1".into()));
            }
        }
        VExpr::Un(op, a) => {
            out.push((**a).clone());
            sub(a, &|y| {
                let y = if matches!(y, VExpr::Un(..)) { y } else { wrap(&y) };
                VExpr::Un(op, Box::new(if glues(op, &vexpr_text(&y)) { VExpr::Paren(Box::new(y)) } else { y }))
            }, &mut out);
        }
        VExpr::Paren(a) => {
            if matches!(**a, VExpr::Var(_) | VExpr::BitSel(..) | VExpr::PartSel(..) | VExpr::Lit(..) | VExpr::Dec(_) | VExpr::Paren(_) | VExpr::Cat(_) | VExpr::SysSigned(..)) {
                out.push((**a).clone());
            }
            if let VExpr::If(c, x, y) = &**a {
                out.push(wrap(c));
                out.push(wrap(x));
                out.push(wrap(y));
            }
            if let VExpr::Chain(f, r) = &**a {
                out.push(wrap(f));
                for (_, x) in r {
                    out.push(wrap(x));
                }
            }
            sub(a, &|y| VExpr::Paren(Box::new(y)), &mut out);
        }
        VExpr::Chain(f, r) => {
            out.push((**f).clone());
            for (_, x) in r {
                out.push(x.clone());
            }
            // drop one operator/operand pair
            for k in 0..r.len() {
                let mut r2 = r.clone();
                r2.remove(k);
                out.push(if r2.is_empty() { (**f).clone() } else { VExpr::Chain(f.clone(), r2) });
            }
            if !r.is_empty() {
                // drop the first operand
                let mut r2 = r.clone();
                let (_, nf) = r2.remove(0);
                out.push(if r2.is_empty() { nf } else { VExpr::Chain(Box::new(nf), r2) });
            }
            sub(f, &|y| VExpr::Chain(Box::new(y), r.clone()), &mut out);
            for k in 0..r.len() {
                for y in shrinks(&r[k].1) {
                    let mut r2 = r.clone();
                    r2[k].1 = y;
                    out.push(VExpr::Chain(f.clone(), r2));
                }
            }
        }
        VExpr::If(c, a, b) => {
            sub(c, &|y| VExpr::If(Box::new(y), a.clone(), b.clone()), &mut out);
            sub(a, &|y| VExpr::If(c.clone(), Box::new(y), b.clone()), &mut out);
            sub(b, &|y| VExpr::If(c.clone(), a.clone(), Box::new(y)), &mut out);
        }
        VExpr::Cat(v) => {
            for (x, _) in v {
                out.push(wrap(x));
            }
            for k in 0..v.len() {
                if v.len() > 1 {
                    let mut v2 = v.clone();
                    v2.remove(k);
                    out.push(VExpr::Cat(v2));
                }
                if v[k].1.is_some() {
                    let mut v2 = v.clone();
                    v2[k].1 = None;
                    out.push(VExpr::Cat(v2));
                }
                for y in shrinks(&v[k].0) {
                    if !has_unsized_top(&y) {
                        let mut v2 = v.clone();
                        v2[k].0 = y;
                        out.push(VExpr::Cat(v2));
                    }
                }
            }
        }
        VExpr::AsNum(n, a) => {
            out.push((**a).clone());
            sub(a, &|y| VExpr::AsNum(*n, Box::new(if matches!(y, VExpr::Un(..)) { y } else { wrap(&y) })), &mut out);
        }
        VExpr::AsInt(sg, w, a) => {
            out.push((**a).clone());
            sub(a, &|y| VExpr::AsInt(*sg, *w, Box::new(if matches!(y, VExpr::Un(..)) { y } else { wrap(&y) })), &mut out);
        }
        VExpr::SysSigned(sg, a) => {
            out.push(wrap(a));
            sub(a, &|y| VExpr::SysSigned(*sg, Box::new(y)), &mut out);
        }
    }
    out
}

/// one-step reductions of a statement list
pub fn shrink_stmts(v: &[VStmt]) -> Vec<Vec<VStmt>> {
    let mut out = vec![];
    for k in 0..v.len() {
        let mut v2 = v.to_vec();
        v2.remove(k);
        out.push(v2);
    }
    for k in 0..v.len() {
        let put = |x: Vec<VStmt>, out: &mut Vec<Vec<VStmt>>| {
            let mut v2 = v.to_vec();
            v2.splice(k..k + 1, x);
            out.push(v2);
        };
        match &v[k] {
            VStmt::Assign(l, e) => {
                if !matches!(l, sv::SvLhs::Var(_)) {
                    let n = match l {
                        sv::SvLhs::BitSel(n, _) | sv::SvLhs::PartSel(n, _, _) | sv::SvLhs::Var(n) => n.clone(),
                    };
                    put(vec![VStmt::Assign(sv::SvLhs::Var(n), e.clone())], &mut out);
                }
                for y in shrinks(e) {
                    put(vec![VStmt::Assign(l.clone(), y)], &mut out);
                }
            }
            VStmt::If(c, a, b) => {
                put(a.clone(), &mut out);
                put(b.clone(), &mut out);
                for y in shrinks(c) {
                    put(vec![VStmt::If(y, a.clone(), b.clone())], &mut out);
                }
                for y in shrink_stmts(a) {
                    put(vec![VStmt::If(c.clone(), y, b.clone())], &mut out);
                }
                for y in shrink_stmts(b) {
                    put(vec![VStmt::If(c.clone(), a.clone(), y)], &mut out);
                }
            }
            VStmt::IfReset(a, b) => {
                for y in shrink_stmts(b) {
                    put(vec![VStmt::IfReset(a.clone(), y)], &mut out);
                }
            }
            VStmt::Case(sel, arms, d) => {
                put(d.clone(), &mut out);
                for (_, b) in arms {
                    put(b.clone(), &mut out);
                }
                for j in 0..arms.len() {
                    let mut a2 = arms.clone();
                    a2.remove(j);
                    put(vec![VStmt::Case(sel.clone(), a2, d.clone())], &mut out);
                    if arms[j].0.len() > 1 {
                        for i in 0..arms[j].0.len() {
                            let mut a3 = arms.clone();
                            a3[j].0.remove(i);
                            put(vec![VStmt::Case(sel.clone(), a3, d.clone())], &mut out);
                        }
                    }
                    for y in shrink_stmts(&arms[j].1) {
                        let mut a3 = arms.clone();
                        a3[j].1 = y;
                        put(vec![VStmt::Case(sel.clone(), a3, d.clone())], &mut out);
                    }
                }
                for y in shrinks(sel) {
                    put(vec![VStmt::Case(y, arms.clone(), d.clone())], &mut out);
                }
                for y in shrink_stmts(d) {
                    put(vec![VStmt::Case(sel.clone(), arms.clone(), y)], &mut out);
                }
            }
        }
    }
    out
}

/// one-step reductions of a design
pub fn shrink_design(d: &VDesign) -> Vec<VDesign> {
    let mut out = vec![];
    for k in 0..d.items.len() {
        let mut d2 = d.clone();
        d2.items.remove(k);
        out.push(d2);
    }
    if d.outs.len() > 1 {
        for k in 0..d.outs.len() {
            let mut d2 = d.clone();
            let name = d2.outs.remove(k).name;
            d2.items.retain(|it| match it {
                VItem::Assign(l, _) => sv::lhs_text(l).split('[').next() != Some(name.as_str()),
                _ => true,
            });
            out.push(d2);
        }
    }
    let text = design_text(d);
    for k in 0..d.ins.len() {
        let n = &d.ins[k].name;
        if d.ins.len() > 1 && text.matches(n.as_str()).count() <= 1 {
            let mut d2 = d.clone();
            d2.ins.remove(k);
            out.push(d2);
        }
    }
    for k in 0..d.vars.len() {
        let n = &d.vars[k].name;
        if text.matches(n.as_str()).count() <= 1 {
            let mut d2 = d.clone();
            d2.vars.remove(k);
            out.push(d2);
        }
    }
    for k in 0..d.items.len() {
        match &d.items[k] {
            VItem::Assign(l, e) => {
                for y in shrinks(e) {
                    let mut d2 = d.clone();
                    d2.items[k] = VItem::Assign(l.clone(), y);
                    out.push(d2);
                }
            }
            VItem::Comb(v) => {
                for y in shrink_stmts(v) {
                    let mut d2 = d.clone();
                    d2.items[k] = VItem::Comb(y);
                    out.push(d2);
                }
            }
            VItem::Ff(x, v) => {
                for y in shrink_stmts(v) {
                    if !y.is_empty() {
                        let mut d2 = d.clone();
                        d2.items[k] = VItem::Ff(*x, y);
                        out.push(d2);
                    }
                }
            }
        }
    }
    // narrower signals
    for (which, k) in (0..d.ins.len()).map(|k| (0, k)).chain((0..d.outs.len()).map(|k| (1, k))).chain((0..d.vars.len()).map(|k| (2, k))) {
        let sig = match which {
            0 => &d.ins[k],
            1 => &d.outs[k],
            _ => &d.vars[k],
        };
        for w in [1u64, 4, 8, 16] {
            if w < sig.width {
                let mut d2 = d.clone();
                match which {
                    0 => d2.ins[k].width = w,
                    1 => d2.outs[k].width = w,
                    _ => d2.vars[k].width = w,
                }
                out.push(d2);
            }
        }
    }
    out
}

fn case_of(d: &VDesign, cfg: usize, stim: &[Vec<String>]) -> Case {
    // stimulus columns follow the inputs that are left; values are truncated to the port width
    Case {
        tag: "-".into(),
        cfg,
        src: design_text(d),
        vd: design_polish(d),
        order: d.order(),
        ins: d.ins.iter().map(|s| (s.name.clone(), s.width)).collect(),
        outs: d.outs.iter().map(|s| s.name.clone()).collect(),
        stim: stim.to_vec(),
    }
}

/// keeps the columns of `names` from a stimulus over `all`, truncating to the current widths
fn project(stim: &[Vec<String>], all: &[String], d: &VDesign) -> Vec<Vec<String>> {
    stim.iter()
        .map(|c| {
            d.ins
                .iter()
                .map(|s| {
                    let k = all.iter().position(|n| n == &s.name).unwrap();
                    sv::hex_trunc(&c[k], s.width)
                })
                .collect()
        })
        .collect()
}

/// greedy reduction while `keep` (a predicate on the verdict) holds
pub fn shrink(m: &mut Model, d0: &VDesign, cfg: usize, stim0: &[Vec<String>], which: usize, budget: usize) -> (VDesign, Vec<Vec<String>>, usize) {
    let all: Vec<String> = d0.ins.iter().map(|s| s.name.clone()).collect();
    let fails = |m: &mut Model, d: &VDesign, st: &[Vec<String>]| -> bool {
        let c = case_of(d, cfg, &project(st, &all, d));
        match verdict(m, &c) {
            Some((a, b, e, _, _)) => [a, b, e][which],
            None => false,
        }
    };
    let mut d = d0.clone();
    let mut stim = stim0.to_vec();
    let mut used = 0;
    // fewer cycles first
    while stim.len() > 1 && used < budget {
        let st2 = stim[..stim.len() - 1].to_vec();
        used += 1;
        if fails(m, &d, &st2) {
            stim = st2;
        } else {
            break;
        }
    }
    'outer: loop {
        for cand in shrink_design(&d) {
            if used >= budget {
                break 'outer;
            }
            used += 1;
            if fails(m, &cand, &stim) {
                d = cand;
                continue 'outer;
            }
        }
        break;
    }
    let st = project(&stim, &all, &d);
    (d, st, used)
}

pub fn main(opts: &Opts) -> i32 {
    let out = opts.out();
    let mut log = Log::new();
    panic::set_hook(Box::new(|_| {}));
    if let Some(f) = opts.get("replay") {
        let text = std::fs::read_to_string(f).unwrap_or_default();
        for line in text.lines() {
            let t: Vec<&str> = line.split_whitespace().collect();
            if t.len() != 9 || t[0] != "c" {
                log.push(line.to_string(), "bad-op".into());
                continue;
            }
            let cfg = CFGS.iter().position(|x| x.0 == t[1]);
            let src = hex_decode(t[7]);
            let (Some(cfg), Some(src)) = (cfg, src) else {
                log.push(line.to_string(), "bad-op".into());
                continue;
            };
            let order: Vec<String> = t[6].split('.').map(|s| s.to_string()).collect();
            if t[5] == "-" {
                let stim: Vec<Vec<String>> = if t[3] == "-" { vec![] } else { t[3].split('/').map(|c| c.split(':').map(|s| s.to_string()).collect()).collect() };
                match witness_case(&src, cfg, &stim, t[8]) {
                    Ok((op, imp)) => log.push(op, imp),
                    Err(e) => log.push(line.to_string(), format!("rejected:{}", e.replace(' ', "_"))),
                }
                continue;
            }
            // widths of the inputs / outputs from the design token
            let vd: Vec<&str> = t[5].split(',').collect();
            let nd: usize = vd.get(1).and_then(|x| x.parse().ok()).unwrap_or(0);
            let width_of = |id: usize| -> u64 { vd.get(2 + id).map(|d| d[..d.len() - 1].parse().unwrap_or(1)).unwrap_or(1) };
            let mut p = 2 + nd;
            let nin: usize = vd.get(p).and_then(|x| x.parse().ok()).unwrap_or(0);
            let in_ids: Vec<usize> = (0..nin).map(|k| vd[p + 1 + k].parse().unwrap_or(0)).collect();
            p += 1 + nin;
            let nout: usize = vd.get(p).and_then(|x| x.parse().ok()).unwrap_or(0);
            let out_ids: Vec<usize> = (0..nout).map(|k| vd[p + 1 + k].parse().unwrap_or(0)).collect();
            let stim: Vec<Vec<String>> = if t[3] == "-" { vec![] } else { t[3].split('/').map(|c| if c == "_" { vec![] } else { c.split(':').map(|s| s.to_string()).collect() }).collect() };
            let case = Case {
                tag: t[8].to_string(),
                cfg,
                src,
                vd: t[5].to_string(),
                order: order.clone(),
                ins: in_ids.iter().map(|i| (order[*i].clone(), width_of(*i))).collect(),
                outs: out_ids.iter().map(|i| order[*i].clone()).collect(),
                stim,
            };
            match run_guarded(&case) {
                Ok((op, imp)) => log.push(op, imp),
                Err((class, why)) => log.push(line.to_string(), format!("{class}:{}", why.replace(' ', "_"))),
            }
        }
        log.write(&out);
        return 0;
    }
    if let Some(f) = opts.get("probe") {
        // one hand-written Veryl file (module Top with clk, rst): emitted SV, simulator trace and
        // the `vmodel sv` request line
        let src = std::fs::read_to_string(f).unwrap_or_default();
        let cname = opts.get("cfg").unwrap_or("pal");
        let cfg = CFGS.iter().position(|x| x.0 == cname).unwrap_or(0);
        let (_, ct, rt) = CFGS[cfg];
        let metadata = metadata_for(ct, rt);
        let built = match build(&src, &metadata) {
            Ok(b) => b,
            Err(e) => {
                println!("rejected: {e}");
                return 1;
            }
        };
        println!("{}", built.sv_text);
        let m = match sv::parse_module(&built.sv_text) {
            Ok(m) => m,
            Err(e) => {
                println!("unsupported: {e}");
                return 1;
            }
        };
        let ins: Vec<(String, u64)> = m.decls.iter().filter(|d| d.kind == 0 && d.name != "clk" && d.name != "rst").map(|d| (d.name.clone(), d.width)).collect();
        let outs: Vec<String> = m.decls.iter().filter(|d| d.kind == 1).map(|d| d.name.clone()).collect();
        let mut order = vec!["clk".to_string(), "rst".to_string()];
        order.extend(ins.iter().map(|x| x.0.clone()));
        order.extend(outs.iter().cloned());
        order.extend(m.decls.iter().filter(|d| d.kind == 2).map(|d| d.name.clone()));
        let stim: Vec<Vec<String>> = match opts.get("stim") {
            Some(s) if s != "-" => s.split('/').map(|c| c.split(':').map(|x| x.to_string()).collect()).collect(),
            _ => vec![],
        };
        let in_names: Vec<String> = ins.iter().map(|x| x.0.clone()).collect();
        let svp = match sv::module_polish(&m, &order, &in_names, &outs) {
            Ok(x) => x,
            Err(e) => {
                println!("unsupported: {e}");
                return 1;
            }
        };
        let trace = simulate(&built.ir, rt, &ins, &outs, &stim).unwrap_or_else(|e| format!("sim-error:{e}"));
        let tb = format!(
            "0:1:{}:{}",
            opts.get("edge").unwrap_or(if matches!(ct, ClockType::PosEdge) { "p" } else { "n" }),
            opts.get("level").unwrap_or(if matches!(rt, ResetType::AsyncHigh | ResetType::SyncHigh) { "h" } else { "l" })
        );
        let st = if stim.is_empty() { "-".to_string() } else { stim.iter().map(|s| s.join(":")).collect::<Vec<_>>().join("/") };
        println!("impl: {trace}");
        std::fs::write(out.join("probe.txt"), format!("run {tb} {st} {svp}\n")).unwrap();
        return 0;
    }
    if opts.num("witness", 0) == 1 {
        for (key, ports, body, stim) in WITNESSES {
            let src = format!("module Top (\n    clk: input clock,\n    rst: input reset,\n    {},\n) {{\n    {}\n}}\n", ports.replace(", ", ",\n    "), body);
            let st: Vec<Vec<String>> = stim.split('/').map(|c| c.split(':').map(|x| x.to_string()).collect()).collect();
            match witness_case(&src, 0, &st, key) {
                Ok((op, imp)) => log.push(op, imp),
                Err(e) => log.push(format!("c pal 0:1:p:l - - - - {} {}", hex_encode(&src), key), format!("rejected:{}", e.replace(' ', "_"))),
            }
        }
        log.write(&out);
        return 0;
    }
    let mut r = Rng::new(opts.seed());
    let n = opts.num("n", 50);
    let cycles = opts.num("cycles", 16) as usize;
    let wide = opts.num("wide", 1) == 1;
    let mut reasons: BTreeMap<String, u64> = BTreeMap::new();
    let mut model = opts.get("vmodel").and_then(|p| Model::spawn(p, "emit"));
    let mut shrunk: Vec<String> = vec![];
    let which = match opts.get("shrink") {
        Some("vm") => 1,
        Some("emit") => 2,
        _ => 0,
    };
    for case_no in 0..n {
        let clean = opts.num("clean", 1) == 1;
        let level = opts.num("level", 3) as u32;
        let depth = opts.num("depth", 3) as u32;
        let warn = level >= 3 && case_no % 10 == 9;
        let d = if opts.num("tiny", 0) == 1 {
            gen_tiny(&mut r, &mut log, level, depth, clean)
        } else {
            gen_design(&mut r, &mut log, wide && level >= 3 && case_no % 4 == 3, warn, level, depth, clean)
        };
        let src = design_text(&d);
        let stim = gen_stim(&mut r, &d.ins, cycles);
        log.count("designs");
        let mut ok_any = false;
        let mut lines: Vec<(usize, String, String)> = vec![];
        let ncfg = if opts.num("tiny", 0) == 1 { 1 } else { CFGS.len() };
        for cfg in 0..ncfg {
            let case = Case {
                tag: format!("d{case_no}"),
                cfg,
                src: src.clone(),
                vd: design_polish(&d),
                order: d.order(),
                ins: d.ins.iter().map(|s| (s.name.clone(), s.width)).collect(),
                outs: d.outs.iter().map(|s| s.name.clone()).collect(),
                stim: stim.clone(),
            };
            match run_guarded(&case) {
                Ok((op, imp)) => {
                    log.count("cases");
                    log.count(&format!("cfg.{}", CFGS[cfg].0));
                    lines.push((cfg, op.clone(), imp.clone()));
                    log.push(op, imp);
                    ok_any = true;
                }
                Err((class, why)) => {
                    log.count(&class);
                    let key: String = format!("{class}: {}", why.chars().take(90).collect::<String>());
                    *reasons.entry(key).or_insert(0) += 1;
                    if class == "panic" || class == "sim-error" {
                        // keep the input: the check reports it
                        log.sample(format!("{class} cfg={} src={}", CFGS[cfg].0, src));
                    }
                    if class == "rejected" {
                        break;
                    }
                }
            }
        }
        if let Some(m) = model.as_mut() {
            // first failing configuration of this design, reduced
            for (cfg, op, imp) in &lines {
                let cfg = *cfg;
                // the model's verdict on the replies already computed
                let v = m.ask(op).and_then(|rep| {
                    if rep == "bad-op" {
                        return None;
                    }
                    let (isv, msv, mvm, mem) = (field(imp, "sv").to_string(), field(&rep, "sv").to_string(), field(&rep, "vm").to_string(), field(&rep, "emit").to_string());
                    if msv == "dc" || msv.is_empty() {
                        return None;
                    }
                    Some((msv != isv, mvm != "dc" && mvm != isv, mem != "eq"))
                });
                if let Some(v) = v {
                    if [v.0, v.1, v.2][which] {
                        let (d2, st2, used) = shrink(m, &d, cfg, &stim, which, opts.num("budget", 400) as usize);
                        let c2 = case_of(&d2, cfg, &st2);
                        let res = verdict(m, &c2).map(|v| v.4).unwrap_or_default();
                        shrunk.push(format!("### design {case_no} cfg {} ({used} candidates)\n{}stim {}\n{}\n", CFGS[cfg].0, c2.src, st2.iter().map(|s| s.join(":")).collect::<Vec<_>>().join("/"), res));
                        break;
                    }
                }
            }
        }
        if ok_any {
            log.count("designs_ok");
            if log.samples.len() < 3 {
                log.sample(src.clone());
            }
        }
    }
    let mut rs: Vec<(String, u64)> = reasons.into_iter().collect();
    rs.sort_by(|a, b| b.1.cmp(&a.1));
    let txt: String = rs.iter().map(|(k, v)| format!("{v}\t{k}\n")).collect();
    std::fs::write(out.join("reasons.txt"), txt).unwrap();
    if model.is_some() {
        std::fs::write(out.join("shrunk.txt"), shrunk.join("\n")).unwrap();
    }
    log.write(&out);
    0
}
