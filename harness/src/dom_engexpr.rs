//! Domain `engexpr` (C18, part B): single- and multi-operator expressions over three input ports
//! of widths 1..300, compiled by the real analyzer and run under EVERY `Config::all()` simulator
//! engine; the same expression with the ports replaced by sized literals is evaluated by the
//! analyzer's compile-time evaluator (`const C: logic<WO> = …`, value read from the IR).
//!
//! Request line (also the input of `vmodel exprref`, the IEEE 1800 reference):
//!   `x S<k> <wo> <w0><s|u> <w1><s|u> <w2><s|u> <v0> <v1> <v2> <expr>`
//! widths decimal, values hex, `<expr>` comma-separated Polish notation (`p<i>`, `l<w>:<s|u>:<hex>`,
//! operator names).  `impl.txt`: `i2a=…,i2b=…,j2a=…,j2b=…,i4a=…,i4b=…,j4a=…,j4b=…,cca=…,ccb=…`
//! (interpreter/JIT × 2-/4-state × ff-opt, cc backend; value in hex, `x` if any bit is X/Z,
//! `panic@file:line`, `err`), or `rejected:<why>` when the analyzer reports an error or warning.
//! `oracle.txt`: the compile-time value (same encoding).
//!
//! `--shrink FILE --vmodel PATH`: for each failing request line of FILE, delta-debug the expression
//! tree / widths / stimulus against the reference (asked interactively from `vmodel exprref`) and
//! print `key=<engine-classes>:<root-op>:<width-regime>:<signedness>:<failure-kind> witness=<line>`.
use crate::rng::Rng;
use crate::util::{Log, Opts};
use std::io::{BufRead, BufReader, Write};
use std::panic;
use std::process::{Child, ChildStdin, ChildStdout, Command, Stdio};
use std::sync::Mutex;
use veryl_analyzer::ir as air;
use veryl_analyzer::{Analyzer, Context, symbol_table};
use veryl_metadata::Metadata;
use veryl_parser::Parser;
use veryl_simulator::Simulator;
use veryl_simulator::ir::{Config, Value, build_ir};

// ───────────────────────── bit vectors as hex ─────────────────────────

fn hex_to_words(h: &str, width: usize) -> Vec<u64> {
    let n = width.div_ceil(64).max(1);
    let mut w = vec![0u64; n];
    for (i, c) in h.bytes().rev().enumerate() {
        let d = (c as char).to_digit(16).unwrap_or(0) as u64;
        if i / 16 < n {
            w[i / 16] |= d << (4 * (i % 16));
        }
    }
    mask_words(&mut w, width);
    w
}

fn mask_words(w: &mut [u64], width: usize) {
    for (i, x) in w.iter_mut().enumerate() {
        if i * 64 >= width {
            *x = 0;
        } else if width - i * 64 < 64 {
            *x &= (1u64 << (width - i * 64)) - 1;
        }
    }
}

fn words_to_hex(w: &[u64]) -> String {
    let mut s = String::new();
    for x in w.iter().rev() {
        if s.is_empty() {
            if *x != 0 {
                s = format!("{x:x}");
            }
        } else {
            s.push_str(&format!("{x:016x}"));
        }
    }
    if s.is_empty() { "0".into() } else { s }
}

fn trunc_hex(h: &str, width: usize) -> String {
    words_to_hex(&hex_to_words(h, width))
}

fn to_value(h: &str, width: usize) -> Value {
    let w = hex_to_words(h, width);
    let bytes: Vec<u8> = w.iter().flat_map(|x| x.to_le_bytes()).collect();
    Value::from_le_bytes(&bytes, &vec![0u8; bytes.len()], width, false)
}

/// `W'hXXXX` / `W'shXXXX` → canonical hex without leading zeros; `x` if any digit is X/Z.
fn canon_value(v: &Value) -> String {
    let s = format!("{v:x}");
    let digits = s.rsplit('h').next().unwrap_or("");
    if digits.chars().any(|c| matches!(c, 'x' | 'X' | 'z' | 'Z')) {
        return "x".into();
    }
    let t = digits.trim_start_matches('0').to_lowercase();
    if t.is_empty() { "0".into() } else { t }
}

// ───────────────────────── expression AST ─────────────────────────

#[derive(Clone, PartialEq, Debug)]
enum E {
    Port(usize),
    Lit(usize, bool, String),
    Un(&'static str, Box<E>),
    Bin(&'static str, Box<E>, Box<E>),
    Ite(Box<E>, Box<E>, Box<E>),
    Cat(Box<E>, Box<E>),
}

const UN: &[(&str, &str)] = &[
    ("pos", "+"), ("neg", "-"), ("not", "~"), ("lnot", "!"), ("rand", "&"), ("ror", "|"), ("rxor", "^"), ("rnand", "~&"),
    ("rnor", "~|"), ("rxnor", "~^"),
];
const BIN: &[(&str, &str)] = &[
    ("add", "+"), ("sub", "-"), ("mul", "*"), ("div", "/"), ("mod", "%"), ("and", "&"), ("or", "|"), ("xor", "^"),
    ("xnor", "~^"), ("eq", "=="), ("ne", "!="), ("lt", "<:"), ("le", "<="), ("gt", ">:"), ("ge", ">="), ("shl", "<<"),
    ("shr", ">>"), ("ashl", "<<<"), ("ashr", ">>>"), ("land", "&&"), ("lor", "||"),
];
const ARITH: &[&str] = &["add", "sub", "mul", "div", "mod", "and", "or", "xor", "xnor"];
const SHIFT: &[&str] = &["shl", "shr", "ashl", "ashr"];

#[derive(Clone, PartialEq, Debug)]
struct Case {
    stratum: String,
    wo: usize,
    ports: [(usize, bool); 3],
    vals: [String; 3],
    e: E,
}

impl E {
    fn polish(&self, out: &mut Vec<String>) {
        match self {
            E::Port(i) => out.push(format!("p{i}")),
            E::Lit(w, s, v) => out.push(format!("l{w}:{}:{v}", if *s { "s" } else { "u" })),
            E::Un(op, a) => {
                out.push(op.to_string());
                a.polish(out)
            }
            E::Bin(op, a, b) => {
                out.push(op.to_string());
                a.polish(out);
                b.polish(out)
            }
            E::Ite(c, a, b) => {
                out.push("ite".into());
                c.polish(out);
                a.polish(out);
                b.polish(out)
            }
            E::Cat(a, b) => {
                out.push("cat".into());
                a.polish(out);
                b.polish(out)
            }
        }
    }
    /// Veryl text; `lits` = replace port `i` by the sized literal of its current value.
    fn veryl(&self, c: &Case, lits: bool) -> String {
        match self {
            E::Port(i) => {
                if lits {
                    let (w, s) = c.ports[*i];
                    format!("{w}'{}h{}", if s { "s" } else { "" }, c.vals[*i])
                } else {
                    format!("i{i}")
                }
            }
            E::Lit(w, s, v) => format!("{w}'{}h{v}", if *s { "s" } else { "" }),
            E::Un(op, a) => format!("({}{})", UN.iter().find(|x| x.0 == *op).unwrap().1, a.veryl(c, lits)),
            E::Bin(op, a, b) => format!("({} {} {})", a.veryl(c, lits), BIN.iter().find(|x| x.0 == *op).unwrap().1, b.veryl(c, lits)),
            E::Ite(x, a, b) => format!("(if {} ? {} : {})", x.veryl(c, lits), a.veryl(c, lits), b.veryl(c, lits)),
            E::Cat(a, b) => format!("{{{}, {}}}", a.veryl(c, lits), b.veryl(c, lits)),
        }
    }
    fn size(&self, p: &[(usize, bool); 3]) -> usize {
        match self {
            E::Port(i) => p[*i].0,
            E::Lit(w, _, _) => *w,
            E::Un(op, a) => if ["pos", "neg", "not"].contains(op) { a.size(p) } else { 1 },
            E::Bin(op, a, b) => {
                if ARITH.contains(op) { a.size(p).max(b.size(p)) } else if SHIFT.contains(op) { a.size(p) } else { 1 }
            }
            E::Ite(_, a, b) => a.size(p).max(b.size(p)),
            E::Cat(a, b) => a.size(p) + b.size(p),
        }
    }
    fn sgn(&self, p: &[(usize, bool); 3]) -> bool {
        match self {
            E::Port(i) => p[*i].1,
            E::Lit(_, s, _) => *s,
            E::Un(op, a) => ["pos", "neg", "not"].contains(op) && a.sgn(p),
            E::Bin(op, a, b) => {
                if ARITH.contains(op) { a.sgn(p) && b.sgn(p) } else if SHIFT.contains(op) { a.sgn(p) } else { false }
            }
            E::Ite(_, a, b) => a.sgn(p) && b.sgn(p),
            E::Cat(_, _) => false,
        }
    }
    fn root(&self) -> &str {
        match self {
            E::Port(_) => "port",
            E::Lit(..) => "lit",
            E::Un(op, _) | E::Bin(op, _, _) => op,
            E::Ite(..) => "ite",
            E::Cat(..) => "cat",
        }
    }
    fn children(&self) -> Vec<&E> {
        match self {
            E::Port(_) | E::Lit(..) => vec![],
            E::Un(_, a) => vec![a],
            E::Bin(_, a, b) | E::Cat(a, b) => vec![a, b],
            E::Ite(c, a, b) => vec![c, a, b],
        }
    }
    fn nodes(&self) -> usize {
        1 + self.children().iter().map(|c| c.nodes()).sum::<usize>()
    }
    /// all subtrees in pre-order
    fn subtrees(&self, out: &mut Vec<E>) {
        out.push(self.clone());
        for c in self.children() {
            c.subtrees(out);
        }
    }
    /// replace the `k`-th node (pre-order) by `by`
    fn replace(&self, k: &mut usize, by: &E) -> E {
        if *k == 0 {
            *k = usize::MAX;
            return by.clone();
        }
        if *k != usize::MAX {
            *k -= 1;
        }
        match self {
            E::Port(_) | E::Lit(..) => self.clone(),
            E::Un(op, a) => E::Un(op, Box::new(a.replace(k, by))),
            E::Bin(op, a, b) => {
                let x = a.replace(k, by);
                E::Bin(op, Box::new(x), Box::new(b.replace(k, by)))
            }
            E::Cat(a, b) => {
                let x = a.replace(k, by);
                E::Cat(Box::new(x), Box::new(b.replace(k, by)))
            }
            E::Ite(c, a, b) => {
                let x = c.replace(k, by);
                let y = a.replace(k, by);
                E::Ite(Box::new(x), Box::new(y), Box::new(b.replace(k, by)))
            }
        }
    }
    fn uses_port(&self, i: usize) -> bool {
        match self {
            E::Port(j) => *j == i,
            _ => self.children().iter().any(|c| c.uses_port(i)),
        }
    }
    fn has_op(&self, ops: &[&str]) -> bool {
        ops.contains(&self.root()) || self.children().iter().any(|c| c.has_op(ops))
    }
}

fn parse_polish(t: &[&str], pos: &mut usize) -> Option<E> {
    let tok = *t.get(*pos)?;
    *pos += 1;
    if let Some(u) = UN.iter().find(|x| x.0 == tok) {
        return Some(E::Un(u.0, Box::new(parse_polish(t, pos)?)));
    }
    if let Some(b) = BIN.iter().find(|x| x.0 == tok) {
        let a = parse_polish(t, pos)?;
        return Some(E::Bin(b.0, Box::new(a), Box::new(parse_polish(t, pos)?)));
    }
    if tok == "cat" {
        let a = parse_polish(t, pos)?;
        return Some(E::Cat(Box::new(a), Box::new(parse_polish(t, pos)?)));
    }
    if tok == "ite" {
        let c = parse_polish(t, pos)?;
        let a = parse_polish(t, pos)?;
        return Some(E::Ite(Box::new(c), Box::new(a), Box::new(parse_polish(t, pos)?)));
    }
    if let Some(i) = tok.strip_prefix('p') {
        let i: usize = i.parse().ok()?;
        return (i < 3).then_some(E::Port(i));
    }
    if let Some(l) = tok.strip_prefix('l') {
        let f: Vec<&str> = l.split(':').collect();
        if f.len() != 3 {
            return None;
        }
        let w: usize = f[0].parse().ok()?;
        let s = match f[1] {
            "s" => true,
            "u" => false,
            _ => return None,
        };
        if w == 0 || w > 4096 || f[2].is_empty() || !f[2].bytes().all(|c| c.is_ascii_hexdigit()) || trunc_hex(f[2], w) != f[2] {
            return None;
        }
        return Some(E::Lit(w, s, f[2].to_string()));
    }
    None
}

impl Case {
    fn line(&self) -> String {
        let mut p = vec![];
        self.e.polish(&mut p);
        let pd = |i: usize| format!("{}{}", self.ports[i].0, if self.ports[i].1 { "s" } else { "u" });
        format!("x {} {} {} {} {} {} {} {} {}", self.stratum, self.wo, pd(0), pd(1), pd(2), self.vals[0], self.vals[1], self.vals[2], p.join(","))
    }
    fn parse(line: &str) -> Option<Case> {
        let t: Vec<&str> = line.split(' ').filter(|x| !x.is_empty()).collect();
        if t.len() != 10 || t[0] != "x" {
            return None;
        }
        let wo: usize = t[2].parse().ok()?;
        if wo == 0 || wo > 4096 {
            return None;
        }
        let mut ports = [(1usize, false); 3];
        let mut vals = [String::new(), String::new(), String::new()];
        for i in 0..3 {
            let d = t[3 + i];
            let (w, s) = d.split_at(d.len().checked_sub(1)?);
            let w: usize = w.parse().ok()?;
            let s = match s {
                "s" => true,
                "u" => false,
                _ => return None,
            };
            let v = t[6 + i];
            if w == 0 || w > 4096 || v.is_empty() || !v.bytes().all(|c| c.is_ascii_hexdigit()) || trunc_hex(v, w) != v {
                return None;
            }
            ports[i] = (w, s);
            vals[i] = v.to_string();
        }
        let toks: Vec<&str> = t[9].split(',').collect();
        let mut pos = 0;
        let e = parse_polish(&toks, &mut pos)?;
        if pos != toks.len() {
            return None;
        }
        Some(Case { stratum: t[1].to_string(), wo, ports, vals, e })
    }
    /// everything but the stimulus
    fn design_key(&self) -> String {
        let mut p = vec![];
        self.e.polish(&mut p);
        format!("{} {:?} {}", self.wo, self.ports, p.join(","))
    }
    fn port_source(&self) -> String {
        let mut s = String::from("module Top (\n");
        for i in 0..3 {
            s.push_str(&format!("    i{i}: input {}logic<{}>,\n", if self.ports[i].1 { "signed " } else { "" }, self.ports[i].0));
        }
        s.push_str(&format!("    o: output logic<{}>,\n) {{\n    assign o = {};\n}}\n", self.wo, self.e.veryl(self, false)));
        s
    }
    fn const_source(&self) -> String {
        format!(
            "module Top (\n    o: output logic<{w}>,\n) {{\n    const C: logic<{w}> = {};\n    assign o = C;\n}}\n",
            self.e.veryl(self, true),
            w = self.wo
        )
    }
}

// ───────────────────────── the real analyzer + engines ─────────────────────────

static LAST_PANIC: Mutex<String> = Mutex::new(String::new());
/// wall-clock milliseconds per phase (informational, goes to stats.json only)
static TIMES: Mutex<Vec<(String, u128)>> = Mutex::new(Vec::new());

fn timed<T>(what: &str, f: impl FnOnce() -> T) -> T {
    let t = std::time::Instant::now();
    let r = f();
    let dt = t.elapsed().as_micros();
    if let Ok(mut g) = TIMES.lock() {
        if let Some(e) = g.iter_mut().find(|e| e.0 == what) {
            e.1 += dt;
        } else {
            g.push((what.to_string(), dt));
        }
    }
    r
}

fn panic_loc() -> String {
    let s = LAST_PANIC.lock().map(|x| x.clone()).unwrap_or_default();
    if s.is_empty() { "panic@?".into() } else { format!("panic@{s}") }
}

fn install_hook() {
    panic::set_hook(Box::new(|info| {
        let loc = info
            .location()
            .map(|l| {
                let f = l.file();
                let f = f.strip_prefix("/repo/").unwrap_or(f);
                let f = match f.find("registry/src/") {
                    Some(i) => f[i + 13..].split_once('/').map(|x| x.1).unwrap_or(f),
                    None => f,
                };
                format!("{}:{}", f, l.line())
            })
            .unwrap_or_default();
        if let Ok(mut g) = LAST_PANIC.lock() {
            *g = loc;
        }
    }));
}

/// Analyze `code`; `Err(reason)` on parse error, analyzer error, or any warning (strata S0–S3 are
/// warning-free by definition).
fn analyze(code: &str) -> Result<air::Ir, String> {
    let r = panic::catch_unwind(panic::AssertUnwindSafe(|| {
        symbol_table::clear();
        let metadata = Metadata::create_default("prj").map_err(|_| "metadata".to_string())?;
        let parser = Parser::parse(code, &"").map_err(|_| "parse".to_string())?;
        let analyzer = Analyzer::new(&metadata);
        let mut context = Context::default();
        let mut ir = air::Ir::default();
        let mut errors = vec![];
        errors.append(&mut analyzer.analyze_pass1("prj", &parser.veryl));
        errors.append(&mut Analyzer::analyze_post_pass1());
        errors.append(&mut analyzer.analyze_pass2(&parser.veryl, &mut context, Some(&mut ir)));
        errors.append(&mut Analyzer::analyze_post_pass2(&ir));
        if let Some(e) = errors.first() {
            let name = format!("{e:?}");
            let name: String = name.chars().take_while(|c| c.is_alphanumeric() || *c == '_').collect();
            return Err(format!("{}:{name}", if errors.iter().any(|e| e.is_error()) { "error" } else { "warning" }));
        }
        Ok(ir)
    }));
    match r {
        Ok(x) => x,
        Err(_) => Err(format!("analyzer-{}", panic_loc())),
    }
}

fn cfg_label(c: &Config) -> String {
    let class = if c.aot_c {
        "cc"
    } else {
        match (c.use_4state, c.use_jit) {
            (false, false) => "i2",
            (false, true) => "j2",
            (true, false) => "i4",
            (true, true) => "j4",
        }
    };
    format!("{class}{}", if c.disable_ff_opt { "b" } else { "a" })
}

fn class_of(label: &str) -> &str {
    &label[..2]
}

enum Eng {
    Live(Box<Simulator>),
    /// the build failed (deterministic per design)
    Dead(String),
    /// a stimulus made the engine panic: rebuild before the next stimulus, so that every request
    /// line is reproducible on its own
    Stale,
}

struct Design {
    ir: air::Ir,
    engines: Vec<(Config, String, Eng)>,
}

/// `Config::all()` probes the C compiler by spawning it: ask once.
fn all_configs() -> Vec<Config> {
    static ALL: std::sync::OnceLock<Vec<Config>> = std::sync::OnceLock::new();
    ALL.get_or_init(Config::all).clone()
}

fn build_engine(ir: &air::Ir, cfg: &Config, label: &str) -> Eng {
    let r = timed(&format!("build.{}", class_of(label)), || {
        panic::catch_unwind(panic::AssertUnwindSafe(|| match build_ir(ir, "Top".into(), cfg) {
            Ok(sir) => Eng::Live(Box::new(Simulator::new(sir, None))),
            Err(_) => Eng::Dead("err".into()),
        }))
    });
    r.unwrap_or_else(|_| Eng::Dead(panic_loc()))
}

/// Build the port design under the selected configurations.
fn build_design(c: &Case, only: Option<&[String]>) -> Result<Design, String> {
    let ir = timed("analyze", || analyze(&c.port_source()))?;
    let mut engines = vec![];
    for cfg in all_configs() {
        let label = cfg_label(&cfg);
        if let Some(o) = only
            && !o.iter().any(|x| *x == label)
        {
            continue;
        }
        let e = build_engine(&ir, &cfg, &label);
        engines.push((cfg, label, e));
    }
    Ok(Design { ir, engines })
}

fn run_design(d: &mut Design, c: &Case) -> Vec<(String, String)> {
    let mut out = vec![];
    for (cfg, label, eng) in d.engines.iter_mut() {
        if matches!(eng, Eng::Stale) {
            *eng = build_engine(&d.ir, cfg, label);
        }
        let res = match eng {
            Eng::Stale => "err".into(),
            Eng::Dead(why) => why.clone(),
            Eng::Live(sim) => {
                let r = timed(&format!("run.{}", class_of(label)), || panic::catch_unwind(panic::AssertUnwindSafe(|| {
                    for i in 0..3 {
                        sim.set(&format!("i{i}"), to_value(&c.vals[i], c.ports[i].0));
                    }
                    match sim.get("o") {
                        Some(v) => canon_value(&v),
                        None => "err".into(),
                    }
                })));
                match r {
                    Ok(s) => s,
                    Err(_) => {
                        *eng = Eng::Stale;
                        panic_loc()
                    }
                }
            }
        };
        out.push((label.clone(), res));
    }
    out
}

/// The analyzer's compile-time value of the expression with literal operands.
fn comptime(c: &Case) -> String {
    let ir = match analyze(&c.const_source()) {
        Ok(ir) => ir,
        Err(e) => return if e.starts_with("analyzer-panic@") { e["analyzer-".len()..].to_string() } else { format!("rejected:{e}") },
    };
    for comp in &ir.components {
        if let air::Component::Module(m) = comp {
            for v in m.variables.values() {
                if v.path.to_string() == "C" {
                    return match v.value.first() {
                        Some(x) => {
                            let mut x = x.clone();
                            if x.width() > c.wo {
                                x.trunc(c.wo);
                            }
                            canon_value(&x)
                        }
                        None => "err".into(),
                    };
                }
            }
        }
    }
    "err".into()
}

fn show_engines(r: &[(String, String)]) -> String {
    r.iter().map(|(l, v)| format!("{l}={v}")).collect::<Vec<_>>().join(",")
}

// ───────────────────────── generator ─────────────────────────

const W_SMALL: &[usize] = &[1, 1, 2, 3, 7, 8, 8, 16, 31, 32, 33, 63, 64, 64];
const W_WIDE: &[usize] = &[65, 65, 100, 127, 128, 129, 129, 200, 256, 257, 300];

struct Gen<'a> {
    r: &'a mut Rng,
    ports: [(usize, bool); 3],
    level: u32,
}

impl Gen<'_> {
    fn lit(&mut self, one_bit: bool) -> E {
        let w = if one_bit {
            1
        } else if self.level >= 3 && self.r.chance(1, 4) {
            *self.r.pick(&[70usize, 128, 129])
        } else {
            *self.r.pick(&[1usize, 4, 8, 32, 64])
        };
        let signed = self.level >= 1 && !one_bit && self.r.chance(1, 3);
        E::Lit(w, signed, rand_value(self.r, w))
    }
    fn leaf(&mut self) -> E {
        if self.r.chance(1, 5) { self.lit(false) } else { E::Port(self.r.below(3) as usize) }
    }
    /// a 1-bit expression (operand of `!`, `&&`, `||`, ternary condition)
    fn bit(&mut self, depth: u32) -> E {
        if depth == 0 {
            let ones: Vec<usize> = (0..3).filter(|i| self.ports[*i].0 == 1 && !self.ports[*i].1).collect();
            if !ones.is_empty() && self.r.chance(1, 2) {
                return E::Port(*self.r.pick(&ones));
            }
            let op = *self.r.pick(&["rand", "ror", "rxor", "rnand", "rnor", "rxnor"]);
            return E::Un(op, Box::new(self.leaf()));
        }
        match self.r.below(10) {
            0..=3 => {
                let op = *self.r.pick(&["eq", "ne", "lt", "le", "gt", "ge"]);
                E::Bin(op, Box::new(self.any(depth - 1)), Box::new(self.any(depth - 1)))
            }
            4..=6 => {
                let op = *self.r.pick(&["rand", "ror", "rxor", "rnand", "rnor", "rxnor"]);
                E::Un(op, Box::new(self.any(depth - 1)))
            }
            7 => E::Un("lnot", Box::new(self.bit(depth - 1))),
            _ => {
                let op = *self.r.pick(&["land", "lor"]);
                E::Bin(op, Box::new(self.bit(depth - 1)), Box::new(self.bit(depth - 1)))
            }
        }
    }
    fn any(&mut self, depth: u32) -> E {
        if depth == 0 || self.r.chance(1, 5) {
            return self.leaf();
        }
        match self.r.below(20) {
            0..=2 => {
                let op = *self.r.pick(&["not", "neg", "not", "neg", "pos"]);
                E::Un(op, Box::new(self.any(depth - 1)))
            }
            3..=4 => self.bit(depth),
            5..=6 => E::Ite(Box::new(self.bit(depth - 1)), Box::new(self.any(depth - 1)), Box::new(self.any(depth - 1))),
            7..=8 => E::Cat(Box::new(self.any(depth - 1)), Box::new(self.any(depth - 1))),
            9..=11 => {
                let a = self.any(depth - 1);
                let amount = match self.r.below(4) {
                    0 => E::Lit(8, false, format!("{:x}", self.r.below(70))),
                    1 => E::Lit(4, false, format!("{:x}", self.r.below(16))),
                    _ => self.any(depth - 1),
                };
                let signed = a.sgn(&self.ports);
                let op = if signed && self.r.chance(1, 2) { *self.r.pick(&["ashr", "ashr", "ashl"]) } else { *self.r.pick(&["shl", "shr"]) };
                E::Bin(op, Box::new(a), Box::new(amount))
            }
            _ => {
                let mut ops = vec!["add", "sub", "mul", "and", "or", "xor", "xnor", "add", "sub"];
                if self.level >= 2 {
                    ops.extend_from_slice(&["div", "mod", "div", "mod"]);
                }
                let op = *self.r.pick(&ops);
                E::Bin(op, Box::new(self.any(depth - 1)), Box::new(self.any(depth - 1)))
            }
        }
    }
}

fn rand_value(r: &mut Rng, w: usize) -> String {
    let n = w.div_ceil(64);
    let mut v = vec![0u64; n];
    match r.below(10) {
        0 => {}
        1 => v[0] = 1,
        2 => v.iter_mut().for_each(|x| *x = u64::MAX),
        3 => v[(w - 1) / 64] = 1u64 << ((w - 1) % 64),
        4 => {
            v.iter_mut().for_each(|x| *x = u64::MAX);
            v[(w - 1) / 64] &= !(1u64 << ((w - 1) % 64));
        }
        5 => v.iter_mut().for_each(|x| *x = 0xAAAA_AAAA_AAAA_AAAA),
        6 => v[0] = r.below(16),
        _ => v.iter_mut().for_each(|x| *x = r.next()),
    }
    mask_words(&mut v, w);
    words_to_hex(&v)
}

fn gen_design(r: &mut Rng, level: u32) -> Case {
    let mut ports = [(1usize, false); 3];
    for p in ports.iter_mut() {
        let w = if level >= 3 && r.chance(2, 5) { *r.pick(W_WIDE) } else { *r.pick(W_SMALL) };
        *p = (w, level >= 1 && r.chance(1, 3));
    }
    if level >= 1 && !ports.iter().any(|p| p.1) {
        ports[r.below(3) as usize].1 = true;
    }
    let mut wo = if level >= 3 && r.chance(2, 5) { *r.pick(W_WIDE) } else { *r.pick(W_SMALL) };
    if level >= 3 && wo <= 64 && ports.iter().all(|p| p.0 <= 64) {
        if r.chance(1, 2) { wo = *r.pick(W_WIDE) } else { ports[r.below(3) as usize].0 = *r.pick(W_WIDE) }
    }
    let depth = *r.pick(&[1u32, 2, 2, 3, 3]);
    let mut e = Gen { r, ports, level }.any(depth);
    if level < 3 {
        // strata S0–S2 are "≤ 64 bit" throughout: no intermediate result (concatenation) is wider
        for _ in 0..50 {
            let mut subs = vec![];
            e.subtrees(&mut subs);
            if subs.iter().all(|s| s.size(&ports) <= 64) {
                break;
            }
            e = Gen { r, ports, level }.any(depth);
        }
        let mut subs = vec![];
        e.subtrees(&mut subs);
        if subs.iter().any(|s| s.size(&ports) > 64) {
            e = E::Bin("add", Box::new(E::Port(0)), Box::new(E::Port(1)));
        }
    }
    let e = if matches!(e, E::Port(_) | E::Lit(..)) { E::Un("not", Box::new(e)) } else { e };
    Case { stratum: format!("S{level}"), wo, ports, vals: [String::from("0"), String::from("0"), String::from("0")], e }
}

fn gen_stimulus(r: &mut Rng, c: &Case) -> [String; 3] {
    [rand_value(r, c.ports[0].0), rand_value(r, c.ports[1].0), rand_value(r, c.ports[2].0)]
}

// ───────────────────────── run lines ─────────────────────────

/// What one (in-process) evaluation of a design group yields: per request line the engines' reply
/// and the compile-time value.  `only`: `None` = everything; `Some("ct")` = compile-time value only;
/// `Some(class)` = the engines of that class only.
fn eval_group_here(group: &[Case], only: Option<&str>) -> Vec<(String, String)> {
    // compile-time evaluation first (the analyzer's tables are global state)
    let ct: Vec<String> = if only.is_none() || only == Some("ct") {
        timed("comptime", || group.iter().map(comptime).collect())
    } else {
        group.iter().map(|_| "?".to_string()).collect()
    };
    if only == Some("ct") {
        return ct.into_iter().map(|c| (String::new(), c)).collect();
    }
    let labels: Option<Vec<String>> = only.map(|c| vec![format!("{c}a"), format!("{c}b")]);
    match build_design(&group[0], labels.as_deref()) {
        Err(why) => group.iter().enumerate().map(|(k, _)| (format!("rejected:{why}"), ct[k].clone())).collect(),
        Ok(mut d) => group.iter().enumerate().map(|(k, c)| (show_engines(&run_design(&mut d, c)), ct[k].clone())).collect(),
    }
}

/// `hx engexpr --worker 1 [--only X]`: groups of request lines (one design each) on stdin, each
/// terminated by `--`; per line one reply `<engines>\t<compile-time value>`, then `.`.
fn worker_main(only: Option<&str>) -> i32 {
    let stdin = std::io::stdin();
    let mut out = std::io::stdout();
    let mut group: Vec<Case> = vec![];
    for line in stdin.lock().lines() {
        let Ok(line) = line else { break };
        if line == "--" {
            if !group.is_empty() {
                for (i, c) in eval_group_here(&group, only) {
                    writeln!(out, "{i}\t{c}").unwrap();
                }
            }
            writeln!(out, ".").unwrap();
            out.flush().unwrap();
            group.clear();
        } else if let Some(c) = Case::parse(&line) {
            group.push(c);
        }
    }
    0
}

/// A child `hx engexpr --worker`: an engine that corrupts memory or aborts kills the worker, not
/// the harness.
struct Worker {
    child: Child,
    stdin: Option<ChildStdin>,
    stdout: BufReader<ChildStdout>,
}

impl Worker {
    fn spawn(only: &str) -> Worker {
        let exe = std::env::current_exe().expect("current_exe");
        let mut cmd = Command::new(exe);
        cmd.arg("engexpr").arg("--worker").arg("1");
        if !only.is_empty() {
            cmd.arg("--only").arg(only);
        }
        let mut child = cmd.stdin(Stdio::piped()).stdout(Stdio::piped()).stderr(Stdio::null()).spawn().expect("spawn worker");
        let stdin = child.stdin.take();
        let stdout = BufReader::new(child.stdout.take().unwrap());
        Worker { child, stdin, stdout }
    }
    fn ask(&mut self, lines: &[String]) -> Option<Vec<(String, String)>> {
        let si = self.stdin.as_mut()?;
        for l in lines {
            writeln!(si, "{l}").ok()?;
        }
        writeln!(si, "--").ok()?;
        si.flush().ok()?;
        let mut res = vec![];
        loop {
            let mut s = String::new();
            if self.stdout.read_line(&mut s).ok()? == 0 {
                return None; // the worker died
            }
            let s = s.trim_end_matches('\n');
            if s == "." {
                break;
            }
            let (i, c) = s.split_once('\t')?;
            res.push((i.to_string(), c.to_string()));
        }
        (res.len() == lines.len()).then_some(res)
    }
}

impl Drop for Worker {
    fn drop(&mut self) {
        self.stdin = None;
        let _ = self.child.kill();
        let _ = self.child.wait();
    }
}

#[derive(Default)]
struct Pool {
    workers: std::collections::HashMap<String, Worker>,
    deaths: u64,
    unattributed: u64,
}

const ENGINE_CLASSES: &[&str] = &["i2", "j2", "i4", "j4", "cc"];

impl Pool {
    /// `only` = "" (everything), "ct", or an engine class. `None`: the worker died on this group.
    fn ask(&mut self, only: &str, lines: &[String]) -> Option<Vec<(String, String)>> {
        let w = self.workers.entry(only.to_string()).or_insert_with(|| Worker::spawn(only));
        let r = w.ask(lines);
        if r.is_none() {
            self.workers.remove(only);
            self.deaths += 1;
        }
        r
    }
    /// Evaluate one design group; if the worker dies, re-run class by class in fresh workers and
    /// report `abort` for the classes that kill theirs.
    fn eval(&mut self, lines: &[String]) -> Vec<(String, String)> {
        if let Some(r) = self.ask("", lines) {
            return r;
        }
        let ct = self.ask("ct", lines);
        let per: Vec<(&str, Option<Vec<(String, String)>>)> = ENGINE_CLASSES.iter().map(|c| (*c, self.ask(c, lines))).collect();
        if ct.is_some() && per.iter().all(|p| p.1.is_some()) {
            // innocent class by class: a delayed effect of an earlier design, or an interaction
            self.unattributed += 1;
            if let Some(r) = self.ask("", lines) {
                return r;
            }
            // dies again, but only with all engines in one process (heap damage that no single class
            // trips over on its own): report it against the pseudo-class `al`
            let ct = ct.unwrap();
            return (0..lines.len()).map(|k| ("al=abort".to_string(), ct[k].1.clone())).collect();
        }
        (0..lines.len())
            .map(|k| {
                let oracle = match &ct {
                    Some(r) => r[k].1.clone(),
                    None => "abort".to_string(),
                };
                let mut parts = vec![];
                let mut rejected = None;
                for (c, r) in &per {
                    match r {
                        Some(r) if r[k].0.starts_with("rejected") => rejected = Some(r[k].0.clone()),
                        Some(r) => parts.push(r[k].0.clone()),
                        None => parts.push(format!("{c}a=abort,{c}b=abort")),
                    }
                }
                (rejected.unwrap_or_else(|| parts.join(",")), oracle)
            })
            .collect()
    }
}

fn run_lines(lines: &[String], log: &mut Log) {
    let mut pool = Pool::default();
    let mut i = 0;
    while i < lines.len() {
        let Some(c0) = Case::parse(&lines[i]) else {
            log.push3(lines[i].clone(), "bad-op".into(), "?".into());
            i += 1;
            continue;
        };
        let key = c0.design_key();
        let mut group = vec![c0];
        let mut j = i + 1;
        while j < lines.len() {
            match Case::parse(&lines[j]) {
                Some(c) if c.design_key() == key => group.push(c),
                _ => break,
            }
            j += 1;
        }
        let glines: Vec<String> = group.iter().map(|c| c.line()).collect();
        let res = pool.eval(&glines);
        if res[0].0.starts_with("rejected") {
            log.count(&format!("rejected.{}", group[0].stratum));
            log.count(&format!("rejected-why.{}", res[0].0["rejected:".len()..].split('@').next().unwrap_or("")));
        } else {
            log.count(&format!("accepted.{}", group[0].stratum));
            let mut ops = vec![];
            group[0].e.subtrees(&mut ops);
            for s in &ops {
                log.count(&format!("op.{}", s.root()));
            }
            log.count(&format!("depth-nodes.{}", match group[0].e.nodes() { 0..=2 => "1-2", 3..=5 => "3-5", 6..=10 => "6-10", _ => ">10" }));
            log.count(&format!("ctxwidth.{}", regime(group[0].e.size(&group[0].ports).max(group[0].wo))));
        }
        for (l, (imp, ct)) in glines.iter().zip(res) {
            if log.samples.len() < 4 && l.len() < 150 && !imp.starts_with("rejected") {
                log.sample(format!("{l} => {}", imp.split(',').next().unwrap_or("")));
            }
            log.push3(l.clone(), imp, ct);
        }
        i = j;
    }
    log.add("worker-deaths", pool.deaths);
    log.add("worker-deaths-unattributed", pool.unattributed);
}

fn regime(w: usize) -> &'static str {
    if w <= 64 { "le64" } else if w <= 128 { "65to128" } else { "gt128" }
}

// ───────────────────────── shrinking + signature ─────────────────────────

struct Model {
    _child: Child,
    stdin: ChildStdin,
    stdout: BufReader<ChildStdout>,
}

impl Model {
    fn spawn(path: &str) -> Model {
        let mut child = Command::new(path).arg("exprref").stdin(Stdio::piped()).stdout(Stdio::piped()).spawn().expect("spawn vmodel");
        let stdin = child.stdin.take().unwrap();
        let stdout = BufReader::new(child.stdout.take().unwrap());
        Model { _child: child, stdin, stdout }
    }
    fn ask(&mut self, line: &str) -> String {
        writeln!(self.stdin, "{line}").unwrap();
        self.stdin.flush().unwrap();
        let mut s = String::new();
        self.stdout.read_line(&mut s).unwrap();
        s.trim().to_string()
    }
}

fn kind_of(v: &str) -> String {
    if v.starts_with("panic@") || v == "err" || v == "abort" { v.to_string() } else { "value".to_string() }
}

/// Failing (class, kind) pairs of one case against the reference. `only`: "" = every engine and
/// the compile-time value, "ct", "an", or one engine class. `None` = not a usable case (rejected /
/// reference don't-care).
/// What was observed on one case: the reference value, the compile-time value, every engine's
/// value, and the failing (class, kind) pairs.
#[derive(Default, Clone)]
struct Obs {
    reference: String,
    ct: String,
    eng: Vec<(String, String)>,
    fails: Vec<(String, String)>,
}

impl Obs {
    /// the (common) value of one engine class, if it deviates with a plain value
    fn value_of(&self, class: &str) -> Option<String> {
        if class == "ct" {
            return (self.ct != "?" && kind_of(&self.ct) == "value").then(|| self.ct.clone());
        }
        self.eng.iter().find(|(l, v)| class_of(l) == class && kind_of(v) == "value").map(|x| x.1.clone())
    }
    fn classes(&self) -> Vec<String> {
        let mut v: Vec<String> = self.fails.iter().map(|x| x.0.clone()).collect();
        v.sort();
        v.dedup();
        v
    }
}

fn failures(c: &Case, m: &mut Model, pool: &mut Pool, only: &str) -> Option<Vec<(String, String)>> {
    observe(c, m, pool, only).map(|o| o.fails)
}

fn observe(c: &Case, m: &mut Model, pool: &mut Pool, only: &str) -> Option<Obs> {
    let reference = m.ask(&c.line());
    if reference == "div0" || reference == "bad-op" {
        return None;
    }
    let lines = vec![c.line()];
    let (imp, ct) = match only {
        "" => pool.eval(&lines).pop()?,
        "an" => match pool.ask("i2", &lines) {
            Some(mut r) => r.pop()?,
            None => return None,
        },
        "ct" => match pool.ask("ct", &lines) {
            Some(mut r) => r.pop()?,
            None => (String::new(), "abort".to_string()),
        },
        "al" => match pool.ask("", &lines) {
            Some(mut r) => (r.pop()?.0, "?".to_string()),
            None => ("al=abort".to_string(), "?".to_string()),
        },
        cl => match pool.ask(cl, &lines) {
            Some(mut r) => r.pop()?,
            None => (format!("{cl}a=abort"), "?".to_string()),
        },
    };
    let mut o = Obs { reference: reference.clone(), ct: ct.clone(), ..Default::default() };
    if ct != "?" {
        if ct.starts_with("rejected") {
            return None;
        }
        if ct != reference {
            o.fails.push(("ct".to_string(), kind_of(&ct)));
        }
    }
    if let Some(why) = imp.strip_prefix("rejected:") {
        // the analyzer itself panics on the design: no engine can be built
        if let Some(loc) = why.strip_prefix("analyzer-") && loc.starts_with("panic@") {
            o.fails.push(("an".to_string(), loc.to_string()));
            return Some(o);
        }
        return None;
    }
    if only == "an" {
        return Some(o);
    }
    for lv in imp.split(',').filter(|x| !x.is_empty()) {
        let (label, v) = lv.split_once('=')?;
        o.eng.push((label.to_string(), v.to_string()));
        if v != reference {
            let p = (class_of(label).to_string(), kind_of(v));
            if !o.fails.contains(&p) {
                o.fails.push(p);
            }
        }
    }
    Some(o)
}

const BOUNDARY: &[usize] = &[1, 2, 8, 32, 64, 65, 128, 129, 256];

fn candidates(c: &Case) -> Vec<Case> {
    let mut out = vec![];
    let mut subs = vec![];
    c.e.subtrees(&mut subs);
    // (a) promote a subtree to the root (smallest first)
    let mut order: Vec<usize> = (1..subs.len()).collect();
    order.sort_by_key(|i| subs[*i].nodes());
    let ctx = c.e.size(&c.ports).max(c.wo);
    for i in order {
        out.push(Case { e: subs[i].clone(), ..c.clone() });
        if ctx > c.wo {
            // keep the context width the subtree was evaluated in
            out.push(Case { e: subs[i].clone(), wo: ctx, ..c.clone() });
        }
    }
    // (b) replace a non-leaf subtree by a leaf
    for (k, s) in subs.iter().enumerate() {
        if k == 0 || matches!(s, E::Port(_) | E::Lit(..)) {
            continue;
        }
        let mut leaves = vec![E::Port(0), E::Port(1), E::Port(2)];
        let w = s.size(&c.ports);
        leaves.push(E::Lit(w, false, "0".into()));
        leaves.push(E::Lit(w, false, "1".into()));
        for l in leaves {
            let mut kk = k;
            out.push(Case { e: c.e.replace(&mut kk, &l), ..c.clone() });
        }
    }
    // (c) simplify literals
    for (k, s) in subs.iter().enumerate() {
        if let E::Lit(w, sg, v) = s {
            let mut alts = vec![];
            for v2 in ["0", "1"] {
                if v != v2 {
                    alts.push(E::Lit(*w, *sg, v2.into()));
                }
            }
            if *sg {
                alts.push(E::Lit(*w, false, v.clone()));
            }
            for b in BOUNDARY.iter().filter(|b| **b < *w) {
                alts.push(E::Lit(*b, *sg, trunc_hex(v, *b)));
            }
            alts.push(E::Port(0));
            for a in alts {
                let mut kk = k;
                out.push(Case { e: c.e.replace(&mut kk, &a), ..c.clone() });
            }
        }
    }
    // (d) unused ports → canonical 1-bit unsigned 0; used ports: smaller boundary widths, unsigned
    for i in 0..3 {
        if !c.e.uses_port(i) {
            if c.ports[i] != (1, false) || c.vals[i] != "0" {
                let mut n = c.clone();
                n.ports[i] = (1, false);
                n.vals[i] = "0".into();
                out.push(n);
            }
            continue;
        }
        for b in BOUNDARY.iter().filter(|b| **b < c.ports[i].0) {
            let mut n = c.clone();
            n.ports[i].0 = *b;
            n.vals[i] = trunc_hex(&c.vals[i], *b);
            out.push(n);
        }
        if c.ports[i].1 {
            let mut n = c.clone();
            n.ports[i].1 = false;
            out.push(n);
        }
        for v in ["0", "1"] {
            if c.vals[i] != v {
                let mut n = c.clone();
                n.vals[i] = v.into();
                out.push(n);
            }
        }
        let ones = words_to_hex(&hex_to_words(&"f".repeat(c.ports[i].0.div_ceil(4)), c.ports[i].0));
        if c.vals[i] != ones {
            let mut n = c.clone();
            n.vals[i] = ones;
            out.push(n);
        }
    }
    // (e) output width to a smaller boundary
    for b in BOUNDARY.iter().filter(|b| **b < c.wo) {
        out.push(Case { wo: *b, ..c.clone() });
    }
    out
}

fn cost(c: &Case) -> (usize, usize, usize, usize, usize) {
    let w: usize = (0..3).filter(|i| c.e.uses_port(*i)).map(|i| c.ports[i].0).sum::<usize>() + c.wo;
    let s = c.ports.iter().filter(|p| p.1).count();
    let v: usize = c.vals.iter().map(|v| v.len() + if v == "0" { 0 } else { 1 }).sum();
    let junk: usize = (0..3).filter(|i| !c.e.uses_port(*i)).map(|i| c.ports[i].0).sum();
    (c.e.nodes(), w, s, v, junk)
}

/// Greedy shrink preserving "class `target` fails with kind `kind`".
fn shrink(c: &Case, target: &(String, String), m: &mut Model, pool: &mut Pool, budget: &mut usize) -> Case {
    let mut cur = c.clone();
    loop {
        let mut improved = false;
        for cand in candidates(&cur) {
            if *budget == 0 {
                return cur;
            }
            if cost(&cand) >= cost(&cur) {
                continue;
            }
            *budget -= 1;
            if let Some(f) = failures(&cand, m, pool, &target.0)
                && f.contains(target)
            {
                cur = cand;
                improved = true;
                break;
            }
        }
        if !improved {
            return cur;
        }
    }
}

fn signature(c: &Case, f: &[(String, String)], target: &(String, String)) -> String {
    let mut classes: Vec<&str> = f.iter().filter(|x| x.1 == target.1).map(|x| x.0.as_str()).collect();
    classes.sort();
    classes.dedup();
    let opw = c.e.children().iter().map(|x| x.size(&c.ports)).max().unwrap_or(c.e.size(&c.ports));
    let ctx = c.e.size(&c.ports).max(c.wo);
    let mut leaves = vec![];
    c.e.subtrees(&mut leaves);
    let signs: Vec<bool> = leaves
        .iter()
        .filter_map(|l| match l {
            E::Port(i) => Some(c.ports[*i].1),
            E::Lit(_, s, _) => Some(*s),
            _ => None,
        })
        .collect();
    let sg = if signs.iter().all(|s| *s) { "s" } else if signs.iter().any(|s| *s) { "m" } else { "u" };
    format!("{}:{}:op-{},ctx-{}:{}:{}", classes.join("+"), c.e.root(), regime(opw), regime(ctx), sg, target.1)
}


// ───────────────────────── defect classes (verified predicates) ─────────────────────────

/// (width, signed) context of every node, in pre-order — the propagation rules of IEEE 1800
/// §11.6/§11.8 (the same as `eval` of Core/ExprRef.lean).
fn contexts(c: &Case) -> Vec<(usize, bool)> {
    fn go(e: &E, w: usize, s: bool, p: &[(usize, bool); 3], out: &mut Vec<(usize, bool)>) {
        out.push((w, s));
        match e {
            E::Port(_) | E::Lit(..) => {}
            E::Un(op, a) => {
                if ["pos", "neg", "not"].contains(op) { go(a, w, s, p, out) } else { go(a, a.size(p), a.sgn(p), p, out) }
            }
            E::Bin(op, a, b) => {
                if ARITH.contains(op) {
                    go(a, w, s, p, out);
                    go(b, w, s, p, out);
                } else if SHIFT.contains(op) {
                    go(a, w, s, p, out);
                    go(b, b.size(p), b.sgn(p), p, out);
                } else if ["eq", "ne", "lt", "le", "gt", "ge"].contains(op) {
                    let (cw, cs) = (a.size(p).max(b.size(p)), a.sgn(p) && b.sgn(p));
                    go(a, cw, cs, p, out);
                    go(b, cw, cs, p, out);
                } else {
                    go(a, a.size(p), a.sgn(p), p, out);
                    go(b, b.size(p), b.sgn(p), p, out);
                }
            }
            E::Ite(x, a, b) => {
                go(x, x.size(p), x.sgn(p), p, out);
                go(a, w, s, p, out);
                go(b, w, s, p, out);
            }
            E::Cat(a, b) => {
                go(a, a.size(p), a.sgn(p), p, out);
                go(b, b.size(p), b.sgn(p), p, out);
            }
        }
    }
    let mut out = vec![];
    go(&c.e, c.e.size(&c.ports).max(c.wo), c.e.sgn(&c.ports), &c.ports, &mut out);
    out
}

fn port_free(e: &E) -> bool {
    !(0..3).any(|i| e.uses_port(i))
}

fn is_leaf(e: &E) -> bool {
    matches!(e, E::Port(_) | E::Lit(..))
}

/// reference value of `assign o<wo> = e` (None: don't-care / not evaluable)
fn ref_val(m: &mut Model, c: &Case, e: &E, wo: usize) -> Option<String> {
    if wo == 0 || wo > 4096 {
        return None;
    }
    let r = m.ask(&Case { e: e.clone(), wo, ..c.clone() }.line());
    (r != "div0" && r != "bad-op").then_some(r)
}

/// value of `e` in an UNSIGNED context of `w` bits (`e | w'h0`)
fn ref_unsigned_ctx(m: &mut Model, c: &Case, e: &E, w: usize) -> Option<String> {
    if e.size(&c.ports) > w {
        return None;
    }
    ref_val(m, c, &E::Bin("or", Box::new(e.clone()), Box::new(E::Lit(w, false, "0".into()))), w)
}

fn extend_hex(v: &str, from: usize, to: usize, signed: bool) -> String {
    let mut w = hex_to_words(v, from);
    w.resize(to.div_ceil(64).max(1), 0);
    if signed && from > 0 && (w[(from - 1) / 64] >> ((from - 1) % 64)) & 1 == 1 {
        for bit in from..to {
            w[bit / 64] |= 1u64 << (bit % 64);
        }
    }
    mask_words(&mut w, to);
    words_to_hex(&w)
}

fn max_width(c: &Case) -> usize {
    let mut subs = vec![];
    c.e.subtrees(&mut subs);
    subs.iter().map(|s| s.size(&c.ports)).max().unwrap_or(1).max(c.wo)
}

fn has_signed_leaf(c: &Case) -> bool {
    let mut subs = vec![];
    c.e.subtrees(&mut subs);
    subs.iter().any(|l| match l {
        E::Port(i) => c.ports[*i].1,
        E::Lit(_, s, _) => *s,
        _ => false,
    })
}

/// `cc`: a constant-only operand (operators applied to literals only) is evaluated at its own
/// width and type instead of the context's.  Verified: folding that subtree self-determined and
/// re-evaluating the REFERENCE reproduces cc's value.
fn k_cc_const(c: &Case, o: &Obs, m: &mut Model) -> bool {
    let Some(ccv) = o.value_of("cc") else { return false };
    let mut subs = vec![];
    c.e.subtrees(&mut subs);
    for (k, t) in subs.iter().enumerate() {
        if is_leaf(t) || !port_free(t) {
            continue;
        }
        let (tw, ts) = (t.size(&c.ports), t.sgn(&c.ports));
        let Some(v) = ref_val(m, c, t, tw) else { continue };
        let mut kk = k;
        let e2 = c.e.replace(&mut kk, &E::Lit(tw, ts, v));
        if ref_val(m, c, &e2, c.wo).as_deref() == Some(ccv.as_str()) {
            return true;
        }
    }
    false
}

/// `cc`: a 64-bit intermediate with its top bit set is shifted right / compared / divided as a
/// SIGNED C integer.  Verified: replacing the node by its signed-arithmetic result reproduces cc's value.
fn k_cc_msb64(c: &Case, o: &Obs, m: &mut Model) -> bool {
    let Some(ccv) = o.value_of("cc") else { return false };
    let ctxs = contexts(c);
    let mut subs = vec![];
    c.e.subtrees(&mut subs);
    for (k, t) in subs.iter().enumerate() {
        let E::Bin(op, a, b) = t else { continue };
        let to_u64 = |h: &str| u64::from_str_radix(h, 16).ok();
        let lit = if *op == "shr" {
            if ctxs[k] != (64, false) || b.size(&c.ports) > 64 {
                continue;
            }
            let (Some(av), Some(bv)) = (ref_unsigned_ctx(m, c, a, 64), ref_val(m, c, b, b.size(&c.ports))) else { continue };
            let (Some(av), Some(bv)) = (to_u64(&av), to_u64(&bv)) else { continue };
            E::Lit(64, false, format!("{:x}", ((av as i64) >> bv.min(63)) as u64))
        } else if ["div", "mod"].contains(op) {
            if ctxs[k] != (64, false) {
                continue;
            }
            let (Some(av), Some(bv)) = (ref_unsigned_ctx(m, c, a, 64), ref_unsigned_ctx(m, c, b, 64)) else { continue };
            let (Some(av), Some(bv)) = (to_u64(&av), to_u64(&bv)) else { continue };
            if bv == 0 {
                continue;
            }
            let (x, y) = (av as i64, bv as i64);
            let r = if *op == "div" { x.wrapping_div(y) } else { x.wrapping_rem(y) };
            E::Lit(64, false, format!("{:x}", r as u64))
        } else if ["lt", "le", "gt", "ge"].contains(op) {
            let cw = a.size(&c.ports).max(b.size(&c.ports));
            if cw != 64 || (a.sgn(&c.ports) && b.sgn(&c.ports)) {
                continue;
            }
            let (Some(av), Some(bv)) = (ref_unsigned_ctx(m, c, a, 64), ref_unsigned_ctx(m, c, b, 64)) else { continue };
            let (Some(av), Some(bv)) = (to_u64(&av), to_u64(&bv)) else { continue };
            let (x, y) = (av as i64, bv as i64);
            let r = match *op {
                "lt" => x < y,
                "le" => x <= y,
                "gt" => x > y,
                _ => x >= y,
            };
            E::Lit(1, false, if r { "1".into() } else { "0".into() })
        } else {
            continue;
        };
        let mut kk = k;
        let e2 = c.e.replace(&mut kk, &lit);
        if ref_val(m, c, &e2, c.wo).as_deref() == Some(ccv.as_str()) {
            return true;
        }
    }
    false
}

/// analyzer compile-time evaluation: the selected branch of a ternary is extended by the branch
/// VALUES' signedness instead of the propagated context type (expression.rs, `Expression::Ternary`
/// in `eval_value`).  Verified: extending the selected branch the other way reproduces ct's value.
fn k_ct_ternary(c: &Case, o: &Obs, m: &mut Model) -> bool {
    let Some(ctv) = o.value_of("ct") else { return false };
    let ctxs = contexts(c);
    let mut subs = vec![];
    c.e.subtrees(&mut subs);
    for (k, t) in subs.iter().enumerate() {
        let E::Ite(x, a, b) = t else { continue };
        let (w, s) = ctxs[k];
        let Some(xv) = ref_val(m, c, x, x.size(&c.ports)) else { continue };
        let sel = if xv != "0" { a } else { b };
        let sw = sel.size(&c.ports);
        if sw > w {
            continue;
        }
        let Some(sv) = ref_val(m, c, sel, sw) else { continue };
        for sign in [false, true] {
            let mut kk = k;
            let e2 = c.e.replace(&mut kk, &E::Lit(w, s, extend_hex(&sv, sw, w, sign)));
            if ref_val(m, c, &e2, c.wo).as_deref() == Some(ctv.as_str()) {
                return true;
            }
        }
    }
    false
}

/// interpreter + compile-time evaluation (shared `eval_value`): `==`/`!=` hand an UNSIGNED context
/// down to their operands (op.rs `eval_context_binary`: `Eq | Ne => signed: false`), so a narrower
/// signed leaf inside an operator operand is zero-extended.  Verified: evaluating that operand in an
/// unsigned context of the comparison width reproduces the interpreter's value.
fn k_eq_unsigned_ctx(c: &Case, o: &Obs, m: &mut Model) -> bool {
    let Some(iv) = o.value_of("i2").or_else(|| o.value_of("ct")) else { return false };
    let mut subs = vec![];
    c.e.subtrees(&mut subs);
    for (k, t) in subs.iter().enumerate() {
        let E::Bin(op, a, b) = t else { continue };
        if !["eq", "ne"].contains(op) || !(a.sgn(&c.ports) && b.sgn(&c.ports)) {
            continue;
        }
        let cw = a.size(&c.ports).max(b.size(&c.ports));
        // replace each non-leaf operand by its value in an unsigned context of the comparison width
        let fix = |x: &E, m: &mut Model| -> Option<E> {
            if is_leaf(x) {
                return Some(x.clone());
            }
            Some(E::Lit(cw, true, ref_unsigned_ctx(m, c, x, cw)?))
        };
        let (Some(a2), Some(b2)) = (fix(a, m), fix(b, m)) else { continue };
        let mut kk = k;
        let e2 = c.e.replace(&mut kk, &E::Bin(op, Box::new(a2), Box::new(b2)));
        if ref_val(m, c, &e2, c.wo).as_deref() == Some(iv.as_str()) {
            return true;
        }
    }
    false
}

/// every engine and the compile-time evaluator (shared typing, op.rs `eval_context_binary`:
/// `Greater | GreaterEq | Less | LessEq => signed: x.signed & y.signed`): the 1-bit result of a
/// relational operator with two signed operands is itself typed SIGNED (IEEE 1800 §11.8.1: comparison
/// results are unsigned): the enclosing expression becomes signed (sibling operands are
/// sign-extended, a comparison with it is signed).  Verified: replacing the relational node by a
/// SIGNED literal of the context width holding its 0/1 value reproduces the common engine value.
fn k_rel_result_signed(c: &Case, o: &Obs, m: &mut Model) -> bool {
    let Some(v) = o.value_of("i2") else { return false };
    let ctxs = contexts(c);
    let mut subs = vec![];
    c.e.subtrees(&mut subs);
    for (k, t) in subs.iter().enumerate() {
        let E::Bin(op, a, b) = t else { continue };
        if !["lt", "le", "gt", "ge"].contains(op) || !(a.sgn(&c.ports) && b.sgn(&c.ports)) {
            continue;
        }
        // typed signed for the propagation of the context type, while the 0/1 value itself is
        // zero-extended to the context width
        let Some(tv) = ref_val(m, c, t, 1) else { continue };
        let mut kk = k;
        let e2 = c.e.replace(&mut kk, &E::Lit(ctxs[k].0.max(1), true, tv));
        if ref_val(m, c, &e2, c.wo).as_deref() == Some(v.as_str()) {
            return true;
        }
    }
    false
}

/// The defect class of a shrunk failing case, if its predicate holds.
fn classify(c: &Case, o: &Obs, target: &(String, String), m: &mut Model) -> Option<&'static str> {
    let cl = o.classes();
    let is = |set: &[&str]| cl.len() == set.len() && set.iter().all(|x| cl.iter().any(|y| y == x));
    let within = |set: &[&str]| cl.iter().all(|x| set.contains(&x.as_str()));
    let has = |x: &str| cl.iter().any(|y| y == x);
    let all_value = o.fails.iter().all(|f| f.1 == "value");
    let wide = max_width(c) > 64;
    let mut subs = vec![];
    c.e.subtrees(&mut subs);
    let has_ite = subs.iter().any(|s| matches!(s, E::Ite(..)));
    if target.1.starts_with("panic@cranelift-codegen") && target.1.contains("/isa/x64/lower/isle.rs") && within(&["j2", "j4", "cc"]) && wide {
        return Some("jit:isle-lowering-panic-when-ctx-or-operand>64");
    }
    if target.1 == "abort" && (has("j4") || has("al")) && within(&["j2", "j4", "cc", "al"]) && wide && has_ite {
        return Some("jit4:heap-corruption-ite-wider-than-64");
    }
    if !all_value {
        return None;
    }
    if is(&["cc"]) {
        if k_cc_const(c, o, m) {
            return Some("cc:constant-only-operand-evaluated-at-self-width");
        }
        if k_cc_msb64(c, o, m) {
            return Some("cc:64bit-msb-set-shift-compare-divide-as-signed");
        }
        if wide {
            return Some("cc:value-wrong-when-ctx-or-operand>64");
        }
        if has_signed_leaf(c) {
            return Some("cc:signed-operand-le64");
        }
        return None;
    }
    if is(&["j4"]) && wide {
        // 4-state only: the X/Z-mask half of a value wider than 64 bits
        return Some("jit4:value-wrong-when-ctx-or-operand>64");
    }
    if has("j2") && has("j4") && within(&["j2", "j4", "cc"]) {
        // the 2- and 4-state JIT must agree on the wrong value (one code path)
        if o.value_of("j2") != o.value_of("j4") {
            return None;
        }
        if wide {
            return Some("jit:value-wrong-when-ctx-or-operand>64");
        }
        if has_signed_leaf(c) {
            return Some("jit:signed-operand-le64");
        }
        return None;
    }
    if ["i2", "i4", "j2", "j4"].iter().all(|x| has(x))
        && within(&["cc", "ct", "i2", "i4", "j2", "j4"])
        && cl.iter().all(|x| o.value_of(x) == o.value_of("i2"))
        && k_rel_result_signed(c, o, m)
    {
        return Some("all:relational-result-typed-signed-when-both-operands-signed");
    }
    if is(&["ct"]) && has_ite && k_ct_ternary(c, o, m) {
        return Some("ct:ternary-branch-extended-by-value-signedness");
    }
    if is(&["ct", "i2", "i4"]) && o.value_of("i2") == o.value_of("i4") && o.value_of("i2") == o.value_of("ct") && k_eq_unsigned_ctx(c, o, m) {
        return Some("interp+ct:eq-ne-pass-unsigned-context-to-signed-operands");
    }
    None
}

const CLASS_ORDER: &[&str] = &["an", "i2", "i4", "ct", "j2", "j4", "cc", "al"];

fn shrink_main(opts: &Opts, lines: &[String]) -> i32 {
    let mut m = Model::spawn(opts.get("vmodel").unwrap_or("/verif/lean/.lake/build/bin/vmodel"));
    let max_budget = opts.num("budget", 400) as usize;
    let mut pool = Pool::default();
    let mut out = vec![];
    for l in lines {
        let Some(c) = Case::parse(l) else {
            out.push(format!("bad-op {l}"));
            continue;
        };
        let Some(f) = failures(&c, &mut m, &mut pool, "") else {
            out.push(format!("ok-dc {l}"));
            continue;
        };
        if f.is_empty() {
            out.push(format!("ok {l}"));
            continue;
        }
        // attribute to the most basic deviating class (interpreter before JIT before cc)
        let target = CLASS_ORDER.iter().find_map(|cl| f.iter().find(|x| x.0 == *cl)).unwrap_or(&f[0]).clone();
        let mut budget = max_budget;
        let small = shrink(&c, &target, &mut m, &mut pool, &mut budget);
        let mut o2 = observe(&small, &mut m, &mut pool, "").unwrap_or_default();
        if !o2.fails.contains(&target) {
            o2.fails = vec![target.clone()];
        }
        // a defect class whose predicate holds on the shrunk case, else the fine signature
        let key = match classify(&small, &o2, &target, &mut m) {
            Some(k) => k.to_string(),
            None => format!("unclassified:{}", signature(&small, &o2.fails, &target)),
        };
        let src = small.port_source().replace('\n', " ");
        out.push(format!("key={key} witness={} ;; {}", small.line().replace(' ', "|"), src));
    }
    let mut fh = std::fs::File::create(opts.out().join("shrink.txt")).unwrap();
    for o in &out {
        writeln!(fh, "{o}").unwrap();
    }
    0
}

pub fn main(opts: &Opts) -> i32 {
    install_hook();
    if opts.get("worker").is_some() {
        return worker_main(opts.get("only"));
    }
    let mut log = Log::new();
    if let Some(f) = opts.get("shrink") {
        let lines: Vec<String> = std::fs::read_to_string(f).unwrap_or_default().lines().map(|x| x.to_string()).collect();
        return shrink_main(opts, &lines);
    }
    let lines: Vec<String> = if let Some(f) = opts.get("replay") {
        std::fs::read_to_string(f).unwrap_or_default().lines().map(|x| x.to_string()).collect()
    } else {
        let mut r = Rng::new(opts.seed());
        let level = opts.num("stratum", 0) as u32;
        let n = opts.num("n", 50);
        let stim = opts.num("stim", 4);
        let mut v = vec![];
        for k in 0..n {
            let mut c = gen_design(&mut r, level);
            for _ in 0..stim {
                c.vals = gen_stimulus(&mut r, &c);
                v.push(c.line());
            }
            if k % 40 == 39 {
                v.push(r.pick(&["x S0 8 8u 8u 8u 1 2 3 frob,p0", "x S0 8 8u 8u 8u 1ff 2 3 not,p0", "x S0 0 8u 8u 8u 1 2 3 not,p0", "y 1 2", "x S0 8 8u 8u 8u 1 2 3 add,p0"]).to_string());
                log.count("malformed");
            }
        }
        v
    };
    if opts.get("gen-only").is_some() {
        std::fs::write(opts.out().join("gen.txt"), lines.join("\n") + "\n").unwrap();
        return 0;
    }
    run_lines(&lines, &mut log);
    if let Ok(g) = TIMES.lock() {
        for (k, v) in g.iter() {
            log.add(&format!("ms.{k}"), (*v / 1000) as u64);
        }
    }
    log.add("sequences", lines.len() as u64);
    log.write(&opts.out());
    0
}
