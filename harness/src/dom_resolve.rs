//! Domain `resolve` (C31): dependency resolution of the real `veryl_metadata::Lockfile`
//! (`new` / `update` / `save` / `load`) on synthetic worlds: a root project, local path projects
//! and LOCAL git repositories with release histories, all created here with the `git` CLI under
//! `<out>/scratch` (no network; `HOME`/`XDG_CACHE_HOME` point into the scratch directory, so the
//! user's cache is never touched; `VERYL_GIT_BACKEND=command`).
//!
//! Request lines (hex numbers) — see lean/VerylModel/Driver/Resolve.lean. World lines (`meta`,
//! `head`, `rmeta`, `pmeta`) describe the world abstractly and are *materialised* on disk before
//! the next resolution request, so a replay file of request lines reproduces a scenario.
//! `metadata.dependencies` is a `HashMap`: the iteration order the implementation used is read
//! back from the result (`Lock.dependencies` keeps it) and written into the `[ord]` argument of
//! the request, so that the model is run with the same order.
//!
//! Oracle (`oracle.txt`, model independent): `names` → all lock names distinct; `best` → every
//! resolved git edge carries the locked version if one still matches (no `force`) and otherwise
//! the greatest published matching version (real `semver`); `reload` → save+load reproduces the
//! lock table; `unmodified` → an update of an unchanged world (after a successful resolution) reports no modification.
use crate::rng::Rng;
use crate::util::{Log, Opts};
use std::collections::{BTreeMap, BTreeSet, HashMap};
use std::fs;
use std::panic::{AssertUnwindSafe, catch_unwind};
use std::path::{Path, PathBuf};
use std::process::Command;
use veryl_metadata::semver::{Version, VersionReq};
use veryl_metadata::{LockSource, Lockfile, Metadata};

/// Fixed pools so that a request line determines the concrete text (sorted by semver precedence).
const VERSIONS: &[&str] = &[
    "0.1.0", "0.1.1", "0.2.0", "0.9.9", "1.0.0-alpha.1", "1.0.0", "1.0.1", "1.1.0", "1.2.0", "1.2.3", "1.10.0",
    "2.0.0", "2.1.0", "10.0.0",
];
const REQS: &[&str] = &[
    "*", "^1.0", "1", "~1.1", "=1.2.0", ">=1.0.0, <1.2.0", ">=0.2", ">1.2.3", "^0.1", "0.1.0", "<1.0.0", "^2",
    "^1.0.0-alpha", ">=1.1, <3", "^0.9", "1.2",
];
const PATHS: &[&str] = &["", "sub1", "sub2"];

#[derive(Clone, Debug, PartialEq)]
enum Kind {
    Git { u: u64, proj: u64, req: u64 },
    Path { target: u64 },
    Bad,
}

#[derive(Clone, Debug, PartialEq)]
struct DepA {
    name: Vec<u64>,
    kind: Kind,
}

#[derive(Default, Clone)]
struct World {
    metas: BTreeMap<u64, Vec<DepA>>,
    heads: BTreeMap<(u64, u64), (u64, Option<Vec<(u64, u64)>>)>,
    rmetas: BTreeMap<(u64, u64, u64), u64>,
    pmetas: BTreeMap<u64, u64>,
}

fn hx(s: &str) -> Option<u64> {
    u64::from_str_radix(s, 16).ok()
}

fn matching(req: u64) -> Vec<u64> {
    let r = VersionReq::parse(REQS[req as usize % REQS.len()]).unwrap();
    (0..VERSIONS.len() as u64).filter(|v| r.matches(&Version::parse(VERSIONS[*v as usize]).unwrap())).collect()
}

fn show_name(n: &[u64]) -> String {
    n.iter().map(|x| format!("{x:x}")).collect::<Vec<_>>().join("_")
}

/// `n3_0` (decimal in the toml) for `[3,0]`.
fn toml_name(n: &[u64]) -> String {
    format!("n{}", n.iter().map(|x| x.to_string()).collect::<Vec<_>>().join("_"))
}

fn parse_toml_name(s: &str) -> Option<Vec<u64>> {
    s.strip_prefix('n')?.split('_').map(|x| x.parse().ok()).collect()
}

fn show_dep(d: &DepA) -> String {
    let k = match &d.kind {
        Kind::Git { u, proj, req } => {
            let m = matching(*req);
            let ms = if m.is_empty() { "z".to_string() } else { m.iter().map(|x| format!("{x:x}")).collect::<Vec<_>>().join("+") };
            format!("g{u:x}.{proj:x}.{req:x}.{ms}")
        }
        Kind::Path { target } => format!("p{target:x}"),
        Kind::Bad => "b".to_string(),
    };
    format!("{}~{k}", show_name(&d.name))
}

fn parse_dep(s: &str) -> Option<DepA> {
    let (n, k) = s.split_once('~')?;
    let name: Vec<u64> = n.split('_').map(hx).collect::<Option<_>>()?;
    let kind = if k == "b" {
        Kind::Bad
    } else if let Some(t) = k.strip_prefix('p') {
        Kind::Path { target: hx(t)? }
    } else if let Some(g) = k.strip_prefix('g') {
        let f: Vec<&str> = g.split('.').collect();
        if f.len() != 4 {
            return None;
        }
        Kind::Git { u: hx(f[0])?, proj: hx(f[1])?, req: hx(f[2])? }
    } else {
        return None;
    };
    Some(DepA { name, kind })
}

fn parse_list(s: &str) -> Vec<String> {
    let inner = &s[1..s.len() - 1];
    if inner.is_empty() { vec![] } else { inner.split(',').map(|x| x.to_string()).collect() }
}

impl World {
    /// Applies a world line; `None` if it is not one or is malformed.
    fn apply(&mut self, t: &[&str]) -> Option<()> {
        match t {
            ["meta", i, l] if l.starts_with('[') && l.ends_with(']') => {
                let deps: Vec<DepA> = parse_list(l).iter().map(|x| parse_dep(x)).collect::<Option<_>>()?;
                self.metas.insert(hx(i)?, deps);
            }
            ["head", u, pr, p, rels] => {
                let rels = if *rels == "-" {
                    None
                } else {
                    let mut v = vec![];
                    for x in parse_list(rels) {
                        let (a, b) = x.split_once('.')?;
                        v.push((hx(a)?, hx(b)?));
                    }
                    Some(v)
                };
                self.heads.insert((hx(u)?, hx(pr)?), (hx(p)?, rels));
            }
            ["rmeta", u, p, r, m] => {
                self.rmetas.insert((hx(u)?, hx(p)?, hx(r)?), hx(m)?);
            }
            ["pmeta", p, m] => {
                self.pmetas.insert(hx(p)?, hx(m)?);
            }
            _ => return None,
        }
        Some(())
    }
}

fn git(dir: &Path, args: &[&str]) -> String {
    let out = Command::new("git")
        .args(args)
        .current_dir(dir)
        .env("GIT_AUTHOR_NAME", "hx")
        .env("GIT_AUTHOR_EMAIL", "hx@localhost")
        .env("GIT_COMMITTER_NAME", "hx")
        .env("GIT_COMMITTER_EMAIL", "hx@localhost")
        .env("GIT_AUTHOR_DATE", "2026-01-01T00:00:00Z")
        .env("GIT_COMMITTER_DATE", "2026-01-01T00:00:00Z")
        .output()
        .expect("git CLI");
    if !out.status.success() {
        panic!("git {:?} failed in {}: {}", args, dir.display(), String::from_utf8_lossy(&out.stderr));
    }
    String::from_utf8_lossy(&out.stdout).trim().to_string()
}

/// The world on disk.
struct Disk {
    dir: PathBuf,
    committed: BTreeSet<(u64, u64)>, // (repo, rev id)
    rev_hash: BTreeMap<u64, String>,
    hash_rev: HashMap<String, u64>,
    git_cmds: u64,
}

impl Disk {
    fn new(dir: PathBuf) -> Disk {
        let _ = fs::remove_dir_all(&dir);
        fs::create_dir_all(dir.join("root")).unwrap();
        Disk { dir, committed: BTreeSet::new(), rev_hash: BTreeMap::new(), hash_rev: HashMap::new(), git_cmds: 0 }
    }
    fn repo_dir(&self, u: u64) -> PathBuf {
        self.dir.join("repos").join(format!("r{u}"))
    }
    fn repo_url(&self, u: u64) -> String {
        let p = self.repo_dir(u).to_string_lossy().to_string();
        if u % 2 == 1 { format!("file://{p}") } else { p }
    }
    fn path_dir(&self, p: u64) -> PathBuf {
        self.dir.join("paths").join(format!("p{p}"))
    }

    fn dep_toml(&self, d: &DepA, relative_from: Option<&Path>) -> String {
        let n = toml_name(&d.name);
        match &d.kind {
            Kind::Git { u, proj, req } => format!(
                "{n} = {{git = \"{}\", project = \"q{proj:02}\", version = \"{}\"}}\n",
                self.repo_url(*u),
                REQS[*req as usize % REQS.len()]
            ),
            Kind::Path { target } => {
                let abs = self.path_dir(*target);
                match relative_from {
                    _ if !abs.exists() || target % 2 == 0 => format!("{n} = {{path = \"../paths/p{target}\"}}\n"),
                    _ => format!("{n} = {{path = \"{}\"}}\n", abs.to_string_lossy()),
                }
            }
            Kind::Bad => match d.name.iter().sum::<u64>() % 3 {
                0 => format!("{n} = \"1.0\"\n"),
                1 => format!("{n} = {{project = \"q00\"}}\n"),
                _ => format!("{n} = {{git = \"/nonexistent/repo\"}}\n"),
            },
        }
    }

    fn toml(&self, name: &str, version: &str, deps: &[DepA], relative_from: Option<&Path>) -> String {
        let mut s = format!("[project]\nname = \"{name}\"\nversion = \"{version}\"\n[build]\nexclude_std = true\n[dependencies]\n");
        for d in deps {
            s.push_str(&self.dep_toml(d, relative_from));
        }
        s
    }

    /// Brings the disk in line with the abstract world (idempotent, incremental).
    fn sync(&mut self, w: &World) {
        let empty = vec![];
        for p in w.pmetas.keys() {
            fs::create_dir_all(self.path_dir(*p)).unwrap();
        }
        // root and path projects (rewritten each time; cheap)
        let root = self.dir.join("root");
        fs::write(root.join("Veryl.toml"), self.toml("rootprj", "0.1.0", w.metas.get(&0).unwrap_or(&empty), Some(&root))).unwrap();
        for (p, m) in &w.pmetas {
            let d = self.path_dir(*p);
            fs::create_dir_all(&d).unwrap();
            match w.metas.get(m) {
                // path projects live in <dir>/paths/pK: "../paths/pT" is not right from there, so absolute/“../pT”
                Some(deps) => {
                    let mut s = format!("[project]\nname = \"pp{p}\"\nversion = \"0.1.0\"\n[build]\nexclude_std = true\n[dependencies]\n");
                    for dep in deps {
                        match &dep.kind {
                            Kind::Path { target } if target % 2 == 0 || !self.path_dir(*target).exists() => {
                                s.push_str(&format!("{} = {{path = \"../p{target}\"}}\n", toml_name(&dep.name)))
                            }
                            _ => s.push_str(&self.dep_toml(dep, None)),
                        }
                    }
                    fs::write(d.join("Veryl.toml"), s).unwrap()
                }
                None => {
                    let _ = fs::remove_file(d.join("Veryl.toml"));
                }
            }
        }
        // repositories
        let mut repos: BTreeSet<u64> = w.heads.keys().map(|k| k.0).collect();
        repos.extend(w.rmetas.keys().map(|k| k.0));
        for u in repos {
            let rd = self.repo_dir(u);
            if !rd.join(".git").exists() {
                fs::create_dir_all(&rd).unwrap();
                git(&rd, &["init", "-q", "-b", "main"]);
                self.git_cmds += 1;
            }
            let mut revs: BTreeSet<u64> = w.rmetas.keys().filter(|k| k.0 == u).map(|k| k.2).collect();
            for ((hu, _), (_, rels)) in &w.heads {
                if *hu == u {
                    if let Some(rels) = rels {
                        revs.extend(rels.iter().map(|x| x.1));
                    }
                }
            }
            for rev in revs {
                if self.committed.contains(&(u, rev)) {
                    continue;
                }
                for ((mu, mp, mr), m) in &w.rmetas {
                    if *mu != u || *mr != rev {
                        continue;
                    }
                    let pd = rd.join(PATHS[*mp as usize % PATHS.len()]);
                    fs::create_dir_all(&pd).unwrap();
                    let (pname, version) = self.project_at(w, u, *mp, rev);
                    fs::write(pd.join("Veryl.toml"), self.toml(&pname, &version, w.metas.get(m).unwrap_or(&empty), None)).unwrap();
                }
                fs::write(rd.join("rev.txt"), format!("{rev}\n")).unwrap();
                git(&rd, &["add", "-A"]);
                git(&rd, &["commit", "-q", "--no-gpg-sign", "-m", &format!("rev {rev}")]);
                let h = git(&rd, &["rev-parse", "HEAD"]);
                self.git_cmds += 3;
                self.rev_hash.insert(rev, h.clone());
                self.hash_rev.insert(h, rev);
                self.committed.insert((u, rev));
            }
            // HEAD state: Veryl.pub (and a Veryl.toml for projects that never had a release commit)
            let mut changed = false;
            for ((hu, proj), (path, rels)) in &w.heads {
                if *hu != u {
                    continue;
                }
                let pd = rd.join(PATHS[*path as usize % PATHS.len()]);
                fs::create_dir_all(&pd).unwrap();
                if !pd.join("Veryl.toml").exists() {
                    fs::write(pd.join("Veryl.toml"), self.toml(&format!("q{proj:02}"), "0.0.1", &[], None)).unwrap();
                    changed = true;
                }
                let pubf = pd.join("Veryl.pub");
                let want = rels.as_ref().map(|rels| {
                    if rels.is_empty() {
                        "releases = []\n".to_string()
                    } else {
                        rels.iter()
                            .map(|(v, r)| {
                                format!(
                                    "[[releases]]\nversion = \"{}\"\nrevision = \"{}\"\n",
                                    VERSIONS[*v as usize % VERSIONS.len()],
                                    self.rev_hash.get(r).cloned().unwrap_or_else(|| "0".repeat(40))
                                )
                            })
                            .collect::<String>()
                    }
                });
                let have = fs::read_to_string(&pubf).ok();
                if want != have {
                    match want {
                        Some(t) => fs::write(&pubf, t).unwrap(),
                        None => {
                            let _ = fs::remove_file(&pubf);
                        }
                    }
                    changed = true;
                }
            }
            if changed {
                git(&rd, &["add", "-A"]);
                git(&rd, &["commit", "-q", "--no-gpg-sign", "--allow-empty", "-m", "pub"]);
                self.git_cmds += 2;
            }
        }
    }

    /// Project name and version of the project at (u, path) whose release has revision `rev`.
    fn project_at(&self, w: &World, u: u64, path: u64, rev: u64) -> (String, String) {
        for ((hu, proj), (hp, rels)) in &w.heads {
            if *hu == u && *hp == path {
                let v = rels
                    .as_ref()
                    .and_then(|r| r.iter().find(|x| x.1 == rev))
                    .map(|x| VERSIONS[x.0 as usize % VERSIONS.len()].to_string())
                    .unwrap_or_else(|| "0.0.1".to_string());
                return (format!("q{proj:02}"), v);
            }
        }
        (format!("qx{path}"), "0.0.1".to_string())
    }
}

/// Abstract view of a real lock source.
fn abs_src(disk: &Disk, urls: &HashMap<String, u64>, src: &LockSource) -> String {
    match src {
        LockSource::Repository(x) => {
            let u = urls.get(&x.url.to_string()).copied().unwrap_or(0xfff);
            let p = PATHS.iter().position(|y| Path::new(y) == x.path.as_path()).map(|i| i as u64).unwrap_or(0xfff);
            let pr = x.project.strip_prefix('q').and_then(|y| y.parse::<u64>().ok()).unwrap_or(0xfff);
            let v = VERSIONS.iter().position(|y| *y == x.version.to_string()).map(|i| i as u64).unwrap_or(0xfff);
            let r = disk.hash_rev.get(&x.revision).copied().unwrap_or(0xfff);
            format!("g{u:x}.{p:x}.{pr:x}.{v:x}.{r:x}")
        }
        LockSource::Path(p) => format!("p{:x}", path_id(disk, p)),
    }
}

fn path_id(disk: &Disk, p: &Path) -> u64 {
    let abs = if p.is_absolute() { p.to_path_buf() } else { disk.dir.join("root").join(p) };
    let abs = abs.canonicalize().unwrap_or(abs);
    let base = disk.dir.join("paths").canonicalize().unwrap_or(disk.dir.join("paths"));
    abs.strip_prefix(&base)
        .ok()
        .and_then(|x| x.to_str())
        .and_then(|x| x.strip_prefix('p'))
        .and_then(|x| x.parse().ok())
        .unwrap_or(0xfff)
}

struct View {
    text: String,
    /// (meta index, dependency names in iteration order) per lock
    orders: Vec<(Option<u64>, Vec<Vec<u64>>)>,
    names: Vec<String>,
    /// per lock: (name, visible, src token, deps as (name, src token))
    locks: Vec<(Vec<u64>, bool, String, Vec<(Vec<u64>, String)>)>,
}

fn view(disk: &Disk, w: &World, urls: &HashMap<String, u64>, lf: &Lockfile) -> View {
    let mut buckets: Vec<(u8, u64, String)> = vec![];
    let mut orders = vec![];
    let mut names = vec![];
    let mut locks_v = vec![];
    for (key, locks) in &lf.lock_table {
        let ks = key.to_string();
        let (kind, id) = match urls.get(&ks) {
            Some(u) => (0u8, *u),
            None => (1u8, path_id(disk, Path::new(&ks))),
        };
        let mut parts = vec![];
        for l in locks {
            let name = parse_toml_name(&l.name).unwrap_or(vec![0xfff]);
            names.push(l.name.clone());
            let src = abs_src(disk, urls, &l.source);
            let deps: Vec<(Vec<u64>, String)> =
                l.dependencies.iter().map(|d| (parse_toml_name(&d.name).unwrap_or(vec![0xfff]), abs_src(disk, urls, &d.source))).collect();
            let ds = deps.iter().map(|(n, s)| format!("{}@{s}", show_name(n))).collect::<Vec<_>>().join("&");
            parts.push(format!("{}@{src}({ds}){}", show_name(&name), if l.visible { "V" } else { "H" }));
            let meta = match &l.source {
                LockSource::Repository(x) => {
                    let u = urls.get(&x.url.to_string()).copied().unwrap_or(0xfff);
                    let p = PATHS.iter().position(|y| Path::new(y) == x.path.as_path()).map(|i| i as u64).unwrap_or(0xfff);
                    let r = disk.hash_rev.get(&x.revision).copied().unwrap_or(0xfff);
                    w.rmetas.get(&(u, p, r)).copied()
                }
                LockSource::Path(p) => w.pmetas.get(&path_id(disk, p)).copied(),
            };
            orders.push((meta, deps.iter().map(|d| d.0.clone()).collect()));
            locks_v.push((name, l.visible, src, deps));
        }
        buckets.push((kind, id, format!("{}{id:x}={}", if kind == 0 { "U" } else { "P" }, parts.join("/"))));
    }
    buckets.sort();
    let text = if buckets.is_empty() { "-".to_string() } else { buckets.into_iter().map(|b| b.2).collect::<Vec<_>>().join(";") };
    View { text, orders, names, locks: locks_v }
}

fn ord_token(w: &World, root_order: &[Vec<u64>], v: Option<&View>) -> String {
    let mut items: BTreeMap<u64, String> = BTreeMap::new();
    let perm = |m: u64, order: &[Vec<u64>]| -> Option<String> {
        let canon = w.metas.get(&m)?;
        let idx: Vec<String> = order.iter().filter_map(|n| canon.iter().position(|d| &d.name == n)).map(|i| format!("{i:x}")).collect();
        Some(idx.join("."))
    };
    if let Some(p) = perm(0, root_order) {
        items.insert(0, p);
    }
    if let Some(v) = v {
        for (m, order) in &v.orders {
            if let Some(m) = m {
                if let Some(p) = perm(*m, order) {
                    items.insert(*m, p);
                }
            }
        }
    }
    format!("[{}]", items.iter().map(|(m, p)| format!("{m:x}:{p}")).collect::<Vec<_>>().join(","))
}

struct Sess {
    disk: Disk,
    world: World,
    urls: HashMap<String, u64>,
    cur: Lockfile,
    /// versions locked per (url, project) before the last resolution, and its force flag / success
    prev_locked: BTreeMap<(u64, u64), BTreeSet<u64>>,
    last_force: bool,
    last_ok: bool,
    dirty: bool,
    synced: bool,
    /// false until a `new` (or the first `update`, which the CLI turns into `new`) succeeded
    has_lockfile: bool,
    /// `modified` flag of the last update and whether that update ran on an unchanged world
    last_mod: Option<bool>,
    last_update_clean: bool,
}

fn locked_versions(v: &View) -> BTreeMap<(u64, u64), BTreeSet<u64>> {
    let mut m: BTreeMap<(u64, u64), BTreeSet<u64>> = BTreeMap::new();
    for (_, _, src, _) in &v.locks {
        if let Some(g) = src.strip_prefix('g') {
            let f: Vec<u64> = g.split('.').filter_map(hx).collect();
            if f.len() == 5 {
                m.entry((f[0], f[2])).or_default().insert(f[3]);
            }
        }
    }
    m
}

impl Sess {
    fn new(dir: PathBuf, cache: &Path) -> Sess {
        let _ = fs::remove_dir_all(cache.join("veryl"));
        let disk = Disk::new(dir);
        let mut cur = Lockfile::default();
        cur.metadata_path = disk.dir.join("root").join("Veryl.toml");
        Sess {
            disk,
            world: World::default(),
            urls: HashMap::new(),
            cur,
            prev_locked: BTreeMap::new(),
            last_force: false,
            last_ok: false,
            dirty: true,
            synced: false,
            has_lockfile: false,
            last_mod: None,
            last_update_clean: false,
        }
    }

    fn ensure_synced(&mut self) {
        if !self.synced {
            self.disk.sync(&self.world);
            self.urls.clear();
            let mut repos: BTreeSet<u64> = self.world.heads.keys().map(|k| k.0).collect();
            repos.extend(self.world.rmetas.keys().map(|k| k.0));
            for m in self.world.metas.values() {
                for d in m {
                    if let Kind::Git { u, .. } = d.kind {
                        repos.insert(u);
                    }
                }
            }
            for u in repos {
                self.urls.insert(self.disk.repo_url(u), u);
            }
            self.synced = true;
        }
    }

    fn load_md(&self) -> Result<Metadata, String> {
        Metadata::load(self.disk.dir.join("root").join("Veryl.toml")).map_err(|e| format!("{e}"))
    }

    /// Runs one request; returns (request line as executed, impl reply, oracle reply).
    fn exec(&mut self, line: &str, log: &mut Log) -> (String, String, String) {
        let t: Vec<&str> = line.split(' ').collect();
        if self.world.apply(&t).is_some() {
            self.synced = false;
            self.dirty = true;
            return (line.to_string(), "ok".into(), "ok".into());
        }
        match t[0] {
            "new" | "update" => {
                let force = match (t[0], t.get(1)) {
                    ("update", Some(&"1")) => true,
                    ("update", Some(&"0")) => false,
                    ("update", _) => return (line.to_string(), "bad-op".into(), "bad-op".into()),
                    _ => false,
                };
                self.ensure_synced();
                let clean = t[0] == "update" && !self.dirty && self.last_ok && self.has_lockfile;
                self.last_mod = None;
                let before = view(&self.disk, &self.world, &self.urls, &self.cur);
                let md = match self.load_md() {
                    Ok(x) => x,
                    Err(_) => {
                        log.count("metadata_load_err");
                        let req = if t[0] == "update" { format!("update {} []", t[1]) } else { format!("{} []", t[0]) };
                        self.last_ok = false;
                        return (req, "err".into(), "?".into());
                    }
                };
                let root_order: Vec<Vec<u64>> = md.dependencies.keys().filter_map(|k| parse_toml_name(k)).collect();
                let res = catch_unwind(AssertUnwindSafe(|| {
                    if t[0] == "new" {
                        Lockfile::new(&md).map(|l| (l, true))
                    } else if !self.has_lockfile {
                        // `Metadata::update_lockfile`: no Veryl.lock yet ⇒ `Lockfile::new`, modified
                        Lockfile::new(&md).map(|l| {
                            let m = !l.lock_table.is_empty();
                            (l, m)
                        })
                    } else {
                        let mut l = self.cur.clone();
                        l.update(&md, force).map(|m| (l, m))
                    }
                }));
                let prefix = if t[0] == "update" { format!("update {}", t[1]) } else { t[0].to_string() };
                match res {
                    Err(_) => {
                        log.count("panic");
                        self.last_ok = false;
                        (format!("{prefix} {}", ord_token(&self.world, &root_order, None)), "panic".into(), "?".into())
                    }
                    Ok(Err(e)) => {
                        let kind = format!("{e:?}");
                        log.count(&format!("err_{}", kind.split(|c: char| !c.is_alphanumeric()).next().unwrap_or("x")));
                        self.last_ok = false;
                        (format!("{prefix} {}", ord_token(&self.world, &root_order, None)), "err".into(), "?".into())
                    }
                    Ok(Ok((lf, modified))) => {
                        self.cur = lf;
                        self.has_lockfile = true;
                        let v = view(&self.disk, &self.world, &self.urls, &self.cur);
                        log.count(&format!("locks_{}", v.locks.len().min(9)));
                        log.add("suffixed_names", v.locks.iter().filter(|l| l.0.len() > 1).count() as u64);
                        {
                            // how many sources share one declared name (suffix stripped is not possible in
                            // general: count by the first component, the base name)
                            let mut per: BTreeMap<u64, u64> = BTreeMap::new();
                            for l in &v.locks {
                                *per.entry(l.0[0]).or_insert(0) += 1;
                            }
                            let mx = per.values().max().copied().unwrap_or(0);
                            log.count(&format!("same_base_name_max_{}", mx.min(5)));
                        }
                        let req = format!("{prefix} {}", ord_token(&self.world, &root_order, Some(&v)));
                        let (imp, ora) = match t[0] {
                            "new" => (format!("ok {}", v.text), "?".to_string()),
                            _ => (format!("ok mod={} {}", modified as u8, v.text), "?".to_string()),
                        };
                        if t[0] == "update" {
                            self.last_mod = Some(modified);
                            self.last_update_clean = clean;
                        }
                        self.prev_locked = if t[0] == "new" { BTreeMap::new() } else { locked_versions(&before) };
                        self.last_force = force;
                        self.last_ok = true;
                        self.dirty = false;
                        (req, imp, ora)
                    }
                }
            }
            "unmodified" => match self.last_mod {
                Some(m) => {
                    if self.last_update_clean {
                        log.count("unmod_checked");
                    }
                    (line.to_string(), format!("mod={}", m as u8), if self.last_update_clean { "mod=0".into() } else { "?".into() })
                }
                None => (line.to_string(), "na".into(), "?".into()),
            },
            "reload" if !self.has_lockfile => (line.to_string(), "same".into(), "same".into()),
            "reload" => {
                self.ensure_synced();
                let path = self.disk.dir.join("root").join("Veryl.lock");
                let before = view(&self.disk, &self.world, &self.urls, &self.cur).text;
                let r = catch_unwind(AssertUnwindSafe(|| -> Result<Lockfile, String> {
                    let mut c = self.cur.clone();
                    c.save(&path).map_err(|e| format!("{e}"))?;
                    let md = self.load_md()?;
                    Lockfile::load(&md).map_err(|e| format!("{e}"))
                }));
                let imp = match r {
                    Ok(Ok(l)) => {
                        let after = view(&self.disk, &self.world, &self.urls, &l).text;
                        self.cur = l;
                        if after == before { "same".to_string() } else { format!("diff") }
                    }
                    Ok(Err(_)) => "err".to_string(),
                    Err(_) => "panic".to_string(),
                };
                // `visible` is recomputed from the current declarations: equality is only claimed
                // when nothing changed since the last successful resolution
                (line.to_string(), imp, if self.dirty { "?".into() } else { "same".into() })
            }
            "names" => {
                let v = view(&self.disk, &self.world, &self.urls, &self.cur);
                let mut s = BTreeSet::new();
                let ok = v.names.iter().all(|n| s.insert(n.clone()));
                (line.to_string(), if ok { "distinct".into() } else { "dup".into() }, "distinct".into())
            }
            "best" => {
                if !self.last_ok {
                    return (line.to_string(), "na".into(), "?".into());
                }
                let v = view(&self.disk, &self.world, &self.urls, &self.cur);
                let mut bad: Option<String> = None;
                let mut edges = 0u64;
                // returns false when the resolved source is not what the property demands
                let check = |decl: &DepA, src: &str, log: &mut Log| -> bool {
                    if let Kind::Git { u, proj, req } = &decl.kind {
                        let f: Vec<u64> = src.strip_prefix('g').map(|g| g.split('.').filter_map(hx).collect()).unwrap_or_default();
                        if f.len() != 5 {
                            return false;
                        }
                        let m = matching(*req);
                        let published: BTreeSet<u64> = self
                            .world
                            .heads
                            .get(&(*u, *proj))
                            .and_then(|h| h.1.as_ref())
                            .map(|r| r.iter().map(|x| x.0).filter(|x| m.contains(x)).collect())
                            .unwrap_or_default();
                        let locked: BTreeSet<u64> = self
                            .prev_locked
                            .get(&(*u, *proj))
                            .map(|s| s.iter().copied().filter(|x| m.contains(x)).collect())
                            .unwrap_or_default();
                        let expect = if !self.last_force && !locked.is_empty() {
                            log.count("edge_locked");
                            locked.iter().max().copied()
                        } else {
                            log.count("edge_latest");
                            published.iter().max().copied()
                        };
                        log.count("edges_checked");
                        expect == Some(f[3]) && f[0] == *u && f[2] == *proj
                    } else {
                        src.starts_with('p')
                    }
                };
                let empty = vec![];
                for d in self.world.metas.get(&0).unwrap_or(&empty) {
                    edges += 1;
                    match v.locks.iter().find(|l| l.1 && l.0 == d.name) {
                        Some(l) if check(d, &l.2, log) => {}
                        _ => bad = Some(show_name(&d.name)),
                    }
                }
                for (i, l) in v.locks.iter().enumerate() {
                    if let Some(m) = v.orders[i].0 {
                        for d in self.world.metas.get(&m).unwrap_or(&empty) {
                            edges += 1;
                            match l.3.iter().find(|x| x.0 == d.name) {
                                Some(x) if check(d, &x.1, log) => {}
                                _ => bad = Some(show_name(&d.name)),
                            }
                        }
                    }
                }
                let _ = edges;
                (line.to_string(), match bad { None => "ok".into(), Some(n) => format!("bad:{n}") }, "ok".into())
            }
            _ => (line.to_string(), "bad-op".into(), "bad-op".into()),
        }
    }
}

// ------------------------------------------------------------------------------------------------
// generator
// ------------------------------------------------------------------------------------------------

struct Gen<'a> {
    r: &'a mut Rng,
    lines: Vec<String>,
    next_meta: u64,
    next_rev: u64,
    /// (u, proj) → (path, releases)
    projects: BTreeMap<(u64, u64), (u64, Option<Vec<(u64, u64)>>)>,
    npaths: u64,
    /// versions each project will ever publish (known up front so that requirements can be satisfiable)
    plan: BTreeMap<(u64, u64), Vec<u64>>,
    /// malformed stream: invalid declarations, missing projects, unsatisfiable requirements
    malformed: bool,
    clash: bool,
}

impl Gen<'_> {
    fn gen_name(&mut self) -> Vec<u64> {
        // clash stratum: (almost) every project declares its dependencies under the same one or two
        // names, so that three, four, … different sources compete for one name (`n0`, `n0_0`, `n0_1`, …)
        let base = if self.clash { self.r.below(2) } else { self.r.below(5) };
        match self.r.below(if self.clash { 16 } else { 10 }) {
            0 => vec![base, 0],
            1 => vec![base, self.r.below(2), 0],
            _ => vec![base],
        }
    }

    /// `in_repo`: the declaration lives in a git repository (path dependencies must then be absolute).
    /// One target is always written in one form (odd: absolute, even: relative to the declaring
    /// project): the code keys a path lock by the *text* form, so mixing both forms for one
    /// directory locks it twice — not what this domain studies.
    fn gen_dep(&mut self, name: Vec<u64>, in_repo: bool) -> DepA {
        let k = self.r.below(100);
        let kind = if k < 72 && !self.projects.is_empty() {
            let keys: Vec<(u64, u64)> = self.projects.keys().copied().collect();
            let (u, mut proj) = *self.r.pick(&keys);
            // requirements satisfiable by the releases published *initially* (first half of the plan)
            let plan = self.plan.get(&(u, proj)).cloned().unwrap_or_default();
            let vers: Vec<u64> = plan[..plan.len().min(2)].to_vec();
            let good: Vec<u64> = (0..REQS.len() as u64).filter(|q| matching(*q).iter().any(|v| vers.contains(v))).collect();
            let req = if !good.is_empty() && !(self.malformed && self.r.chance(1, 8)) { *self.r.pick(&good) } else { self.r.below(REQS.len() as u64) };
            if self.malformed && self.r.chance(1, 12) {
                proj = 90; // no such project
            }
            Kind::Git { u, proj, req }
        } else if k < 96 && self.npaths > 0 {
            let mut target = 1 + self.r.below(self.npaths);
            if in_repo && target % 2 == 0 {
                target -= 1;
            }
            Kind::Path { target: if !in_repo && self.malformed && self.r.chance(1, 10) { 8 } else { target } }
        } else if k < 98 && self.malformed {
            Kind::Bad
        } else if self.npaths > 0 {
            let target = 1 + self.r.below(self.npaths);
            Kind::Path { target: if in_repo && target % 2 == 0 { target - 1 } else { target } }
        } else if !self.projects.is_empty() {
            return self.gen_dep(name, in_repo);
        } else {
            Kind::Bad
        };
        DepA { name, kind }
    }

    fn gen_meta(&mut self, max: u64, idx: Option<u64>, in_repo: bool) -> u64 {
        let i = idx.unwrap_or_else(|| {
            self.next_meta += 1;
            self.next_meta
        });
        let n = if max == 0 { 0 } else if idx == Some(0) { 1 + self.r.below(max) } else if self.r.chance(2, 5) { 0 } else { 1 + self.r.below(max) };
        let mut names: BTreeSet<Vec<u64>> = BTreeSet::new();
        while (names.len() as u64) < n {
            let nm = self.gen_name();
            names.insert(nm);
        }
        let mut deps: Vec<DepA> = vec![];
        for nm in names {
            let mut d = self.gen_dep(nm.clone(), in_repo);
            if idx == Some(0) && !self.malformed {
                // two root dependencies on one source are an error (`it conflicts with …`)
                let target = |d: &DepA| match &d.kind {
                    Kind::Git { u, proj, .. } => (0, *u, *proj),
                    Kind::Path { target } => (1, *target, 0),
                    Kind::Bad => (2, 0, 0),
                };
                let mut tries = 0;
                while deps.iter().any(|x| target(x) == target(&d)) && tries < 8 {
                    d = self.gen_dep(nm.clone(), in_repo);
                    tries += 1;
                }
                if deps.iter().any(|x| target(x) == target(&d)) {
                    continue;
                }
            }
            deps.push(d);
        }
        self.lines.push(format!("meta {i:x} [{}]", deps.iter().map(show_dep).collect::<Vec<_>>().join(",")));
        i
    }

    fn head_line(&mut self, u: u64, proj: u64) {
        let (path, rels) = self.projects[&(u, proj)].clone();
        let r = match rels {
            None => "-".to_string(),
            Some(v) => format!("[{}]", v.iter().map(|(a, b)| format!("{a:x}.{b:x}")).collect::<Vec<_>>().join(",")),
        };
        self.lines.push(format!("head {u:x} {proj:x} {path:x} {r}"));
    }

    fn release(&mut self, u: u64, proj: u64) -> bool {
        let (path, rels) = self.projects[&(u, proj)].clone();
        let mut rels = rels.unwrap_or_default();
        let plan = self.plan.get(&(u, proj)).cloned().unwrap_or_default();
        let Some(v) = plan.iter().copied().find(|v| !rels.iter().any(|x| x.0 == *v)) else {
            return false;
        };
        self.next_rev += 1;
        let rev = self.next_rev;
        let m = self.gen_meta(2, None, true);
        self.lines.push(format!("rmeta {u:x} {path:x} {rev:x} {m:x}"));
        rels.push((v, rev));
        self.projects.insert((u, proj), (path, Some(rels)));
        true
    }
}

fn gen_scenario(r: &mut Rng) -> Vec<String> {
    let malformed = r.chance(1, 6);
    let clash = r.chance(2, 5);
    let mut g = Gen {
        r,
        lines: vec!["reset".to_string()],
        next_meta: 0,
        next_rev: 0,
        projects: BTreeMap::new(),
        npaths: 0,
        plan: BTreeMap::new(),
        malformed,
        clash,
    };
    let nrepos = if g.clash { 1 + g.r.below(2) } else { g.r.below(4) };
    g.npaths = if g.clash { 3 + g.r.below(3) } else { g.r.below(4) };
    if nrepos == 0 && g.npaths == 0 {
        g.npaths = 2;
    }
    let mut proj_id = 1u64;
    for u in 0..nrepos {
        let np = 1 + g.r.below(2);
        let mut paths: Vec<u64> = vec![0, 1, 2];
        for _ in 0..np {
            let path = paths.remove(g.r.below(paths.len() as u64) as usize);
            let published = !(g.malformed && g.r.chance(1, 6));
            g.projects.insert((u, proj_id), (path, if published { Some(vec![]) } else { None }));
            // a random order of distinct versions: a patch of an old major may be published last
            let mut pool: Vec<u64> = (0..VERSIONS.len() as u64).collect();
            let mut plan = vec![];
            for _ in 0..(2 + g.r.below(5)) {
                plan.push(pool.remove(g.r.below(pool.len() as u64) as usize));
            }
            g.plan.insert((u, proj_id), plan);
            proj_id += 1;
        }
    }
    // release histories (random version order: a patch of an old major may come last)
    let keys: Vec<(u64, u64)> = g.projects.keys().copied().collect();
    for _round in 0..2 {
        let mut order = keys.clone();
        for i in (1..order.len()).rev() {
            let j = g.r.below(i as u64 + 1) as usize;
            order.swap(i, j);
        }
        for (u, p) in order {
            if g.projects[&(u, p)].1.is_some() {
                g.release(u, p);
            }
        }
    }
    for (u, p) in &keys {
        g.head_line(*u, *p);
    }
    for p in 1..=g.npaths {
        let m = g.gen_meta(2, None, false);
        g.lines.push(format!("pmeta {p:x} {m:x}"));
    }
    g.gen_meta(4, Some(0), false);
    for op in ["new []", "names", "best", "reload", "update 0 []", "unmodified"] {
        g.lines.push(op.to_string());
    }
    // later events
    let events = g.r.below(4);
    for _ in 0..events {
        match g.r.below(6) {
            0..=2 if !keys.is_empty() => {
                let n = 1 + g.r.below(3);
                let mut touched = BTreeSet::new();
                for _ in 0..n {
                    let (u, p) = *g.r.pick(&keys);
                    if g.projects[&(u, p)].1.is_some() && g.release(u, p) {
                        touched.insert((u, p));
                    }
                }
                for (u, p) in touched {
                    g.head_line(u, p);
                }
            }
            3 | 4 => {
                g.gen_meta(4, Some(0), false);
            }
            _ => {
                if g.npaths > 0 {
                    let p = 1 + g.r.below(g.npaths);
                    let m = g.gen_meta(2, None, false);
                    g.lines.push(format!("pmeta {p:x} {m:x}"));
                }
            }
        }
        let force = g.r.chance(1, 3);
        g.lines.push(format!("update {} []", force as u8));
        for op in ["names", "best"] {
            g.lines.push(op.to_string());
        }
        if g.r.chance(2, 3) {
            g.lines.push("update 0 []".to_string());
            g.lines.push("unmodified".to_string());
        }
        if g.r.chance(1, 2) {
            g.lines.push("reload".to_string());
            g.lines.push("update 0 []".to_string());
            g.lines.push("unmodified".to_string());
        }
        if !force && g.r.chance(1, 3) {
            g.lines.push("update 1 []".to_string());
            g.lines.push("best".to_string());
            g.lines.push("names".to_string());
        }
    }
    g.lines
}

fn run_lines(lines: &[String], log: &mut Log, scratch: &Path, cache: &Path) {
    let mut sess: Option<Sess> = None;
    for line in lines {
        if line == "reset" || sess.is_none() {
            if let Some(s) = sess.take() {
                log.add("git_commands_setup", s.disk.git_cmds);
                let _ = fs::remove_dir_all(&s.disk.dir);
            }
            sess = Some(Sess::new(scratch.join("w"), cache));
            if line == "reset" {
                log.push3("reset".into(), "ok".into(), "ok".into());
                continue;
            }
        }
        let s = sess.as_mut().unwrap();
        let (req, imp, ora) = s.exec(line, log);
        log.count(&format!("op_{}", req.split(' ').next().unwrap()));
        log.push3(req, imp, ora);
    }
    if let Some(s) = sess.take() {
        log.add("git_commands_setup", s.disk.git_cmds);
        let _ = fs::remove_dir_all(&s.disk.dir);
    }
}

pub fn main(opts: &Opts) -> i32 {
    for v in VERSIONS.windows(2) {
        assert!(Version::parse(v[0]).unwrap() < Version::parse(v[1]).unwrap(), "VERSIONS must be sorted");
    }
    if Command::new("git").arg("--version").output().map(|o| !o.status.success()).unwrap_or(true) {
        eprintln!("hx resolve: the `git` CLI is required");
        return 3;
    }
    let out = opts.out();
    let out = out.canonicalize().unwrap_or(out);
    let scratch = out.join("scratch");
    let _ = fs::remove_dir_all(&scratch);
    fs::create_dir_all(scratch.join("home")).unwrap();
    let cache = scratch.join("xdg-cache");
    fs::create_dir_all(&cache).unwrap();
    // SAFETY: single-threaded at this point.
    unsafe {
        std::env::set_var("HOME", scratch.join("home"));
        std::env::set_var("XDG_CACHE_HOME", &cache);
        std::env::set_var("XDG_CONFIG_HOME", scratch.join("home"));
        std::env::set_var("GIT_CONFIG_NOSYSTEM", "1");
        std::env::set_var("GIT_CONFIG_GLOBAL", "/dev/null");
        std::env::set_var("GIT_TERMINAL_PROMPT", "0");
        std::env::set_var("VERYL_GIT_BACKEND", "command");
    }
    assert!(veryl_path::cache_path().starts_with(&cache), "cache path must be inside the scratch directory");
    let mut log = Log::new();
    if let Some(replay) = opts.get("replay") {
        let text = fs::read_to_string(replay).expect("replay file");
        let lines: Vec<String> = text.lines().filter(|l| !l.is_empty()).map(|l| l.to_string()).collect();
        run_lines(&lines, &mut log, &scratch, &cache);
    } else {
        let mut r = Rng::new(opts.seed());
        let n = opts.num("n", 10);
        for i in 0..n {
            let lines = gen_scenario(&mut r);
            if i < 2 {
                log.sample(lines.join("; "));
            }
            run_lines(&lines, &mut log, &scratch, &cache);
        }
        log.add("sequences", n);
    }
    let _ = fs::remove_dir_all(&scratch);
    log.write(&out);
    0
}
