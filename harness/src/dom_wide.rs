//! Domain `wide` (C18, part A): calls every exported `wide_*` helper of
//! `veryl_simulator::wide_ops` (the `extern "C"` functions the JIT/AOT code calls for > 128-bit
//! values) on properly sized, deliberately unaligned buffers with canaries, 1–6 words.
//! `ops.txt`: one call per line (`<op> <scalars…> <buffers…>`, hex, buffers `[w0,w1,…]` little-endian
//! u64 words); `impl.txt`: destination buffer after the call / returned i64 in decimal;
//! `oracle.txt`: the property, computed on bit vectors (`Vec<bool>`, ripple-carry add, shift-and-add
//! multiply, index shifts) without calling the code under test — `?` where the call is outside the
//! helpers' contract (value not zero-padded to `width`, `width == 0`, …).
use crate::rng::Rng;
use crate::util::{Log, Opts};
use std::panic;
use veryl_simulator::wide_ops as w;

// ───────────────────────── raw buffers ─────────────────────────

/// A byte buffer holding `words` at a chosen misalignment, with canaries on both sides.
struct Buf {
    bytes: Vec<u8>,
    off: usize,
    n: usize,
}

const CANARY: u8 = 0xA5;
const PAD: usize = 16;

impl Buf {
    fn new(words: &[u64], misalign: usize) -> Buf {
        let n = words.len();
        let mut bytes = vec![CANARY; PAD + 8 + n * 8 + PAD];
        let base = bytes.as_ptr() as usize;
        // offset so that (base+off) % 8 == misalign
        let off = PAD + ((misalign + 8 - (base + PAD) % 8) % 8);
        for (i, x) in words.iter().enumerate() {
            bytes[off + i * 8..off + i * 8 + 8].copy_from_slice(&x.to_le_bytes());
        }
        Buf { bytes, off, n }
    }
    fn ptr(&self) -> *const u8 {
        unsafe { self.bytes.as_ptr().add(self.off) }
    }
    fn mut_ptr(&mut self) -> *mut u8 {
        unsafe { self.bytes.as_mut_ptr().add(self.off) }
    }
    fn words(&self) -> Vec<u64> {
        (0..self.n)
            .map(|i| u64::from_le_bytes(self.bytes[self.off + i * 8..self.off + i * 8 + 8].try_into().unwrap()))
            .collect()
    }
    fn canaries_ok(&self) -> bool {
        self.bytes[..self.off].iter().all(|b| *b == CANARY) && self.bytes[self.off + self.n * 8..].iter().all(|b| *b == CANARY)
    }
}

fn show_words(ws: &[u64]) -> String {
    let v: Vec<String> = ws.iter().map(|x| format!("{x:x}")).collect();
    format!("[{}]", v.join(","))
}

fn parse_words(s: &str) -> Option<Vec<u64>> {
    let inner = s.strip_prefix('[')?.strip_suffix(']')?;
    if inner.is_empty() {
        return Some(vec![]);
    }
    inner.split(',').map(|x| u64::from_str_radix(x, 16).ok()).collect()
}

fn hx(s: &str) -> Option<u64> {
    u64::from_str_radix(s, 16).ok()
}

// ───────────────────────── bit-vector oracle ─────────────────────────

type Bits = Vec<bool>;

fn bits_of(ws: &[u64]) -> Bits {
    let mut v = Vec::with_capacity(ws.len() * 64);
    for w in ws {
        for j in 0..64 {
            v.push((w >> j) & 1 == 1);
        }
    }
    v
}

fn words_of(b: &Bits) -> Vec<u64> {
    assert!(b.len() % 64 == 0);
    (0..b.len() / 64).map(|i| (0..64).fold(0u64, |acc, j| acc | ((b[i * 64 + j] as u64) << j))).collect()
}

fn b_add(a: &Bits, b: &Bits, cin: bool) -> Bits {
    let mut c = cin;
    let mut r = Vec::with_capacity(a.len());
    for i in 0..a.len() {
        let (x, y) = (a[i], b[i]);
        r.push(x ^ y ^ c);
        c = (x & y) | (c & (x ^ y));
    }
    r
}

fn b_not(a: &Bits) -> Bits {
    a.iter().map(|x| !x).collect()
}

fn b_mul(a: &Bits, b: &Bits) -> Bits {
    let n = a.len();
    let mut acc = vec![false; n];
    for i in 0..n {
        if a[i] {
            let mut sh = vec![false; n];
            for j in 0..n - i {
                sh[i + j] = b[j];
            }
            acc = b_add(&acc, &sh, false);
        }
    }
    acc
}

/// -1 / 0 / 1 of the unsigned values (same length).
fn b_ucmp(a: &Bits, b: &Bits) -> i64 {
    for i in (0..a.len()).rev() {
        if a[i] != b[i] {
            return if b[i] { -1 } else { 1 };
        }
    }
    0
}

/// signed value of the low `w` bits as (negative?, magnitude-preserving offset bits): compare helper.
fn b_scmp(a: &Bits, aw: usize, b: &Bits, bw: usize) -> i64 {
    // sign-extend both to a common length and compare with the sign bit inverted
    let len = aw.max(bw) + 1;
    let ext = |x: &Bits, w: usize| -> Bits {
        let s = x[w - 1];
        let mut v: Bits = (0..len).map(|i| if i < w { x[i] } else { s }).collect();
        let top = len - 1;
        v[top] = !v[top];
        v
    };
    b_ucmp(&ext(a, aw), &ext(b, bw))
}

fn zero_padded(a: &Bits, width: usize) -> bool {
    a.iter().skip(width).all(|x| !x)
}

// ───────────────────────── one call ─────────────────────────

struct Reply {
    imp: String,
    oracle: String,
}

fn with_tail(prefix: &[u64], d0: &[u64]) -> Vec<u64> {
    let mut v = prefix.to_vec();
    if d0.len() > v.len() {
        v.extend_from_slice(&d0[v.len()..]);
    }
    v
}

fn guarded<F: FnOnce() -> String>(f: F) -> String {
    match panic::catch_unwind(panic::AssertUnwindSafe(f)) {
        Ok(s) => s,
        Err(_) => "panic".to_string(),
    }
}

/// Is the call inside what the harness may execute on the real code without reading or writing
/// outside the buffers it owns?  (The real functions take raw pointers.)
fn safe(t: &[&str]) -> Option<()> {
    let nwords = |nb: u64| (nb / 8) as usize;
    let need = |width: u64| (width as usize).div_ceil(64);
    match t {
        ["pack", nb, wd] => {
            hx(nb)?;
            hx(wd)?;
            Some(())
        }
        [op, nb, d, a, b] if ["band", "bor", "bxor", "bxor_not", "band_not", "add", "sub", "mul"].contains(op) => {
            let n = nwords(hx(nb)?);
            (hx(nb)? <= u32::MAX as u64 && parse_words(d)?.len() >= n && parse_words(a)?.len() >= n && parse_words(b)?.len() >= n).then_some(())
        }
        [op, nb, d, a] if ["bnot", "negate", "copy"].contains(op) => {
            let n = nwords(hx(nb)?);
            (hx(nb)? <= u32::MAX as u64 && parse_words(d)?.len() >= n && parse_words(a)?.len() >= n).then_some(())
        }
        [op, nb, a, b] if ["eq", "ne", "ucmp"].contains(op) => {
            let n = nwords(hx(nb)?);
            (hx(nb)? <= u32::MAX as u64 && parse_words(a)?.len() >= n && parse_words(b)?.len() >= n).then_some(())
        }
        ["scmp", p, a, b] => {
            let p = hx(p)?;
            let (nb, wd) = (p & 0xffff, p >> 16);
            let (a, b) = (parse_words(a)?, parse_words(b)?);
            (p <= u32::MAX as u64 && (wd == 0 || nb == 0 || (a.len() >= nwords(nb).max(need(wd)) && b.len() >= nwords(nb).max(need(wd))))).then_some(())
        }
        ["scmp_asym", pa, pb, a, b] => {
            let (pa, pb) = (hx(pa)?, hx(pb)?);
            let (anb, aw, bnb, bw) = (pa & 0xffff, pa >> 16, pb & 0xffff, pb >> 16);
            let (a, b) = (parse_words(a)?, parse_words(b)?);
            (pa <= u32::MAX as u64
                && pb <= u32::MAX as u64
                && (aw == 0 || bw == 0 || anb == 0 || bnb == 0 || (a.len() >= need(aw) && b.len() >= need(bw))))
            .then_some(())
        }
        [op, nb, amt, d, a] if ["shl", "lshr"].contains(op) => {
            let n = nwords(hx(nb)?);
            hx(amt)?;
            (hx(nb)? <= u32::MAX as u64 && parse_words(d)?.len() >= n && parse_words(a)?.len() >= n).then_some(())
        }
        ["ashr", p, amt, d, a] => {
            let p = hx(p)?;
            hx(amt)?;
            let (nb, wd) = (p & 0xffff, p >> 16);
            let (d, a) = (parse_words(d)?, parse_words(a)?);
            (p <= u32::MAX as u64 && (wd == 0 || nb == 0 || (a.len() >= nwords(nb).max(need(wd)) && d.len() >= nwords(nb)))).then_some(())
        }
        ["is_nonzero", nb, a] | ["popcnt_parity", nb, a] => {
            (hx(nb)? <= u32::MAX as u64 && parse_words(a)?.len() >= nwords(hx(nb)?)).then_some(())
        }
        ["is_all_ones", p, a] => {
            let p = hx(p)?;
            (p <= u32::MAX as u64 && parse_words(a)?.len() >= need(p >> 16)).then_some(())
        }
        ["apply_mask", p, d] | ["fill_ones", p, d] => {
            let p = hx(p)?;
            (p <= u32::MAX as u64 && parse_words(d)?.len() >= nwords(p & 0xffff)).then_some(())
        }
        ["resize", info, dnb, d, s] => {
            let (info, dnb) = (hx(info)?, hx(dnb)?);
            let sw = (info & 0xffff_ffff) >> 16;
            (dnb <= u32::MAX as u64 && parse_words(d)?.len() >= nwords(dnb) && parse_words(s)?.len() >= need(sw)).then_some(())
        }
        _ => None,
    }
}

fn exec(line: &str, mis: &mut Rng) -> Reply {
    let t: Vec<&str> = line.split(' ').filter(|x| !x.is_empty()).collect();
    if safe(&t).is_none() {
        return Reply { imp: "bad-op".into(), oracle: "?".into() };
    }
    let m = |r: &mut Rng| *r.pick(&[0usize, 1, 2, 4, 4, 7]);
    let (ma, mb, md) = (m(mis), m(mis), m(mis));
    let nwords = |nb: u64| (nb / 8) as usize;
    type F3 = unsafe extern "C" fn(*mut u8, *const u8, *const u8, u32);
    type F2 = unsafe extern "C" fn(*mut u8, *const u8, u32);
    type FC = unsafe extern "C" fn(*const u8, *const u8, u32) -> i64;
    let fin = |dst: &Buf, others: &[&Buf]| -> String {
        if dst.canaries_ok() && others.iter().all(|b| b.canaries_ok()) { show_words(&dst.words()) } else { "oob-write".into() }
    };
    match t.as_slice() {
        ["pack", nb, wd] => {
            let (nb, wd) = (hx(nb).unwrap(), hx(wd).unwrap());
            let imp = guarded(|| format!("{:x}", w::pack_nb_width(nb as usize, wd as usize)));
            let oracle = if nb < 65536 && wd < 65536 { format!("{:x}", nb + wd * 65536) } else { "panic".into() };
            Reply { imp, oracle }
        }
        [op, nb, d, a, b] if ["band", "bor", "bxor", "bxor_not", "band_not", "add", "sub", "mul"].contains(op) => {
            let nb = hx(nb).unwrap();
            let n = nwords(nb);
            let (d0, av, bv) = (parse_words(d).unwrap(), parse_words(a).unwrap(), parse_words(b).unwrap());
            let f: F3 = match *op {
                "band" => w::wide_band,
                "bor" => w::wide_bor,
                "bxor" => w::wide_bxor,
                "bxor_not" => w::wide_bxor_not,
                "band_not" => w::wide_band_not,
                "add" => w::wide_add,
                "sub" => w::wide_sub,
                _ => w::wide_mul,
            };
            let (mut db, ab, bb) = (Buf::new(&d0, md), Buf::new(&av, ma), Buf::new(&bv, mb));
            let imp = guarded(|| {
                unsafe { f(db.mut_ptr(), ab.ptr(), bb.ptr(), nb as u32) };
                fin(&db, &[&ab, &bb])
            });
            let (x, y) = (bits_of(&av[..n]), bits_of(&bv[..n]));
            let r: Bits = match *op {
                "band" => x.iter().zip(&y).map(|(p, q)| p & q).collect(),
                "bor" => x.iter().zip(&y).map(|(p, q)| p | q).collect(),
                "bxor" => x.iter().zip(&y).map(|(p, q)| p ^ q).collect(),
                "bxor_not" => x.iter().zip(&y).map(|(p, q)| !(p ^ q)).collect(),
                "band_not" => x.iter().zip(&y).map(|(p, q)| p & !q).collect(),
                "add" => b_add(&x, &y, false),
                "sub" => b_add(&x, &b_not(&y), true),
                _ => b_mul(&x, &y),
            };
            Reply { imp, oracle: show_words(&with_tail(&words_of(&r), &d0)) }
        }
        [op, nb, d, a] if ["bnot", "negate", "copy"].contains(op) => {
            let nb = hx(nb).unwrap();
            let n = nwords(nb);
            let (d0, av) = (parse_words(d).unwrap(), parse_words(a).unwrap());
            let f: F2 = match *op {
                "bnot" => w::wide_bnot,
                "negate" => w::wide_negate,
                _ => w::wide_copy,
            };
            let (mut db, ab) = (Buf::new(&d0, md), Buf::new(&av, ma));
            let imp = guarded(|| {
                unsafe { f(db.mut_ptr(), ab.ptr(), nb as u32) };
                fin(&db, &[&ab])
            });
            let x = bits_of(&av[..n]);
            let r = match *op {
                "bnot" => b_not(&x),
                "negate" => b_add(&b_not(&x), &vec![false; x.len()], true),
                _ => x,
            };
            Reply { imp, oracle: show_words(&with_tail(&words_of(&r), &d0)) }
        }
        [op, nb, a, b] if ["eq", "ne", "ucmp"].contains(op) => {
            let nb = hx(nb).unwrap();
            let n = nwords(nb);
            let (av, bv) = (parse_words(a).unwrap(), parse_words(b).unwrap());
            let f: FC = match *op {
                "eq" => w::wide_eq,
                "ne" => w::wide_ne,
                _ => w::wide_ucmp,
            };
            let (ab, bb) = (Buf::new(&av, ma), Buf::new(&bv, mb));
            let imp = guarded(|| format!("{}", unsafe { f(ab.ptr(), bb.ptr(), nb as u32) }));
            let c = b_ucmp(&bits_of(&av[..n]), &bits_of(&bv[..n]));
            let o = match *op {
                "eq" => (c == 0) as i64,
                "ne" => (c != 0) as i64,
                _ => c,
            };
            Reply { imp, oracle: format!("{o}") }
        }
        ["scmp", p, a, b] => {
            let p = hx(p).unwrap();
            let (nb, wd) = (p & 0xffff, (p >> 16) as usize);
            let (av, bv) = (parse_words(a).unwrap(), parse_words(b).unwrap());
            let (ab, bb) = (Buf::new(&av, ma), Buf::new(&bv, mb));
            let imp = guarded(|| format!("{}", unsafe { w::wide_scmp(ab.ptr(), bb.ptr(), p as u32) }));
            let n = nwords(nb);
            let oracle = if wd == 0 || nb == 0 || wd > 64 * n {
                "?".to_string()
            } else {
                let (x, y) = (bits_of(&av[..n]), bits_of(&bv[..n]));
                if zero_padded(&x, wd) && zero_padded(&y, wd) { format!("{}", b_scmp(&x, wd, &y, wd)) } else { "?".into() }
            };
            Reply { imp, oracle }
        }
        ["scmp_asym", pa, pb, a, b] => {
            let (pa, pb) = (hx(pa).unwrap(), hx(pb).unwrap());
            let (anb, aw, bnb, bw) = (pa & 0xffff, (pa >> 16) as usize, pb & 0xffff, (pb >> 16) as usize);
            let (av, bv) = (parse_words(a).unwrap(), parse_words(b).unwrap());
            let (ab, bb) = (Buf::new(&av, ma), Buf::new(&bv, mb));
            let imp = guarded(|| format!("{}", unsafe { w::wide_scmp_asym(ab.ptr(), bb.ptr(), pa as u32, pb as u32) }));
            let words = nwords(anb).max(nwords(bnb));
            let oracle = if aw == 0 || bw == 0 || anb == 0 || bnb == 0 || aw > 64 * words || bw > 64 * words {
                "?".to_string()
            } else {
                format!("{}", b_scmp(&bits_of(&av), aw, &bits_of(&bv), bw))
            };
            Reply { imp, oracle }
        }
        [op, nb, amt, d, a] if ["shl", "lshr"].contains(op) => {
            let (nb, amt) = (hx(nb).unwrap(), hx(amt).unwrap());
            let n = nwords(nb);
            let (d0, av) = (parse_words(d).unwrap(), parse_words(a).unwrap());
            let (mut db, ab) = (Buf::new(&d0, md), Buf::new(&av, ma));
            let left = *op == "shl";
            let imp = guarded(|| {
                unsafe {
                    if left { w::wide_shl(db.mut_ptr(), ab.ptr(), amt, nb as u32) } else { w::wide_lshr(db.mut_ptr(), ab.ptr(), amt, nb as u32) }
                };
                fin(&db, &[&ab])
            });
            let x = bits_of(&av[..n]);
            let len = x.len() as u64;
            let r: Bits = (0..len)
                .map(|i| {
                    if left {
                        i >= amt && x[(i - amt) as usize]
                    } else {
                        match i.checked_add(amt) {
                            Some(j) if j < len => x[j as usize],
                            _ => false,
                        }
                    }
                })
                .collect();
            Reply { imp, oracle: show_words(&with_tail(&words_of(&r), &d0)) }
        }
        ["ashr", p, amt, d, a] => {
            let (p, amt) = (hx(p).unwrap(), hx(amt).unwrap());
            let (nb, wd) = (p & 0xffff, (p >> 16) as usize);
            let n = nwords(nb);
            let (d0, av) = (parse_words(d).unwrap(), parse_words(a).unwrap());
            let (mut db, ab) = (Buf::new(&d0, md), Buf::new(&av, ma));
            let imp = guarded(|| {
                unsafe { w::wide_ashr(db.mut_ptr(), ab.ptr(), amt, p as u32) };
                fin(&db, &[&ab])
            });
            let oracle = if nb == 0 || wd == 0 || wd > 64 * n {
                "?".to_string()
            } else {
                let x = bits_of(&av[..n]);
                if !zero_padded(&x, wd) {
                    "?".to_string()
                } else {
                    let s = x[wd - 1];
                    let r: Bits = (0..x.len() as u64)
                        .map(|i| {
                            if i >= wd as u64 {
                                false
                            } else {
                                match i.checked_add(amt) {
                                    Some(j) if j < wd as u64 => x[j as usize],
                                    _ => s,
                                }
                            }
                        })
                        .collect();
                    show_words(&with_tail(&words_of(&r), &d0))
                }
            };
            Reply { imp, oracle }
        }
        ["is_nonzero", nb, a] | ["popcnt_parity", nb, a] => {
            let nb = hx(nb).unwrap();
            let n = nwords(nb);
            let av = parse_words(a).unwrap();
            let ab = Buf::new(&av, ma);
            let nz = t[0] == "is_nonzero";
            let imp = guarded(|| format!("{}", unsafe { if nz { w::wide_is_nonzero(ab.ptr(), nb as u32) } else { w::wide_popcnt_parity(ab.ptr(), nb as u32) } }));
            let x = bits_of(&av[..n]);
            let ones = x.iter().filter(|b| **b).count();
            Reply { imp, oracle: format!("{}", if nz { (ones > 0) as i64 } else { (ones % 2) as i64 }) }
        }
        ["is_all_ones", p, a] => {
            let p = hx(p).unwrap();
            let wd = (p >> 16) as usize;
            let av = parse_words(a).unwrap();
            let ab = Buf::new(&av, ma);
            let imp = guarded(|| format!("{}", unsafe { w::wide_is_all_ones(ab.ptr(), p as u32) }));
            let x = bits_of(&av);
            Reply { imp, oracle: format!("{}", x[..wd].iter().all(|b| *b) as i64) }
        }
        ["apply_mask", p, d] | ["fill_ones", p, d] => {
            let p = hx(p).unwrap();
            let (nb, wd) = (p & 0xffff, (p >> 16) as usize);
            let n = nwords(nb);
            let d0 = parse_words(d).unwrap();
            let mut db = Buf::new(&d0, md);
            let mask = t[0] == "apply_mask";
            let imp = guarded(|| {
                unsafe { if mask { w::wide_apply_mask(db.mut_ptr(), std::ptr::null(), p as u32) } else { w::wide_fill_ones(db.mut_ptr(), std::ptr::null(), p as u32) } };
                fin(&db, &[])
            });
            let oracle = if mask && (wd == 0 || nb == 0) {
                "?".to_string()
            } else {
                let x = bits_of(&d0[..n]);
                let r: Bits = (0..x.len()).map(|i| if mask { i < wd && x[i] } else { i < wd }).collect();
                show_words(&with_tail(&words_of(&r), &d0))
            };
            Reply { imp, oracle }
        }
        ["resize", info, dnb, d, s] => {
            let (info, dnb) = (hx(info).unwrap(), hx(dnb).unwrap());
            let sw = ((info & 0xffff_ffff) >> 16) as usize;
            let signed = (info >> 32) & 1 == 1;
            let m = nwords(dnb);
            let (d0, sv) = (parse_words(d).unwrap(), parse_words(s).unwrap());
            let (mut db, sb) = (Buf::new(&d0, md), Buf::new(&sv, ma));
            let imp = guarded(|| {
                unsafe { w::wide_resize(db.mut_ptr(), sb.ptr(), info, dnb as u32) };
                fin(&db, &[&sb])
            });
            let x = bits_of(&sv);
            let sign = signed && sw > 0 && x[sw - 1];
            let r: Bits = (0..m * 64).map(|i| if i < sw { x[i] } else { sign }).collect();
            Reply { imp, oracle: show_words(&with_tail(&words_of(&r), &d0)) }
        }
        _ => Reply { imp: "bad-op".into(), oracle: "?".into() },
    }
}

// ───────────────────────── generator ─────────────────────────

const WIDTHS: &[usize] = &[1, 2, 31, 32, 33, 63, 64, 65, 127, 128, 129, 191, 192, 193, 255, 256, 257, 300, 319, 320, 383, 384];

fn gen_n(r: &mut Rng) -> usize {
    *r.pick(&[1usize, 1, 2, 2, 3, 3, 4, 5, 5, 6])
}

fn gen_width(r: &mut Rng, n: usize) -> usize {
    let max = 64 * n;
    if r.chance(2, 3) {
        let c: Vec<usize> = WIDTHS.iter().copied().filter(|w| *w <= max).collect();
        *r.pick(&c)
    } else {
        r.range(1, max as u64) as usize
    }
}

/// `n` words; pattern chosen from the boundary set; bits at and above `width` cleared iff `pad`.
fn gen_val(r: &mut Rng, n: usize, width: usize, pad: bool) -> Vec<u64> {
    let mut v = vec![0u64; n];
    let w = width.min(64 * n).max(1);
    match r.below(9) {
        0 => {}
        1 => v[0] = 1,
        2 => v.iter_mut().for_each(|x| *x = u64::MAX),
        3 => v[(w - 1) / 64] = 1u64 << ((w - 1) % 64),
        4 => {
            v.iter_mut().for_each(|x| *x = u64::MAX);
            v[(w - 1) / 64] &= !(1u64 << ((w - 1) % 64));
        }
        5 => v.iter_mut().for_each(|x| *x = 0xAAAA_AAAA_AAAA_AAAA),
        6 => {
            for x in v.iter_mut() {
                *x = match r.below(4) {
                    0 => 0,
                    1 => u64::MAX,
                    2 => 1u64 << r.below(64),
                    _ => r.next(),
                }
            }
        }
        _ => v.iter_mut().for_each(|x| *x = r.next()),
    }
    if pad {
        for i in 0..n {
            if i * 64 >= width {
                v[i] = 0;
            } else if width - i * 64 < 64 {
                v[i] &= (1u64 << (width - i * 64)) - 1;
            }
        }
    }
    v
}

fn gen_val_rp(r: &mut Rng, n: usize, width: usize) -> Vec<u64> {
    let pad = r.chance(1, 2);
    gen_val(r, n, width, pad)
}

fn near(r: &mut Rng, other: &[u64]) -> Vec<u64> {
    // a value equal to / differing in one bit from `other` (comparison corner cases)
    let mut v = other.to_vec();
    if r.chance(1, 2) && !v.is_empty() {
        let i = r.below(v.len() as u64) as usize;
        v[i] ^= 1u64 << r.below(64);
    }
    v
}

fn gen_amount(r: &mut Rng, n: usize, width: usize) -> u64 {
    let tot = 64 * n as u64;
    match r.below(10) {
        0 => 0,
        1 => *r.pick(&[1u64, 63, 64, 65, 127, 128, 129]),
        2 => width as u64,
        3 => (width as u64).saturating_sub(1),
        4 => width as u64 + 1,
        5 => *r.pick(&[tot - 1, tot, tot + 1, tot + 64]),
        6 => *r.pick(&[u64::MAX, 1u64 << 63, 1u64 << 32, (1u64 << 32) + 3]),
        _ => r.below(tot + 8),
    }
}

fn gen_dst(r: &mut Rng, n: usize) -> Vec<u64> {
    let extra = *r.pick(&[0usize, 0, 1, 2]);
    (0..n + extra).map(|_| if r.chance(1, 4) { 0 } else { r.next() }).collect()
}

const OPS: &[(&str, u64)] = &[
    ("add", 8), ("sub", 8), ("mul", 8), ("negate", 5), ("shl", 8), ("lshr", 8), ("ashr", 10), ("ucmp", 6), ("scmp", 8),
    ("scmp_asym", 10), ("resize", 10), ("is_all_ones", 5), ("is_nonzero", 3), ("popcnt_parity", 4), ("apply_mask", 5),
    ("fill_ones", 5), ("band", 2), ("bor", 2), ("bxor", 2), ("bxor_not", 2), ("band_not", 2), ("bnot", 2), ("copy", 2),
    ("eq", 3), ("ne", 3), ("pack", 1),
];

fn gen_line(r: &mut Rng, log: &mut Log) -> String {
    let total: u64 = OPS.iter().map(|x| x.1).sum();
    let mut k = r.below(total);
    let mut op = OPS[0].0;
    for (o, wgt) in OPS {
        if k < *wgt {
            op = o;
            break;
        }
        k -= wgt;
    }
    let n = gen_n(r);
    let nb = 8 * n;
    let width = gen_width(r, n);
    log.count(&format!("op.{op}"));
    log.count(&format!("words.{n}"));
    let pack = |nb: usize, w: usize| -> u64 { (nb as u64) | ((w as u64) << 16) };
    let pad = !r.chance(1, 8);
    match op {
        "pack" => {
            let a = *r.pick(&[0u64, 8, 40, 65535, 65536, 1 << 20]);
            let b = *r.pick(&[0u64, 1, 300, 65535, 65536, 70000]);
            format!("pack {a:x} {b:x}")
        }
        "band" | "bor" | "bxor" | "bxor_not" | "band_not" | "add" | "sub" | "mul" => {
            let a = gen_val_rp(r, n, width);
            let b = if r.chance(1, 6) { near(r, &a) } else { gen_val_rp(r, n, width) };
            format!("{op} {nb:x} {} {} {}", show_words(&gen_dst(r, n)), show_words(&a), show_words(&b))
        }
        "bnot" | "negate" | "copy" => {
            let a = gen_val_rp(r, n, width);
            format!("{op} {nb:x} {} {}", show_words(&gen_dst(r, n)), show_words(&a))
        }
        "eq" | "ne" | "ucmp" => {
            let a = gen_val_rp(r, n, width);
            let b = if r.chance(1, 2) { near(r, &a) } else { gen_val_rp(r, n, width) };
            format!("{op} {nb:x} {} {}", show_words(&a), show_words(&b))
        }
        "scmp" => {
            log.count(&format!("width.{}", wclass(width)));
            if r.chance(1, 30) {
                // early-return paths
                let p = if r.chance(1, 2) { pack(nb, 0) } else { pack(0, width) };
                return format!("scmp {p:x} {} {}", show_words(&gen_val(r, n, width, true)), show_words(&gen_val(r, n, width, true)));
            }
            let a = gen_val(r, n, width, pad);
            let b = if r.chance(1, 3) { near(r, &a) } else { gen_val(r, n, width, pad) };
            let b = if pad { mask_to(&b, width) } else { b };
            format!("scmp {:x} {} {}", pack(nb, width), show_words(&a), show_words(&b))
        }
        "scmp_asym" => {
            let (na, nb2) = if r.chance(3, 4) { (n, n) } else { (n, gen_n(r)) };
            let aw = gen_width(r, na);
            let bw = if r.chance(1, 4) { aw.min(64 * nb2) } else { gen_width(r, nb2) };
            log.count(&format!("width.{}", wclass(aw)));
            let a = gen_val(r, na, aw, pad);
            let b = if na == nb2 && r.chance(1, 3) { near(r, &a) } else { gen_val(r, nb2, bw, pad) };
            if r.chance(1, 30) {
                return format!("scmp_asym {:x} {:x} {} {}", pack(8 * na, 0), pack(8 * nb2, bw), show_words(&a), show_words(&b));
            }
            format!("scmp_asym {:x} {:x} {} {}", pack(8 * na, aw), pack(8 * nb2, bw), show_words(&a), show_words(&b))
        }
        "shl" | "lshr" => {
            let a = gen_val_rp(r, n, width);
            let amt = gen_amount(r, n, width);
            log.count(&format!("amount.{}", aclass(amt, 64 * n)));
            format!("{op} {nb:x} {amt:x} {} {}", show_words(&gen_dst(r, n)), show_words(&a))
        }
        "ashr" => {
            log.count(&format!("width.{}", wclass(width)));
            let a = gen_val(r, n, width, pad);
            let amt = gen_amount(r, n, width);
            log.count(&format!("amount.{}", aclass(amt, width)));
            let p = if r.chance(1, 30) { if r.chance(1, 2) { pack(nb, 0) } else { pack(0, width) } } else { pack(nb, width) };
            format!("ashr {p:x} {amt:x} {} {}", show_words(&gen_dst(r, n)), show_words(&a))
        }
        "is_nonzero" | "popcnt_parity" => {
            let a = gen_val_rp(r, n, width);
            format!("{op} {nb:x} {}", show_words(&a))
        }
        "is_all_ones" => {
            log.count(&format!("width.{}", wclass(width)));
            let mut a = vec![u64::MAX; n];
            match r.below(4) {
                0 => a = gen_val_rp(r, n, width),
                1 => {
                    let b = r.below(64 * n as u64) as usize; // clear one bit anywhere
                    a[b / 64] &= !(1u64 << (b % 64));
                }
                2 => a = mask_to(&a, width),
                _ => {
                    a = mask_to(&a, width);
                    let b = r.below(width as u64) as usize;
                    a[b / 64] &= !(1u64 << (b % 64));
                }
            }
            let p = if r.chance(1, 30) { pack(nb, 0) } else { pack(nb, width) };
            format!("is_all_ones {p:x} {}", show_words(&a))
        }
        "apply_mask" | "fill_ones" => {
            // width may exceed the buffer (guards `full_words < n`), or be 0
            let wd = match r.below(8) {
                0 => 0,
                1 => 64 * n + r.below(130) as usize,
                _ => width,
            };
            log.count(&format!("width.{}", wclass(wd)));
            let p = if r.chance(1, 30) { pack(0, wd) } else { pack(nb, wd) };
            format!("{op} {p:x} {}", show_words(&gen_dst(r, n)))
        }
        _ => {
            // resize
            let sn = n;
            let sw = if r.chance(1, 30) { 0 } else { width };
            log.count(&format!("width.{}", wclass(sw)));
            let src_words = if r.chance(1, 2) { sw.div_ceil(64).max(1) } else { sn };
            let s = gen_val(r, src_words, sw.max(1), pad);
            let m = gen_n(r);
            let signed = r.chance(1, 2) as u64;
            let info = pack(8 * src_words, sw) | (signed << 32) | if r.chance(1, 10) { r.next() << 33 } else { 0 };
            format!("resize {info:x} {:x} {} {}", 8 * m, show_words(&gen_dst(r, m)), show_words(&s))
        }
    }
}

fn mask_to(v: &[u64], width: usize) -> Vec<u64> {
    v.iter()
        .enumerate()
        .map(|(i, x)| if i * 64 >= width { 0 } else if width - i * 64 < 64 { x & ((1u64 << (width - i * 64)) - 1) } else { *x })
        .collect()
}

fn wclass(w: usize) -> &'static str {
    match w {
        0 => "0",
        1..=64 => if w % 64 == 0 { "64" } else { "1-63" },
        65..=128 => if w % 64 == 0 { "128" } else { "65-127" },
        _ => if w % 64 == 0 { "aligned>128" } else { "unaligned>128" },
    }
}

fn aclass(a: u64, w: usize) -> &'static str {
    let w = w as u64;
    if a == 0 { "0" } else if a < w { if a % 64 == 0 { "word-multiple<width" } else { "<width" } } else if a == w { "=width" } else if a < (1 << 16) { ">width" } else { "huge" }
}

pub fn main(opts: &Opts) -> i32 {
    panic::set_hook(Box::new(|_| {}));
    let mut r = Rng::new(opts.seed());
    let mut mis = r.fork();
    let mut log = Log::new();
    let lines: Vec<String> = if let Some(f) = opts.get("replay") {
        std::fs::read_to_string(f).unwrap_or_default().lines().map(|x| x.to_string()).collect()
    } else {
        let n = opts.num("n", 1000);
        let mut v = Vec::with_capacity(n as usize);
        for i in 0..n {
            // a small malformed stream (unknown op, wrong arity, word too large, undersized buffer)
            if i % 97 == 96 {
                log.count("op.malformed");
                v.push(r.pick(&["frob 10 [0] [0]", "add 10 [0,0] [1]", "add 10 [0,0] [1,2] [3]", "shl 8 1 [0] [10000000000000000]", "ucmp zz [0] [0]", "scmp 410008 [1] [1]"]).to_string());
            } else {
                v.push(gen_line(&mut r, &mut log));
            }
        }
        v
    };
    for l in &lines {
        let rep = exec(l, &mut mis);
        if rep.oracle != "?" {
            log.count("oracle.checked");
        }
        if rep.imp == "panic" {
            log.count("impl.panic");
        }
        if log.samples.len() < 5 && l.len() < 140 {
            log.sample(format!("{l} => {}", rep.imp));
        }
        log.push3(l.clone(), rep.imp, rep.oracle);
    }
    log.add("sequences", lines.len() as u64);
    log.write(&opts.out());
    0
}
