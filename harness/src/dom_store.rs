//! Domain `store` (C29): random operation sequences on the real `veryl_cache::Store` in a temp
//! directory. Requests go to `ops.txt`, the implementation's replies to `impl.txt`, and the
//! replies of an abstract versioned key-value map (the property's own words) to `oracle.txt`.
use crate::rng::Rng;
use crate::util::{Log, Opts};
use std::collections::BTreeMap;
use std::fs;
use std::path::Path;
use veryl_cache::{FileEntry, Store};

#[derive(Clone, Default, PartialEq)]
struct Abs {
    hash: String,
    frag: Option<String>,
    deps: Vec<String>,
    tests: Vec<String>,
    diag: Option<String>,
}

fn show_list(xs: &[String]) -> String {
    format!("[{}]", xs.join(","))
}

fn show_abs(e: &Abs) -> String {
    let f = |x: &Option<String>| match x {
        None => "-".to_string(),
        Some(x) => format!("={x}"),
    };
    format!(
        "hash={} frag={} deps={} tests={} diag={}",
        e.hash,
        f(&e.frag),
        show_list(&e.deps),
        show_list(&e.tests),
        f(&e.diag)
    )
}

fn show_impl(store: &Store, e: &FileEntry) -> String {
    let f = |x: Option<Vec<u8>>| match x {
        None => "-".to_string(),
        Some(x) => format!("={}", String::from_utf8_lossy(&x)),
    };
    format!(
        "hash={} frag={} deps={} tests={} diag={}",
        e.hash,
        f(store.load(e)),
        show_list(&e.dependents),
        show_list(&e.tests),
        f(store.load_diagnostics(e))
    )
}

fn count_blobs(root: &Path) -> usize {
    let mut n = 0;
    if let Ok(dirs) = fs::read_dir(root.join("fragments")) {
        for dir in dirs.flatten() {
            if let Ok(files) = fs::read_dir(dir.path()) {
                n += files.flatten().count();
            }
        }
    }
    n
}

const PATHS: &[&str] = &["a.veryl", "b.veryl", "c.veryl", "sub/d.veryl", "e.veryl"];
const HASHES: &[&str] = &["h0", "h1", "h2", "h3"];
const PAYLOADS: &[&str] = &["p0", "p1", "p2", "VFRG", "VFRGxx", "00ff", "z"];
const KEYS: &[&str] = &["k0", "k1", "k2"];

fn gen_list(r: &mut Rng) -> Vec<String> {
    let n = r.below(3);
    (0..n).map(|_| r.pick(PATHS).to_string()).collect()
}

struct Seq {
    root: std::path::PathBuf,
    store: Option<Store>,
    key: String,
    cur: BTreeMap<String, Abs>,
    next: BTreeMap<String, Abs>,
    saved: Option<(String, BTreeMap<String, Abs>)>,
}

impl Seq {
    fn apply(&mut self, op: &str, log: &mut Log) {
        let t: Vec<&str> = op.split(' ').collect();
        let mut oracle = "ok".to_string();
        let imp = match (t[0], self.store.as_mut()) {
            ("open", _) => {
                self.store = None; // release the lock first (drop)
                self.store = Some(Store::open(&self.root, t[1]));
                self.key = t[1].to_string();
                self.cur = match &self.saved {
                    Some((k, m)) if k == t[1] => m.clone(),
                    _ => BTreeMap::new(),
                };
                self.next.clear();
                "ok".to_string()
            }
            ("drop", _) => {
                self.store = None;
                "ok".to_string()
            }
            ("blobs", _) => {
                oracle = "?".to_string();
                format!(
                    "blobs={} manifest={}",
                    count_blobs(&self.root),
                    if self.root.join("manifest.toml").exists() { 1 } else { 0 }
                )
            }
            (_, None) => {
                oracle = "bad-op".to_string();
                "bad-op".to_string()
            }
            ("entry", Some(s)) => {
                oracle = match self.cur.get(t[1]) {
                    None => "none".to_string(),
                    Some(e) => show_abs(e),
                };
                match s.entry(t[1]) {
                    None => "none".to_string(),
                    Some(e) => show_impl(s, e),
                }
            }
            ("put", Some(s)) => {
                let blob = if t[3] == "-" { None } else { Some(t[3].as_bytes()) };
                s.put(t[1].to_string(), t[2].to_string(), blob);
                self.next.insert(
                    t[1].to_string(),
                    Abs { hash: t[2].to_string(), frag: blob.map(|_| t[3].to_string()), ..Default::default() },
                );
                "ok".to_string()
            }
            ("setdiag", Some(s)) => {
                s.set_diagnostics(t[1], t[2].as_bytes());
                if let Some(e) = self.next.get_mut(t[1]) {
                    if e.frag.is_some() {
                        e.diag = Some(t[2].to_string());
                    }
                }
                "ok".to_string()
            }
            ("keep", Some(s)) => {
                s.keep(t[1]);
                if let Some(e) = self.cur.get(t[1]) {
                    self.next.insert(t[1].to_string(), e.clone());
                }
                "ok".to_string()
            }
            ("inval", Some(s)) => {
                s.invalidate(t[1]);
                if let Some(e) = self.next.get_mut(t[1]) {
                    e.frag = None;
                }
                "ok".to_string()
            }
            ("deps", Some(s)) => {
                let l = parse_list(t[2]);
                s.set_dependents(t[1], l.clone());
                if let Some(e) = self.next.get_mut(t[1]) {
                    e.deps = l;
                }
                "ok".to_string()
            }
            ("tests", Some(s)) => {
                let l = parse_list(t[2]);
                s.set_tests(t[1], l.clone());
                if let Some(e) = self.next.get_mut(t[1]) {
                    e.tests = l;
                }
                "ok".to_string()
            }
            ("save", Some(s)) => {
                s.save();
                let m = std::mem::take(&mut self.next);
                self.cur = m.clone();
                self.saved = Some((self.key.clone(), m));
                "ok".to_string()
            }
            _ => {
                oracle = "bad-op".to_string();
                "bad-op".to_string()
            }
        };
        log.push3(op.to_string(), imp, oracle);
    }
}

fn parse_list(s: &str) -> Vec<String> {
    let inner = &s[1..s.len() - 1];
    if inner.is_empty() { vec![] } else { inner.split(',').map(|x| x.to_string()).collect() }
}

fn gen_op(r: &mut Rng, opened: bool, focus: &str) -> String {
    if !opened {
        return format!("open {}", if r.chance(4, 5) { KEYS[0] } else { r.pick(KEYS) });
    }
    // most operations of a sequence hit one "focus" path, so that multi-step combinations on
    // ONE entry (put+setdiag+inval+save, keep after key change, …) are frequent
    let p = if r.chance(3, 5) { focus } else { *r.pick(PATHS) };
    match r.below(26) {
        22..=23 => format!("inval {p}"),
        24..=25 => format!("setdiag {p} {}", r.pick(PAYLOADS)),
        0..=4 => {
            let b = if r.chance(1, 4) { "-" } else { r.pick(PAYLOADS) };
            format!("put {p} {} {b}", r.pick(HASHES))
        }
        5..=7 => format!("keep {p}"),
        8 => format!("inval {p}"),
        9 => format!("deps {p} {}", show_list(&gen_list(r))),
        10 => format!("tests {p} {}", show_list(&gen_list(r))),
        11..=12 => format!("setdiag {p} {}", r.pick(PAYLOADS)),
        13..=15 => "save".to_string(),
        16..=17 => format!("entry {p}"),
        18 => "blobs".to_string(),
        19 => "drop".to_string(),
        _ => format!("open {}", if r.chance(3, 4) { KEYS[0] } else { r.pick(KEYS) }),
    }
}

/// Runs one sequence; after it, reopens with every key and queries every path (the property's
/// observation), then counts blob files.
fn run_seq(ops: &[String], log: &mut Log, scratch: &Path, idx: usize) {
    let root = scratch.join(format!("s{idx}"));
    let _ = fs::remove_dir_all(&root);
    let mut seq = Seq {
        root: root.join("cache"),
        store: None,
        key: String::new(),
        cur: BTreeMap::new(),
        next: BTreeMap::new(),
        saved: None,
    };
    log.push3("reset".to_string(), "ok".to_string(), "ok".to_string());
    for op in ops {
        seq.apply(op, log);
    }
    seq.store = None;
    let _ = fs::remove_dir_all(&root);
}

pub fn gen_seq(r: &mut Rng, max_len: u64) -> Vec<String> {
    let len = r.range(3, max_len);
    let mut ops = vec![];
    let mut opened = false;
    let rescan = r.chance(1, 3);
    let focus = *r.pick(PATHS);
    for _ in 0..len {
        let op = gen_op(r, opened, focus);
        if op.starts_with("open") {
            opened = true;
        }
        if op == "drop" {
            opened = false;
        }
        ops.push(op);
    }
    if rescan {
        // identical re-scan: keep everything and save twice
        if !opened {
            ops.push(format!("open {}", KEYS[0]));
        }
        ops.push("save".to_string());
        for p in PATHS {
            ops.push(format!("keep {p}"));
        }
        ops.push("save".to_string());
        ops.push("blobs".to_string());
    }
    // final observation
    for k in KEYS {
        ops.push(format!("open {k}"));
        for p in PATHS {
            ops.push(format!("entry {p}"));
        }
    }
    ops.push("blobs".to_string());
    ops
}

pub fn main(opts: &Opts) -> i32 {
    let out = opts.out();
    let mut log = Log::new();
    let scratch = out.join("scratch");
    let _ = fs::create_dir_all(&scratch);
    if let Some(replay) = opts.get("replay") {
        let text = fs::read_to_string(replay).expect("replay file");
        let ops: Vec<String> =
            text.lines().filter(|l| !l.is_empty() && *l != "reset").map(|l| l.to_string()).collect();
        run_seq(&ops, &mut log, &scratch, 0);
    } else {
        let mut r = Rng::new(opts.seed());
        let n = opts.num("n", 500);
        let max_len = opts.num("len", 25);
        for i in 0..n {
            let ops = gen_seq(&mut r, max_len);
            for op in &ops {
                log.count(&format!("op_{}", op.split(' ').next().unwrap()));
            }
            if i < 2 {
                log.sample(ops.join("; "));
            }
            run_seq(&ops, &mut log, &scratch, i as usize);
        }
        log.add("sequences", n);
    }
    let _ = fs::remove_dir_all(&scratch);
    log.write(&out);
    0
}
