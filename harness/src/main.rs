//! `hx <domain> [args…]` — differential harness. Each domain writes request lines (`ops.txt`)
//! and the implementation's replies (`impl.txt`) into the directory given by `--out`; the same
//! request lines are then piped to `vmodel <domain>` (Lean) by `/verif/check`.
mod rng;
mod util;
mod dom_svlv;
mod dom_random;
mod dom_words;
mod simutil;
mod dom_vcd;
mod dom_comp;
mod dom_cosim;
mod dom_pipeline;
mod dom_store;
mod dom_synth;
mod dom_combloop;
mod dom_pretty;
mod emitctx;
mod svlex;
mod dom_fmt;
mod dom_smap;
mod dom_emitopts;
mod vsets;
mod dom_fragment;
mod dom_order;
mod dom_tokens;
mod dom_migrate;
mod dom_resolve;
mod dom_paths;
mod dom_value;
mod dom_parse;
mod dom_cdc;
mod dom_assign;
mod dom_wide;
mod dom_engexpr;
mod dom_engines;
mod dom_swap;
mod dom_reuse;

mod svparse;
mod dom_emit;
mod dom_translate;

fn main() {
    let args: Vec<String> = std::env::args().skip(1).collect();
    if args.is_empty() {
        eprintln!("usage: hx <domain> [--seed N] [--n N] [--out DIR] …");
        std::process::exit(2);
    }
    let opts = util::Opts::parse(&args[1..]);
    let rc = match args[0].as_str() {
        "store" => dom_store::main(&opts),
        "synth" => dom_synth::main(&opts),
        "wide" => dom_wide::main(&opts),
        "engexpr" => dom_engexpr::main(&opts),
        "engines" => dom_engines::main(&opts),
        "combloop" => dom_combloop::main(&opts),
        "pretty" => dom_pretty::main(&opts),
        "fmt" => dom_fmt::main(&opts),
        "smap" => dom_smap::main(&opts),
        "emitopts" => dom_emitopts::main(&opts),
        "fragment" => dom_fragment::main(&opts),
        "order" => dom_order::main(&opts),
        "tokens" => dom_tokens::main(&opts),
        "migrate" => dom_migrate::main(&opts),
        "resolve" => dom_resolve::main(&opts),
        "paths" => dom_paths::main(&opts),
        "pipeline" => dom_pipeline::main(&opts),
        "svlv" => dom_svlv::main(&opts),
        "random" => dom_random::main(&opts),
        "words" => dom_words::main(&opts),
        "vcd" => dom_vcd::main(&opts),
        "comp" => dom_comp::main(&opts),
        "cosim" => dom_cosim::main(&opts),
        "cdc" => dom_cdc::main(&opts),
        "assign" => dom_assign::main(&opts),
        "swap" => dom_swap::main(&opts),
        "reuse" => dom_reuse::main(&opts),
        "hash" => {
            // content hashes exactly as the incremental cache computes them
            for f in &opts.rest {
                match std::fs::read(f) {
                    Ok(d) => println!("{} {}", veryl_cache::content_hash(&d), f),
                    Err(_) => println!("- {}", f),
                }
            }
            0
        }
        "value" => dom_value::main(&opts),
        "parse" => dom_parse::main(&opts),
        "emit" => dom_emit::main(&opts),
        "translate" => dom_translate::main(&opts),
        x => {
            eprintln!("hx: unknown domain {x}");
            2
        }
    };
    std::process::exit(rc);
}
