//! Domain `comp` (C35, simulator level; oracle only): a generated testbench connects, next to an
//! RTL flip-flop `q_rtl <= d`, a native echo component (`q_comp <= d` through `SimCtx::read/write`)
//! and a probe component that reads `q_comp`, `q_rtl` and the RTL comb `mix = q_comp` at
//! every edge.  Components are registered through the static (dlopen-free) registry and driven by
//! the real `Simulator` (`init_components`, `run_testbench`) on every interpreter / Cranelift
//! configuration, widths 1..300, 2- and 4-state (X/Z literals in 4-state).
//!
//! With `d_k` the value driven before edge `k` (k = 1..N after reset):
//!   pre-edge inputs      the echo hook at edge k reads d_k (all bits and X/Z mask bits)
//!   outputs with FFs     the probe at edge k (k >= 2) reads q_comp = d_{k-1} and q_rtl = known(d_{k-1}) (the flip-flop
//!                        registers `dk`, d with X/Z replaced by 0), and the RTL comb
//!                        `mix` (a pass-through of the component's output, settled before the edge) = d_{k-1};
//!                        after the last edge the simulator holds q_comp = d_N, q_rtl = known(d_N).
//!   instance seed        `BuildCtx::seed()` of the echo instance = FNV-1a(base seed, "hx_t", "echo") (C32 `instance_seed`).
//!   accessors            the echo uses read/write, read_u64/write_u64 (width <= 64) or read_words/write_words (per run);
//!                        the scalar/word accessors carry payload bits only (x reads 0, z reads 1, no X/Z driven).
//! Request: `run <seed> <config index> [<width> <mode>]` (width/mode forced for the boundary sweep); reply `echo=..;probe=a/b/c,..;final=q_comp/q_rtl;seed=..`.
use crate::dom_svlv::gen_bits;
use crate::dom_words::{ECHO, SEEDS, SEEN};
use crate::rng::Rng;
use crate::simutil::{bits_of, build, config_name, configs};
use crate::util::{Log, Opts};
use std::panic::{AssertUnwindSafe, catch_unwind};
use std::sync::{Mutex, Once};
use veryl_component::{BuildCtx, ClockPort, Component, ComponentKind, InputPort, OutputPort, SimCtx, export, sys};
use veryl_simulator::Simulator;
use veryl_simulator::component::loader::register_static_component;
use veryl_simulator::ir::Event;
use veryl_simulator::testbench::{TestResult, build_clock_periods, build_event_map, convert_initial_to_testbench, run_testbench};

type Seen = (Vec<u64>, Vec<u64>, u32);
pub static PROBED: Mutex<Vec<[Seen; 3]>> = Mutex::new(Vec::new());

/// Reads three inputs at every clock edge (`a`, `b` with `read`, `c` with `read_words`) and records
/// them; drives a 1-bit heartbeat with `write_u64`.
pub struct Probe {
    #[allow(dead_code)]
    clk: ClockPort,
    a: InputPort,
    b: InputPort,
    c: InputPort,
    beat: OutputPort,
}

impl Component for Probe {
    const KIND: ComponentKind = ComponentKind::Clocked;

    fn new(ctx: &mut BuildCtx) -> veryl_component::Result<Self> {
        Ok(Self { clk: ctx.clock("clk")?, a: ctx.input("a")?, b: ctx.input("b")?, c: ctx.input("c")?, beat: ctx.output("beat")? })
    }

    fn on_clock(&mut self, ctx: &mut SimCtx) -> veryl_component::Result<()> {
        let grab = |ctx: &mut SimCtx, p: InputPort| -> Seen {
            match ctx.read(p) {
                veryl_component::Value::Bits { words, mask_xz, width } => (words.to_vec(), mask_xz.to_vec(), width),
                _ => (vec![], vec![], 0),
            }
        };
        // `c` is read through the word accessor (payload only), `a` and `b` through the `Value` API
        let mut buf = vec![0u64; self.c.words()];
        ctx.read_words(self.c, &mut buf);
        let c_seen: Seen = (buf.clone(), vec![0; buf.len()], self.c.width());
        let rec = [grab(ctx, self.a), grab(ctx, self.b), c_seen];
        PROBED.lock().unwrap().push(rec);
        let cycle = ctx.cycle();
        ctx.write_u64(self.beat, cycle & 1);
        Ok(())
    }
}

pub static PROBE: sys::VrlComponentVTable = export::vtable::<Probe>();
static REGISTER: Once = Once::new();

fn seen_bits(s: &Seen) -> String {
    let bit = |ws: &Vec<u64>, i: usize| ws.get(i / 64).is_some_and(|w| w >> (i % 64) & 1 == 1);
    (0..s.2 as usize)
        .rev()
        .map(|i| match (bit(&s.1, i), bit(&s.0, i)) {
            (false, false) => '0',
            (false, true) => '1',
            (true, false) => 'x',
            (true, true) => 'z',
        })
        .collect()
}

const WIDTHS: &[usize] = &[1, 2, 8, 31, 32, 33, 63, 64, 65, 95, 96, 97, 100, 127, 128, 129, 159, 160, 161, 191, 192, 193, 255, 256, 257, 300];

/// MSB-first literal digits of a `width`-bit value; X/Z only when `xz`.
fn gen_digits(r: &mut Rng, width: usize, xz: bool) -> String {
    let pk = r.below(12);
    let mk = if xz { *r.pick(&[0u64, 2, 7, 8, 9, 9, 3]) } else { 0 };
    let p = gen_bits(r, width, pk);
    let m = gen_bits(r, width, mk);
    let b = |x: &Vec<u8>, i: usize| x.get(i / 8).is_some_and(|y| y >> (i % 8) & 1 == 1);
    (0..width)
        .rev()
        .map(|i| match (b(&m, i), b(&p, i)) {
            (false, false) => '0',
            (false, true) => '1',
            (true, false) => 'x',
            (true, true) => 'z',
        })
        .collect()
}

fn run(seed: u64, cfg_idx: usize, forced: Option<(usize, u64)>, log: &mut Log) -> Result<(String, String), String> {
    REGISTER.call_once(|| {
        register_static_component("hx_echo", &ECHO);
        register_static_component("hx_probe", &PROBE);
    });
    let mut r = Rng::new(seed);
    let cfgs = configs();
    let config = cfgs.get(cfg_idx).ok_or("bad config index")?.clone();
    let w = if r.chance(2, 3) { *r.pick(WIDTHS) } else { r.range(1, 300) as usize };
    // accessor pair of the echo component: 0 read/write, 1 read_u64/write_u64 (scalar ports), 2 read_words/write_words
    let mode = match r.below(3) {
        1 if w <= 64 => 1,
        0 => 0,
        _ => 2,
    };
    let (w, mode) = forced.unwrap_or((w, mode));
    if w == 0 || w > 4096 || mode > 2 || (mode == 1 && w > 64) {
        return Err("bad forced width/mode".into());
    }
    let n = r.range(2, 6) as usize;
    let ds: Vec<String> = (0..n)
        .map(|_| {
            let xz = config.use_4state && r.chance(3, 4);
            gen_digits(&mut r, w, xz)
        })
        .collect();
    // the RTL timing reference registers a fully known companion of `d` (X/Z -> 0), so that the
    // comparison does not depend on how a backend propagates X/Z through a flip-flop
    let known = |d: &String| -> String { d.chars().map(|c| if c == '1' { '1' } else { '0' }).collect() };
    let mut body = String::new();
    for d in &ds {
        body.push_str(&format!("            d = {w}'b{d};\n            dk = {w}'b{};\n            clk.next();\n", known(d)));
    }
    let code = format!(
        r#"
module HxDut (
    clk  : input  clock,
    rst  : input  reset,
    d    : input  logic<{w}>,
    q_rtl: output logic<{w}>,
) {{
    always_ff {{
        if_reset {{
            q_rtl = 0;
        }} else {{
            q_rtl = d;
        }}
    }}
}}

#[test(hx_t)]
module hx_t {{
    inst clk: $tb::clock_gen;
    inst rst: $tb::reset_gen(clk);

    var d     : logic<{w}>;
    var q_rtl : logic<{w}>;
    var q_comp: logic<{w}>;
    var mix   : logic<{w}>;
    var beat  : logic;

    var dk    : logic<{w}>;

    inst dut: HxDut (clk, rst, d: dk, q_rtl);

    inst echo: $comp::hx_echo #( MODE: {mode} ) (
        clk,
        d,
        q: q_comp,
    );

    inst probe: $comp::hx_probe (
        clk,
        a: q_comp,
        b: q_rtl,
        c: mix,
        beat,
    );

    assign mix = q_comp;

    initial {{
        rst.assert();
{body}        $finish();
    }}
}}
"#
    );
    let ir = build(&code, "hx_t", &config, true)?;
    let mut sim = Simulator::new(ir, None);
    SEEN.lock().unwrap().clear();
    SEEDS.lock().unwrap().clear();
    PROBED.lock().unwrap().clear();
    sim.init_components(seed, "hx_t").map_err(|e| format!("init_components: {e}"))?;
    let event_map = build_event_map(&sim.ir.event_statements, &sim.ir.module_variables);
    let clock_periods = build_clock_periods(&sim.ir.event_statements);
    let stmts = sim.ir.event_statements.get(&Event::Initial).ok_or("no initial block")?.clone();
    let tb = convert_initial_to_testbench(&stmts, &event_map, &clock_periods, 3);
    let result = run_testbench(&mut sim, &tb);
    if result != TestResult::Pass {
        return Err(format!("testbench: {result:?}"));
    }
    let echo: Vec<String> = SEEN.lock().unwrap().iter().map(seen_bits).collect();
    let probed: Vec<String> =
        PROBED.lock().unwrap().iter().skip(1).map(|p| format!("{}/{}/{}", seen_bits(&p[0]), seen_bits(&p[1]), seen_bits(&p[2]))).collect();
    let fin = format!(
        "{}/{}",
        sim.get_var("q_comp").map(|v| bits_of(&v)).unwrap_or("none".into()),
        sim.get_var("q_rtl").map(|v| bits_of(&v)).unwrap_or("none".into())
    );
    let iseed = SEEDS.lock().unwrap().last().copied();
    let imp = format!("echo={};probe={};final={};seed={}", echo.join(","), probed.join(","), fin, iseed.map(|x| format!("{x:x}")).unwrap_or("none".into()));
    // oracle: straight from the driven values
    let flat = |d: &String| -> String {
        if mode == 0 { d.clone() } else { d.chars().map(|c| if c == '1' || c == 'z' { '1' } else { '0' }).collect() }
    };
    let payload_only = |d: &String| -> String { d.chars().map(|c| if c == '1' || c == 'z' { '1' } else { '0' }).collect() };
    let o_probe: Vec<String> = ds[..n - 1].iter().map(|d| format!("{}/{}/{}", flat(d), known(d), payload_only(d))).collect();
    // per-instance seed: FNV-1a (64 bit) over base.to_le_bytes() ++ test name ++ instance name
    let mut h: u64 = 14695981039346656037;
    for b in seed.to_le_bytes().iter().chain(b"hx_t".iter()).chain(b"echo".iter()) {
        h = (h ^ *b as u64).wrapping_mul((1u64 << 40) + (1 << 8) + 0xb3);
    }
    let o_echo: Vec<String> = ds.iter().map(flat).collect();
    let ora = format!("echo={};probe={};final={}/{};seed={h:x}", o_echo.join(","), o_probe.join(","), flat(&ds[n - 1]), known(&ds[n - 1]));
    log.count(&format!("config.{}", config_name(&config)));
    log.count(&format!("width.{}", if w <= 64 { "le64" } else if w <= 128 { "65-128" } else { "gt128" }));
    log.add("edges", n as u64);
    log.count(&format!("mode{mode}"));
    if w % 64 == 0 {
        log.count(&format!("mode{mode}.width_mult64"));
    }
    if w % 32 == 0 {
        log.count("width_mult32");
    }
    log.add("values_with_xz", ds.iter().filter(|d| d.contains('x') || d.contains('z')).count() as u64);
    Ok((imp, ora))
}

pub fn main(opts: &Opts) -> i32 {
    let out = opts.out();
    let mut log = Log::new();
    let lines: Vec<String> = if let Some(f) = opts.get("replay") {
        std::fs::read_to_string(f).expect("replay file").lines().map(|x| x.to_string()).filter(|x| !x.is_empty()).collect()
    } else {
        let mut r = Rng::new(opts.seed() ^ 0x63_6f_6d_70);
        let ncfg = configs().len();
        let mut v: Vec<String> = vec![];
        // every accessor pair on exact multiples of 64 / 32 and their neighbours, cycling through the configurations
        let mut k = 0usize;
        for w in [64usize, 128, 192, 256, 32, 96, 63, 65, 127, 129, 1] {
            for mode in 0..3u64 {
                if mode == 1 && w > 64 {
                    continue;
                }
                v.push(format!("run {:x} {:x} {:x} {}", r.next(), k % ncfg, w, mode));
                k += 1;
            }
        }
        v.extend((0..opts.num("n", 16)).map(|i| format!("run {:x} {:x}", r.next(), (i as usize) % ncfg)));
        v
    };
    std::panic::set_hook(Box::new(|_| {}));
    for l in &lines {
        let t: Vec<&str> = l.split(' ').collect();
        let parsed = match t.as_slice() {
            ["run", s, c] => u64::from_str_radix(s, 16).ok().zip(usize::from_str_radix(c, 16).ok()).map(|x| (x.0, x.1, None)),
            ["run", s, c, w, m] => match (u64::from_str_radix(s, 16), usize::from_str_radix(c, 16), usize::from_str_radix(w, 16), m.parse::<u64>()) {
                (Ok(s), Ok(c), Ok(w), Ok(m)) => Some((s, c, Some((w, m)))),
                _ => None,
            },
            _ => None,
        };
        let Some((seed, cfg, forced)) = parsed else {
            log.push3(l.clone(), "bad-op".into(), "bad-op".into());
            continue;
        };
        match catch_unwind(AssertUnwindSafe(|| run(seed, cfg, forced, &mut log))) {
            Ok(Ok((imp, ora))) => {
                if imp.len() < 300 {
                    log.sample(format!("{l} -> {imp}"));
                }
                log.push3(l.clone(), imp, ora);
            }
            Ok(Err(e)) => {
                log.count("skipped_error");
                log.sample(format!("{l} skipped: {}", e.chars().take(300).collect::<String>()));
                log.push3(l.clone(), "skipped".into(), "?".into());
            }
            Err(_) => {
                log.count("skipped_panic");
                log.push3(l.clone(), "skipped-panic".into(), "?".into());
            }
        }
    }
    log.add("sequences", lines.len() as u64);
    log.write(&out);
    0
}
