//! Domain `combloop` (C14): random designs in the model language of
//! `lean/VerylModel/Core/CombLoop.lean`, rendered as Veryl source and run through the real analyzer
//! (pass1 → post_pass1 → pass2 → post_pass2); the combinational-loop verdict is
//! `AnalyzerError::CombinationalLoop` (diagnostic code `combinational_loop`) present or not.
//!
//! Request line: `design <S-expression>` (grammar in `lean/VerylModel/Driver/CombLoop.lean`, plus
//! `(X,…)` inout port ids and `(W,…)` variable widths per module, and `(r,dst,reads…)` = assignment
//! through a recursive function).  impl reply: `loop=<0|1>` | `panic` | `err`.
//! oracle reply: `ref=<0|1> lo=<0|1>` from an independent bit-level reference written here
//! (`ref`: recursive-function calls depend on their arguments, `lo`: they are opaque).
//! Streams: model language (random blocks), 1/3 with a retained-state `always_comb` (see
//! `gen_retained_blocks`), 1/8 opaque constructs, 1/97 malformed request lines.
use crate::rng::Rng;
use crate::util::{Log, Opts};
use std::collections::{BTreeMap, BTreeSet, HashMap};
use veryl_analyzer::ir as air;
use veryl_analyzer::{Analyzer, AnalyzerError, Context, symbol_table};
use veryl_metadata::Metadata;
use veryl_parser::Parser;

// ------------------------------------------------------------------------------------------------
// design language
// ------------------------------------------------------------------------------------------------

#[derive(Clone, Debug, PartialEq)]
struct Acc {
    var: usize,
    msb: usize,
    lsb: usize,
}

#[derive(Clone, Debug)]
enum Stmt {
    Assign(Acc, Vec<Acc>),
    /// assignment through a recursive function (opaque stream)
    Rec(Acc, Vec<Acc>),
    If(Vec<Acc>, Box<Stmt>, Box<Stmt>),
    Seq(Vec<Stmt>),
}

#[derive(Clone, Debug, Default)]
struct Module {
    inputs: Vec<usize>,
    outputs: Vec<usize>,
    inouts: Vec<usize>,
    widths: Vec<usize>,
    blocks: Vec<Stmt>,
}

#[derive(Clone, Debug)]
struct Conn {
    kind: char, // i o x
    port: usize,
    acc: Acc,
}

#[derive(Clone, Debug)]
struct Inst {
    child: Option<usize>, // None = $sv black box
    conns: Vec<Conn>,
}

#[derive(Clone, Debug, Default)]
struct Design {
    children: Vec<Module>,
    top: Module,
    insts: Vec<Inst>,
}

// ------------------------------------------------------------------------------------------------
// S-expression
// ------------------------------------------------------------------------------------------------

fn acc_s(a: &Acc) -> String {
    format!("{:x}.{:x}.{:x}", a.var, a.msb, a.lsb)
}

fn stmt_s(s: &Stmt) -> String {
    match s {
        Stmt::Assign(d, rs) | Stmt::Rec(d, rs) => {
            let tag = if matches!(s, Stmt::Rec(..)) { "r" } else { "=" };
            let mut v = vec![tag.to_string(), acc_s(d)];
            v.extend(rs.iter().map(acc_s));
            format!("({})", v.join(","))
        }
        Stmt::If(c, t, e) => {
            let cs: Vec<String> = c.iter().map(acc_s).collect();
            format!("(?,({}),{},{})", cs.join(","), stmt_s(t), stmt_s(e))
        }
        Stmt::Seq(ss) => {
            let mut v = vec![";".to_string()];
            v.extend(ss.iter().map(stmt_s));
            format!("({})", v.join(","))
        }
    }
}

fn list_s(tag: &str, xs: &[usize]) -> String {
    let mut v = vec![tag.to_string()];
    v.extend(xs.iter().map(|x| format!("{x:x}")));
    format!("({})", v.join(","))
}

fn module_s(m: &Module) -> String {
    let mut v = vec![
        "M".to_string(),
        list_s("I", &m.inputs),
        list_s("O", &m.outputs),
        list_s("X", &m.inouts),
        list_s("W", &m.widths),
    ];
    v.extend(m.blocks.iter().map(stmt_s));
    format!("({})", v.join(","))
}

fn design_s(d: &Design) -> String {
    let mut c = vec!["C".to_string()];
    c.extend(d.children.iter().map(module_s));
    let mut n = vec!["N".to_string()];
    for i in &d.insts {
        let mut v = vec!["U".to_string(), i.child.map(|c| format!("{c:x}")).unwrap_or("sv".into())];
        v.extend(i.conns.iter().map(|c| format!("({},{:x},{})", c.kind, c.port, acc_s(&c.acc))));
        n.push(format!("({})", v.join(",")));
    }
    format!("(D,({}),{},({}))", c.join(","), module_s(&d.top), n.join(","))
}

#[derive(Debug)]
enum SExp {
    Atom(String),
    List(Vec<SExp>),
}

fn parse_sexp(s: &str) -> Option<SExp> {
    let mut stack: Vec<Vec<SExp>> = vec![vec![]];
    let mut cur = String::new();
    for c in s.chars() {
        match c {
            '(' | ',' | ')' => {
                if !cur.is_empty() {
                    stack.last_mut()?.push(SExp::Atom(std::mem::take(&mut cur)));
                }
                if c == '(' {
                    stack.push(vec![]);
                } else if c == ')' {
                    let top = stack.pop()?;
                    stack.last_mut()?.push(SExp::List(top));
                }
            }
            _ => cur.push(c),
        }
    }
    if !cur.is_empty() || stack.len() != 1 || stack[0].len() != 1 {
        return None;
    }
    stack.pop()?.pop()
}

fn hexn(e: &SExp) -> Option<usize> {
    match e {
        SExp::Atom(s) => usize::from_str_radix(s, 16).ok(),
        _ => None,
    }
}

fn acc_p(e: &SExp) -> Option<Acc> {
    let SExp::Atom(s) = e else { return None };
    let p: Vec<&str> = s.split('.').collect();
    if p.len() != 3 {
        return None;
    }
    let a = Acc {
        var: usize::from_str_radix(p[0], 16).ok()?,
        msb: usize::from_str_radix(p[1], 16).ok()?,
        lsb: usize::from_str_radix(p[2], 16).ok()?,
    };
    (a.lsb <= a.msb).then_some(a)
}

fn stmt_p(e: &SExp) -> Option<Stmt> {
    let SExp::List(xs) = e else { return None };
    let SExp::Atom(tag) = xs.first()? else { return None };
    match tag.as_str() {
        "=" | "r" => {
            let d = acc_p(xs.get(1)?)?;
            let rs = xs[2..].iter().map(acc_p).collect::<Option<Vec<_>>>()?;
            Some(if tag == "=" { Stmt::Assign(d, rs) } else { Stmt::Rec(d, rs) })
        }
        "?" => {
            if xs.len() != 4 {
                return None;
            }
            let SExp::List(c) = &xs[1] else { return None };
            let c = c.iter().map(acc_p).collect::<Option<Vec<_>>>()?;
            Some(Stmt::If(c, Box::new(stmt_p(&xs[2])?), Box::new(stmt_p(&xs[3])?)))
        }
        ";" => Some(Stmt::Seq(xs[1..].iter().map(stmt_p).collect::<Option<Vec<_>>>()?)),
        _ => None,
    }
}

fn tagged(e: &SExp, tag: &str) -> Option<Vec<usize>> {
    let SExp::List(xs) = e else { return None };
    match xs.first()? {
        SExp::Atom(t) if t == tag => xs[1..].iter().map(hexn).collect(),
        _ => None,
    }
}

fn module_p(e: &SExp) -> Option<Module> {
    let SExp::List(xs) = e else { return None };
    if xs.len() < 5 || !matches!(&xs[0], SExp::Atom(t) if t == "M") {
        return None;
    }
    Some(Module {
        inputs: tagged(&xs[1], "I")?,
        outputs: tagged(&xs[2], "O")?,
        inouts: tagged(&xs[3], "X")?,
        widths: tagged(&xs[4], "W")?,
        blocks: xs[5..].iter().map(stmt_p).collect::<Option<Vec<_>>>()?,
    })
}

fn design_p(e: &SExp) -> Option<Design> {
    let SExp::List(xs) = e else { return None };
    if xs.len() != 4 || !matches!(&xs[0], SExp::Atom(t) if t == "D") {
        return None;
    }
    let SExp::List(cs) = &xs[1] else { return None };
    let SExp::List(ns) = &xs[3] else { return None };
    if !matches!(cs.first()?, SExp::Atom(t) if t == "C") || !matches!(ns.first()?, SExp::Atom(t) if t == "N") {
        return None;
    }
    let children = cs[1..].iter().map(module_p).collect::<Option<Vec<_>>>()?;
    let top = module_p(&xs[2])?;
    let mut insts = vec![];
    for n in &ns[1..] {
        let SExp::List(u) = n else { return None };
        if u.len() < 2 || !matches!(&u[0], SExp::Atom(t) if t == "U") {
            return None;
        }
        let SExp::Atom(ch) = &u[1] else { return None };
        let child = if ch == "sv" { None } else { Some(usize::from_str_radix(ch, 16).ok()?) };
        let mut conns = vec![];
        for c in &u[2..] {
            let SExp::List(c) = c else { return None };
            if c.len() != 3 {
                return None;
            }
            let SExp::Atom(k) = &c[0] else { return None };
            let kind = k.chars().next()?;
            if k.len() != 1 || !"iox".contains(kind) {
                return None;
            }
            conns.push(Conn { kind, port: hexn(&c[1])?, acc: acc_p(&c[2])? });
        }
        insts.push(Inst { child, conns });
    }
    Some(Design { children, top, insts })
}

/// Structural sanity needed to render the design (ids within range).
fn well_formed(d: &Design) -> bool {
    fn accs_ok(m: &Module, a: &Acc) -> bool {
        a.var < m.widths.len() && a.msb < m.widths[a.var] && a.lsb <= a.msb
    }
    fn stmt_ok(m: &Module, s: &Stmt) -> bool {
        match s {
            Stmt::Assign(d, rs) | Stmt::Rec(d, rs) => accs_ok(m, d) && rs.iter().all(|r| accs_ok(m, r)),
            Stmt::If(c, t, e) => c.iter().all(|r| accs_ok(m, r)) && stmt_ok(m, t) && stmt_ok(m, e),
            Stmt::Seq(ss) => ss.iter().all(|s| stmt_ok(m, s)),
        }
    }
    let mod_ok = |m: &Module| {
        m.blocks.iter().all(|b| stmt_ok(m, b))
            && m.inputs.iter().chain(&m.outputs).chain(&m.inouts).all(|p| *p < m.widths.len())
    };
    d.children.iter().all(mod_ok)
        && mod_ok(&d.top)
        && d.insts.iter().all(|i| {
            i.conns.iter().all(|c| accs_ok(&d.top, &c.acc))
                && match i.child {
                    None => true,
                    Some(ch) => ch < d.children.len() && i.conns.iter().all(|c| c.port < d.children[ch].widths.len()),
                }
        })
}

// ------------------------------------------------------------------------------------------------
// Veryl rendering
// ------------------------------------------------------------------------------------------------

fn acc_v(pfx: &str, a: &Acc) -> String {
    if a.msb == a.lsb { format!("{pfx}{}[{}]", a.var, a.lsb) } else { format!("{pfx}{}[{}:{}]", a.var, a.msb, a.lsb) }
}

/// `f(reads…)`: every result bit is the parity of all bits read.
fn mix_v(pfx: &str, rs: &[Acc], w: usize) -> String {
    if rs.is_empty() {
        return format!("{{1'b0 repeat {w}}}");
    }
    let parts: Vec<String> = rs.iter().map(|r| acc_v(pfx, r)).collect();
    format!("{{(^{{{}}}) repeat {w}}}", parts.join(", "))
}

fn stmt_v(pfx: &str, s: &Stmt, ind: usize, out: &mut String) {
    let pad = " ".repeat(ind);
    match s {
        Stmt::Assign(d, rs) => {
            out.push_str(&format!("{pad}{} = {};\n", acc_v(pfx, d), mix_v(pfx, rs, d.msb - d.lsb + 1)));
        }
        Stmt::Rec(d, rs) => {
            out.push_str(&format!(
                "{pad}{} = {{(^{{rf({})}}) repeat {}}};\n",
                acc_v(pfx, d),
                mix_v(pfx, rs, 8),
                d.msb - d.lsb + 1
            ));
        }
        Stmt::If(c, t, e) => {
            let cond = if c.is_empty() { "1'b1".to_string() } else { format!("^{{{}}}", c.iter().map(|r| acc_v(pfx, r)).collect::<Vec<_>>().join(", ")) };
            out.push_str(&format!("{pad}if {cond} {{\n"));
            stmt_v(pfx, t, ind + 4, out);
            out.push_str(&format!("{pad}}} else {{\n"));
            stmt_v(pfx, e, ind + 4, out);
            out.push_str(&format!("{pad}}}\n"));
        }
        Stmt::Seq(ss) => {
            for s in ss {
                stmt_v(pfx, s, ind, out);
            }
        }
    }
}

fn has_rec(s: &Stmt) -> bool {
    match s {
        Stmt::Rec(..) => true,
        Stmt::Assign(..) => false,
        Stmt::If(_, t, e) => has_rec(t) || has_rec(e),
        Stmt::Seq(ss) => ss.iter().any(has_rec),
    }
}

fn module_v(name: &str, pfx: &str, m: &Module, insts: &[(usize, &Inst)], d: &Design, out: &mut String) {
    out.push_str(&format!("module {name} (\n"));
    for (id, w) in m.widths.iter().enumerate() {
        if m.inputs.contains(&id) {
            out.push_str(&format!("    {pfx}{id}: input logic<{w}>,\n"));
        } else if m.outputs.contains(&id) {
            out.push_str(&format!("    {pfx}{id}: output logic<{w}>,\n"));
        } else if m.inouts.contains(&id) {
            out.push_str(&format!("    {pfx}{id}: inout tri logic<{w}>,\n"));
        }
    }
    out.push_str(") {\n");
    let tri: BTreeSet<usize> = insts.iter().flat_map(|(_, i)| i.conns.iter().filter(|c| c.kind == 'x').map(|c| c.acc.var)).collect();
    for (id, w) in m.widths.iter().enumerate() {
        if !m.inputs.contains(&id) && !m.outputs.contains(&id) && !m.inouts.contains(&id) {
            let t = if tri.contains(&id) { "tri " } else { "" };
            out.push_str(&format!("    var {pfx}{id}: {t}logic<{w}>;\n"));
        }
    }
    if m.blocks.iter().any(has_rec) {
        out.push_str("    function rf (\n        a: input logic<8>,\n    ) -> logic<8> {\n        if a == 0 {\n            return 0;\n        } else {\n            return rf(a - 1);\n        }\n    }\n");
    }
    for (j, i) in insts {
        match i.child {
            None => out.push_str(&format!("    inst u{j}: $sv::Blk{j} (\n")),
            Some(c) => out.push_str(&format!("    inst u{j}: C{c} (\n")),
        }
        for c in &i.conns {
            let whole = c.acc.lsb == 0 && c.acc.msb + 1 == d.top.widths[c.acc.var];
            let actual = if whole { format!("{pfx}{}", c.acc.var) } else { acc_v(pfx, &c.acc) };
            out.push_str(&format!("        p{}: {actual},\n", c.port));
        }
        out.push_str("    );\n");
    }
    for b in &m.blocks {
        match b {
            Stmt::Assign(dst, rs) => {
                out.push_str(&format!("    assign {} = {};\n", acc_v(pfx, dst), mix_v(pfx, rs, dst.msb - dst.lsb + 1)));
            }
            _ => {
                out.push_str("    always_comb {\n");
                stmt_v(pfx, b, 8, out);
                out.push_str("    }\n");
            }
        }
    }
    out.push_str("}\n");
}

fn design_v(d: &Design) -> String {
    let mut out = String::new();
    for (k, c) in d.children.iter().enumerate() {
        module_v(&format!("C{k}"), "p", c, &[], d, &mut out);
    }
    let insts: Vec<(usize, &Inst)> = d.insts.iter().enumerate().collect();
    module_v("Top", "v", &d.top, &insts, d, &mut out);
    out
}

// ------------------------------------------------------------------------------------------------
// the real analyzer
// ------------------------------------------------------------------------------------------------

pub struct Real {
    pub loops: usize,
    pub parse_err: bool,
    pub other: Vec<String>,
}

pub fn analyze(code: &str) -> Real {
    symbol_table::clear();
    let metadata = Metadata::create_default("prj").unwrap();
    let parser = match Parser::parse(code, &"") {
        Ok(p) => p,
        Err(_) => return Real { loops: 0, parse_err: true, other: vec![] },
    };
    let analyzer = Analyzer::new(&metadata);
    let mut context = Context::default();
    let mut ir = air::Ir::default();
    let mut errors = vec![];
    errors.append(&mut analyzer.analyze_pass1("prj", &parser.veryl));
    errors.append(&mut Analyzer::analyze_post_pass1());
    errors.append(&mut analyzer.analyze_pass2(&parser.veryl, &mut context, Some(&mut ir)));
    errors.append(&mut Analyzer::analyze_post_pass2(&ir));
    let mut loops = 0;
    let mut other = vec![];
    for e in &errors {
        if matches!(e, AnalyzerError::CombinationalLoop { .. }) {
            loops += 1;
        } else {
            let dbg = format!("{e:?}");
            other.push(dbg.split(|c: char| !c.is_alphanumeric()).next().unwrap_or("").to_string());
        }
    }
    Real { loops, parse_err: false, other }
}

// ------------------------------------------------------------------------------------------------
// independent bit-level reference (oracle)
// ------------------------------------------------------------------------------------------------

type Bit = (usize, usize);
type Dv = (bool, BTreeSet<Bit>);

fn bits(a: &Acc) -> impl Iterator<Item = Bit> + '_ {
    (a.lsb..=a.msb).map(move |b| (a.var, b))
}

fn read_deps(env: &HashMap<Bit, Dv>, rs: &[Acc], into: &mut BTreeSet<Bit>) {
    for r in rs {
        for b in bits(r) {
            match env.get(&b) {
                None => {
                    into.insert(b);
                }
                Some((retain, deps)) => {
                    into.extend(deps.iter().copied());
                    if *retain {
                        into.insert(b);
                    }
                }
            }
        }
    }
}

fn live_in(s: &Stmt, ctrl: &BTreeSet<Bit>, env: &mut HashMap<Bit, Dv>, rec_opaque: bool) {
    match s {
        Stmt::Assign(d, rs) | Stmt::Rec(d, rs) => {
            let mut deps = ctrl.clone();
            if !(rec_opaque && matches!(s, Stmt::Rec(..))) {
                read_deps(env, rs, &mut deps);
            }
            for b in bits(d) {
                env.insert(b, (false, deps.clone()));
            }
        }
        Stmt::Seq(ss) => {
            for s in ss {
                live_in(s, ctrl, env, rec_opaque);
            }
        }
        Stmt::If(c, t, e) => {
            let mut ctrl2 = ctrl.clone();
            read_deps(env, c, &mut ctrl2);
            let mut et = env.clone();
            let mut ee = env.clone();
            live_in(t, &ctrl2, &mut et, rec_opaque);
            live_in(e, &ctrl2, &mut ee, rec_opaque);
            let keys: BTreeSet<Bit> = et.keys().chain(ee.keys()).copied().collect();
            for k in keys {
                let a = et.get(&k).cloned().unwrap_or((true, BTreeSet::new()));
                let b = ee.get(&k).cloned().unwrap_or((true, BTreeSet::new()));
                env.insert(k, (a.0 || b.0, a.1.union(&b.1).copied().collect()));
            }
        }
    }
}

type Node = (usize, usize, usize);

fn module_edges(m: &Module, scope: usize, rec_opaque: bool, edges: &mut Vec<(Node, Node)>) {
    for b in &m.blocks {
        let mut env = HashMap::new();
        live_in(b, &BTreeSet::new(), &mut env, rec_opaque);
        for (k, (_, deps)) in env {
            for s in deps {
                edges.push(((scope, s.0, s.1), (scope, k.0, k.1)));
            }
        }
    }
}

fn cyclic(edges: &[(Node, Node)]) -> bool {
    let mut adj: BTreeMap<Node, Vec<Node>> = BTreeMap::new();
    for (a, b) in edges {
        adj.entry(*a).or_default().push(*b);
        adj.entry(*b).or_default();
    }
    // iterative three-colour DFS
    let mut colour: BTreeMap<Node, u8> = BTreeMap::new();
    for &start in adj.keys() {
        if colour.contains_key(&start) {
            continue;
        }
        let mut stack = vec![(start, 0usize)];
        colour.insert(start, 1);
        while let Some((n, i)) = stack.pop() {
            let succ = &adj[&n];
            if i < succ.len() {
                stack.push((n, i + 1));
                let m = succ[i];
                match colour.get(&m) {
                    Some(1) => return true,
                    Some(_) => {}
                    None => {
                        colour.insert(m, 1);
                        stack.push((m, 0));
                    }
                }
            } else {
                colour.insert(n, 2);
            }
        }
    }
    false
}

fn reference(d: &Design, rec_opaque: bool) -> bool {
    for c in &d.children {
        let mut e = vec![];
        module_edges(c, 0, rec_opaque, &mut e);
        if cyclic(&e) {
            return true;
        }
    }
    let mut e = vec![];
    module_edges(&d.top, 0, rec_opaque, &mut e);
    for (j, i) in d.insts.iter().enumerate() {
        let Some(ch) = i.child else { continue };
        module_edges(&d.children[ch], j + 1, rec_opaque, &mut e);
        for c in &i.conns {
            for (k, b) in (c.acc.lsb..=c.acc.msb).enumerate() {
                match c.kind {
                    'i' => e.push(((0, c.acc.var, b), (j + 1, c.port, k))),
                    'o' => e.push(((j + 1, c.port, k), (0, c.acc.var, b))),
                    _ => {} // inout: opaque
                }
            }
        }
    }
    cyclic(&e)
}

// ------------------------------------------------------------------------------------------------
// generator
// ------------------------------------------------------------------------------------------------

fn pick_range(rng: &mut Rng, w: usize) -> (usize, usize) {
    // (msb, lsb), boundary biased
    match rng.below(10) {
        0 | 1 => (w - 1, 0),
        2 | 3 => {
            let b = rng.below(w as u64) as usize;
            (b, b)
        }
        4 if w >= 2 => (w / 2 - 1, 0),
        5 if w >= 2 => (w - 1, w / 2),
        6 => {
            let b = *rng.pick(&[0, w - 1, w / 2, (w / 2).saturating_sub(1)]);
            (b, b)
        }
        _ => {
            let a = rng.below(w as u64) as usize;
            let b = rng.below(w as u64) as usize;
            (a.max(b), a.min(b))
        }
    }
}

struct GenCtx {
    widths: Vec<usize>,
    readable: Vec<usize>,
    writable: Vec<usize>,
    rank: Vec<usize>,
    /// percentage of reads taken from lower-ranked variables
    forward: u64,
    rec: bool,
}

fn gen_acc(rng: &mut Rng, g: &GenCtx, vars: &[usize]) -> Acc {
    let var = *rng.pick(vars);
    let (msb, lsb) = pick_range(rng, g.widths[var]);
    Acc { var, msb, lsb }
}

/// Reads of a statement writing `dst`: mostly variables of lower rank (so that most designs are
/// feed-forward), sometimes any variable (feedback, possibly through disjoint bits).
fn gen_reads(rng: &mut Rng, g: &GenCtx, dst: usize, log: &mut Log) -> Vec<Acc> {
    let n = match rng.below(10) {
        0 => 0,
        1..=5 => 1,
        6..=8 => 2,
        _ => 3,
    };
    log.count(&format!("reads.{n}"));
    let lower: Vec<usize> = g.readable.iter().copied().filter(|v| g.rank[*v] < g.rank[dst]).collect();
    (0..n)
        .map(|_| {
            if !lower.is_empty() && rng.chance(g.forward, 100) {
                log.count("read.forward");
                gen_acc(rng, g, &lower)
            } else {
                log.count("read.any");
                gen_acc(rng, g, &g.readable)
            }
        })
        .collect()
}

fn gen_assign(rng: &mut Rng, g: &GenCtx, log: &mut Log) -> Stmt {
    let d = gen_acc(rng, g, &g.writable);
    log.count(&format!("dst_width.{}", d.msb - d.lsb + 1));
    let rs = gen_reads(rng, g, d.var, log);
    if g.rec && rng.chance(1, 4) {
        log.count("stmt.rec");
        Stmt::Rec(d, rs)
    } else {
        log.count("stmt.assign");
        Stmt::Assign(d, rs)
    }
}

fn gen_stmt(rng: &mut Rng, g: &GenCtx, depth: usize, log: &mut Log) -> Stmt {
    if depth < 2 && rng.chance(3, 10) {
        log.count(&format!("stmt.if.depth{depth}"));
        let nc = rng.range(1, 2) as usize;
        let c = (0..nc).map(|_| gen_acc(rng, g, &g.readable)).collect();
        let t = gen_seq(rng, g, depth + 1, 1, 2, log);
        let e = if rng.chance(1, 3) {
            log.count("stmt.if.no_else");
            Stmt::Seq(vec![])
        } else {
            gen_seq(rng, g, depth + 1, 1, 2, log)
        };
        Stmt::If(c, Box::new(t), Box::new(e))
    } else {
        gen_assign(rng, g, log)
    }
}

fn gen_seq(rng: &mut Rng, g: &GenCtx, depth: usize, lo: u64, hi: u64, log: &mut Log) -> Stmt {
    let n = rng.range(lo, hi);
    Stmt::Seq((0..n).map(|_| gen_stmt(rng, g, depth, log)).collect())
}

fn gen_blocks(rng: &mut Rng, g: &GenCtx, n: u64, log: &mut Log) -> Vec<Stmt> {
    (0..n)
        .map(|_| {
            if rng.chance(6, 10) && !g.rec {
                log.count("block.assign");
                let d = gen_acc(rng, g, &g.writable);
                log.count(&format!("dst_width.{}", d.msb - d.lsb + 1));
                let rs = gen_reads(rng, g, d.var, log);
                Stmt::Assign(d, rs)
            } else {
                log.count("block.always_comb");
                gen_seq(rng, g, 0, 1, 3, log)
            }
        })
        .collect()
}

/// Ranges of a variable that overlap each other often.
fn focus_range(rng: &mut Rng, w: usize) -> (usize, usize) {
    match rng.below(6) {
        0 | 1 => (w - 1, 0),
        2 => ((w / 2).max(1) - 1, 0),
        3 => (w - 1, w / 2),
        4 => (0, 0),
        _ => (w - 1, w - 1),
    }
}

fn focus_acc(rng: &mut Rng, g: &GenCtx, var: usize) -> Acc {
    let (msb, lsb) = focus_range(rng, g.widths[var]);
    Acc { var, msb, lsb }
}

struct Focus {
    y: usize,
    t: Option<usize>,
    inputs: Vec<usize>,
}

/// One assignment to the focus variable `y`: reading `y` itself (self-read), the helper `t`, or inputs.
fn focus_leaf(rng: &mut Rng, g: &GenCtx, f: &Focus, log: &mut Log) -> Vec<Stmt> {
    let k = rng.below(20);
    focus_leaf_kind(rng, g, f, k, log)
}

fn focus_leaf_kind(rng: &mut Rng, g: &GenCtx, f: &Focus, kind: u64, log: &mut Log) -> Vec<Stmt> {
    let d = focus_acc(rng, g, f.y);
    let mut rs = vec![];
    match (kind, f.t) {
        (0..=6, _) => {
            log.count("retained.leaf.self_read");
            rs.push(focus_acc(rng, g, f.y));
        }
        (7..=9, Some(t)) => {
            log.count("retained.leaf.read_t");
            rs.push(focus_acc(rng, g, t));
        }
        (10..=12, Some(t)) => {
            // read after write of the same variable inside the branch: t = f(..); y = f(t)
            log.count("retained.leaf.write_then_read");
            let mut rt = vec![];
            if rng.chance(1, 3) {
                rt.push(focus_acc(rng, g, f.y));
            }
            if !f.inputs.is_empty() {
                rt.push(gen_acc(rng, g, &f.inputs));
            }
            let dt = focus_acc(rng, g, t);
            let rd = focus_acc(rng, g, t);
            return vec![Stmt::Assign(dt, rt), Stmt::Assign(d, vec![rd])];
        }
        _ => log.count("retained.leaf.other"),
    }
    if !f.inputs.is_empty() && rng.chance(1, 2) {
        rs.push(gen_acc(rng, g, &f.inputs));
    }
    vec![Stmt::Assign(d, rs)]
}

/// `if c1 { y = f(y, …) } else { if c2 { y = … } }` and its mirror images: one side reads the entry
/// value of `y` through a definition, the other side retains it on some path (phi of phi).
fn focus_partial(rng: &mut Rng, g: &GenCtx, f: &Focus, log: &mut Log) -> Stmt {
    log.count("retained.partial_shape");
    let cond = |rng: &mut Rng| if f.inputs.is_empty() { focus_acc(rng, g, f.y) } else { gen_acc(rng, g, &f.inputs) };
    let selfread = Stmt::Seq(focus_leaf_kind(rng, g, f, 0, log));
    let inner_leaf = Stmt::Seq(focus_leaf_kind(rng, g, f, 19, log));
    let other = if rng.chance(1, 4) { focus_tree(rng, g, f, 2, log) } else { Stmt::Seq(vec![]) };
    let c2 = cond(rng);
    let inner = if rng.chance(1, 2) {
        Stmt::If(vec![c2], Box::new(inner_leaf), Box::new(other))
    } else {
        Stmt::If(vec![c2], Box::new(other), Box::new(inner_leaf))
    };
    let c1 = cond(rng);
    if rng.chance(1, 2) {
        Stmt::If(vec![c1], Box::new(selfread), Box::new(inner))
    } else {
        Stmt::If(vec![c1], Box::new(inner), Box::new(selfread))
    }
}

fn focus_tree(rng: &mut Rng, g: &GenCtx, f: &Focus, depth: usize, log: &mut Log) -> Stmt {
    if depth == 0 && rng.chance(1, 3) {
        return focus_partial(rng, g, f, log);
    }
    if depth >= 3 || rng.chance(4, 10) {
        let mut ss = focus_leaf(rng, g, f, log);
        if rng.chance(1, 4) {
            ss.extend(focus_leaf(rng, g, f, log));
        }
        return Stmt::Seq(ss);
    }
    let cond = if f.inputs.is_empty() || rng.chance(1, 6) {
        log.count("retained.cond.reads_y");
        focus_acc(rng, g, f.y)
    } else {
        gen_acc(rng, g, &f.inputs)
    };
    let mut a = if rng.chance(3, 4) { focus_tree(rng, g, f, depth + 1, log) } else { Stmt::Seq(vec![]) };
    let b = if rng.chance(3, 4) { focus_tree(rng, g, f, depth + 1, log) } else { Stmt::Seq(vec![]) };
    if matches!((&a, &b), (Stmt::Seq(x), Stmt::Seq(y)) if x.is_empty() && y.is_empty()) {
        a = Stmt::Seq(focus_leaf(rng, g, f, log));
    }
    log.count(&format!(
        "retained.if.depth{depth}.{}{}",
        if matches!(&a, Stmt::Seq(x) if x.is_empty()) { "E" } else if matches!(&a, Stmt::If(..)) { "I" } else { "S" },
        if matches!(&b, Stmt::Seq(x) if x.is_empty()) { "E" } else if matches!(&b, Stmt::If(..)) { "I" } else { "S" }
    ));
    Stmt::If(vec![cond], Box::new(a), Box::new(b))
}

/// Retained-state stream: one `always_comb` that assigns a variable `y` on some paths only (nested
/// ifs with and without else, in either branch), with self-reads `y = f(y, …)`, reads after writes
/// inside branches and conditions that read `y`; optionally a cycle closed through `assign t = f(y)`.
fn gen_retained_blocks(rng: &mut Rng, g: &GenCtx, log: &mut Log) -> Vec<Stmt> {
    let cands: Vec<usize> = g.writable.iter().copied().filter(|v| g.readable.contains(v)).collect();
    if cands.is_empty() {
        return vec![];
    }
    let y = *rng.pick(&cands);
    let others: Vec<usize> = cands.iter().copied().filter(|v| *v != y).collect();
    let t = if others.is_empty() { None } else { Some(*rng.pick(&others)) };
    let inputs: Vec<usize> = g.readable.iter().copied().filter(|v| g.rank[*v] == 0).collect();
    let f = Focus { y, t, inputs };
    log.count("retained.block");
    let mut ss = vec![];
    if rng.chance(1, 4) {
        ss.extend(focus_leaf(rng, g, &f, log));
    }
    ss.push(focus_tree(rng, g, &f, 0, log));
    if rng.chance(1, 4) {
        ss.extend(focus_leaf(rng, g, &f, log));
    }
    let mut out = vec![Stmt::Seq(ss)];
    if let Some(t) = f.t {
        if rng.chance(1, 2) {
            log.count("retained.assign_t_from_y");
            let d = focus_acc(rng, g, t);
            let r = focus_acc(rng, g, f.y);
            out.push(Stmt::Assign(d, vec![r]));
        }
    }
    out
}

/// A child that copies port slices (the shape behind the port-level feedthrough false positives).
fn gen_slicer(rng: &mut Rng, w: usize) -> Module {
    let mut blocks = vec![];
    let cut = rng.range(1, (w - 1) as u64) as usize;
    let swap = rng.chance(1, 3);
    let (lo, hi) = ((cut - 1, 0), (w - 1, cut));
    let pairs = if swap && cut * 2 == w { vec![(lo, hi), (hi, lo)] } else { vec![(lo, lo), (hi, hi)] };
    for (dd, rr) in pairs {
        if rng.chance(5, 6) {
            blocks.push(Stmt::Assign(Acc { var: 1, msb: dd.0, lsb: dd.1 }, vec![Acc { var: 0, msb: rr.0, lsb: rr.1 }]));
        } else {
            blocks.push(Stmt::Assign(Acc { var: 1, msb: dd.0, lsb: dd.1 }, vec![]));
        }
    }
    Module { inputs: vec![0], outputs: vec![1], inouts: vec![], widths: vec![w, w], blocks }
}

fn gen_child(rng: &mut Rng, opaque: bool, retained: bool, log: &mut Log) -> Module {
    if !opaque && !retained && rng.chance(1, 3) {
        log.count("child.slicer");
        let w = *rng.pick(&[2usize, 4, 8]);
        return gen_slicer(rng, w);
    }
    log.count("child.random");
    let nin = rng.range(1, 2) as usize;
    let nout = rng.range(1, 2) as usize;
    let nint = rng.below(2) as usize;
    let nio = if opaque && rng.chance(1, 2) { 1 } else { 0 };
    let mut widths = vec![];
    for _ in 0..nin + nout + nint + nio {
        widths.push(*rng.pick(&[1usize, 2, 4, 8, 8]));
    }
    let inputs: Vec<usize> = (0..nin).collect();
    let outputs: Vec<usize> = (nin..nin + nout).collect();
    let internal: Vec<usize> = (nin + nout..nin + nout + nint).collect();
    let inouts: Vec<usize> = (nin + nout + nint..nin + nout + nint + nio).collect();
    let mut readable = inputs.clone();
    readable.extend(&internal);
    readable.extend(&inouts);
    if rng.chance(1, 4) {
        readable.extend(&outputs);
    }
    let mut writable = outputs.clone();
    writable.extend(&internal);
    // rank: inputs < internal < outputs
    let rank: Vec<usize> = (0..widths.len()).map(|v| if inputs.contains(&v) { 0 } else if outputs.contains(&v) { 100 + v } else { 1 + v }).collect();
    let forward = *rng.pick(&[60u64, 85, 95]);
    let g = GenCtx { widths: widths.clone(), readable, writable, rank, forward, rec: opaque && rng.chance(1, 3) };
    let blocks = if retained {
        let mut b = gen_retained_blocks(rng, &g, log);
        let nb = rng.below(2);
        b.extend(gen_blocks(rng, &g, nb, log));
        b
    } else {
        let nb = rng.range(1, 3);
        gen_blocks(rng, &g, nb, log)
    };
    Module { inputs, outputs, inouts, widths, blocks }
}

fn gen_design(rng: &mut Rng, opaque: bool, retained: bool, log: &mut Log) -> Design {
    let pure = retained && !opaque && rng.chance(1, 2);
    let nchild = if pure { 0 } else if opaque { rng.range(1, 2) } else { *rng.pick(&[0u64, 0, 1, 1, 1, 2]) } as usize;
    let children: Vec<Module> = (0..nchild).map(|_| { let r = retained && rng.chance(1, 3); gen_child(rng, opaque, r, log) }).collect();
    let nvar = rng.range(3, 5) as usize;
    // top: var 0 = input port, var 1 = output port, the rest internal
    let mut widths = vec![8usize; nvar + 2];
    for w in widths.iter_mut().skip(2) {
        if rng.chance(1, 4) {
            *w = *rng.pick(&[1usize, 2, 4]);
        }
    }
    let mut insts = vec![];
    let ninst = if children.is_empty() { 0 } else { rng.range(1, 2) as usize };
    for _ in 0..ninst {
        let ch = rng.below(children.len() as u64) as usize;
        let c = &children[ch];
        let mut conns = vec![];
        let conn = |rng: &mut Rng, widths: &mut Vec<usize>, w: usize, must_internal: bool| -> Acc {
            // a slice of width w of some top variable (whole variable preferred); may add a variable
            let cands: Vec<usize> = (if must_internal { 2 } else { 0 }..widths.len()).filter(|v| widths[*v] >= w && (!must_internal || *v >= 2) && *v != 1).collect();
            if cands.is_empty() || rng.chance(1, 5) {
                widths.push(w);
                return Acc { var: widths.len() - 1, msb: w - 1, lsb: 0 };
            }
            let var = *rng.pick(&cands);
            let same: Vec<usize> = cands.iter().copied().filter(|v| widths[*v] == w).collect();
            let var = if !same.is_empty() && rng.chance(2, 3) { *rng.pick(&same) } else { var };
            let lsb = rng.below((widths[var] - w + 1) as u64) as usize;
            Acc { var, msb: lsb + w - 1, lsb }
        };
        for &p in &c.inputs {
            let acc = conn(rng, &mut widths, c.widths[p], false);
            conns.push(Conn { kind: 'i', port: p, acc });
        }
        for &p in &c.outputs {
            let acc = conn(rng, &mut widths, c.widths[p], true);
            conns.push(Conn { kind: 'o', port: p, acc });
        }
        for &p in &c.inouts {
            let w = c.widths[p];
            widths.push(w);
            conns.push(Conn { kind: 'x', port: p, acc: Acc { var: widths.len() - 1, msb: w - 1, lsb: 0 } });
        }
        let child = if opaque && rng.chance(1, 3) {
            log.count("inst.sv");
            None
        } else {
            log.count("inst.module");
            Some(ch)
        };
        insts.push(Inst { child, conns });
    }
    let readable: Vec<usize> = (0..widths.len()).filter(|v| *v != 1).collect();
    let writable: Vec<usize> = (1..widths.len()).collect();
    let rank: Vec<usize> = (0..widths.len()).map(|v| if v == 0 { 0 } else if v == 1 { 1000 } else { v }).collect();
    let forward = if retained { 95 } else { *rng.pick(&[60u64, 85, 95, 95]) };
    let g = GenCtx { widths: widths.clone(), readable, writable, rank, forward, rec: opaque && rng.chance(1, 2) };
    let blocks = if retained {
        let mut b = gen_retained_blocks(rng, &g, log);
        let nb = if pure { 0 } else { rng.below(3) };
        b.extend(gen_blocks(rng, &g, nb, log));
        if rng.chance(1, 2) {
            b.reverse();
        }
        b
    } else {
        let nb = rng.range(1, 5);
        gen_blocks(rng, &g, nb, log)
    };
    Design { children, top: Module { inputs: vec![0], outputs: vec![1], inouts: vec![], widths, blocks }, insts }
}

// ------------------------------------------------------------------------------------------------
// driver
// ------------------------------------------------------------------------------------------------

fn run_one(d: &Design, log: &mut Log, dump: Option<&std::path::Path>) {
    let op = format!("design {}", design_s(d));
    let code = design_v(d);
    if let Some(p) = dump {
        let _ = std::fs::write(p, &code);
    }
    let r = std::panic::catch_unwind(|| analyze(&code));
    let imp = match r {
        Err(_) => {
            log.count("impl.panic");
            "panic".to_string()
        }
        Ok(r) if r.parse_err => {
            log.count("impl.parse_err");
            "err".to_string()
        }
        Ok(r) => {
            for k in &r.other {
                log.count(&format!("diag.{k}"));
            }
            log.count(if r.loops > 0 { "impl.loop" } else { "impl.noloop" });
            format!("loop={}", (r.loops > 0) as u8)
        }
    };
    let hi = reference(d, false);
    let lo = reference(d, true);
    log.count(if hi { "ref.cyclic" } else { "ref.acyclic" });
    if log.samples.len() < 3 {
        log.sample(op.clone());
    }
    log.push3(op, imp, format!("ref={} lo={}", hi as u8, lo as u8));
}

pub fn main(opts: &Opts) -> i32 {
    std::panic::set_hook(Box::new(|_| {}));
    let out = opts.out();
    let mut log = Log::new();
    if let Some(f) = opts.get("file") {
        // development aid: analyze a Veryl file
        let code = std::fs::read_to_string(f).unwrap();
        let r = analyze(&code);
        println!("loops={} parse_err={} other={:?}", r.loops, r.parse_err, r.other);
        return 0;
    }
    if let Some(f) = opts.get("replay") {
        let text = std::fs::read_to_string(f).unwrap_or_default();
        for (n, line) in text.lines().enumerate() {
            let t: Vec<&str> = line.split_whitespace().collect();
            let d = if t.len() == 2 && t[0] == "design" { parse_sexp(t[1]).and_then(|e| design_p(&e)).filter(well_formed) } else { None };
            match d {
                Some(d) => {
                    let dump = opts.get("dump").map(|p| std::path::PathBuf::from(format!("{p}.{n}.veryl")));
                    run_one(&d, &mut log, dump.as_deref());
                }
                None => log.push3(line.to_string(), "bad-op".into(), "?".into()),
            }
        }
        log.write(&out);
        return 0;
    }
    let mut rng = Rng::new(opts.seed());
    let n = opts.num("n", 800);
    for k in 0..n {
        let opaque = k % 8 == 7;
        let retained = k % 3 == 1;
        if retained {
            log.count("stream.retained");
        }
        let d = gen_design(&mut rng, opaque, retained, &mut log);
        debug_assert!(well_formed(&d));
        if k % 97 == 96 {
            // malformed stream: both sides must reject the line
            log.count("stream.malformed");
            let mut text = design_s(&d);
            match rng.below(3) {
                0 => {
                    text.pop();
                }
                1 => text = text.replacen("(W,", "(V,", 1),
                _ => text = text.replacen("(I", "(?", 1),
            }
            let op = format!("design {text}");
            let parsed = parse_sexp(&text).and_then(|e| design_p(&e)).filter(well_formed);
            log.push3(op, if parsed.is_none() { "bad-op".into() } else { "accepted".into() }, "?".into());
            continue;
        }
        log.count(if opaque { "stream.opaque" } else { "stream.model" });
        log.count(&format!("children.{}", d.children.len()));
        log.count(&format!("insts.{}", d.insts.len()));
        run_one(&d, &mut log, None);
    }
    log.add("sequences", n);
    log.write(&out);
    0
}
