//! `/repo/crates/formatter/src/formatter.rs` itself (not a copy), compiled against the tracing
//! aligner wrapper `hx-align-shim` (which delegates every call to the real `veryl-aligner`).
//! `dom_fmt` checks on every input that this build produces byte-identical output to the real
//! `veryl_formatter::Formatter`, and uses the recorded aligner call trace.
#[path = "/repo/crates/formatter/src/formatter.rs"]
pub mod formatter;
pub use formatter::Formatter;
