//! Tracing wrapper around the REAL `veryl-aligner` with the same public API (`Aligner`, `Align`,
//! `Location`, `PadKind`, `align_kind`).
//!
//! `hx-fmt-traced` compiles /repo's `formatter.rs` against this crate under the name `veryl_aligner`.
//! Every method call is (1) applied to a real `veryl_aligner::Aligner` kept in a thread-local and
//! (2) recorded as one trace token. Nothing is computed here: `additions`, `last_location` and
//! `any_enabled` are read back from the real object. The formatter also inserts into the public map
//! `Aligner::additions` directly; those entries are moved into the real aligner (and recorded as
//! `a:` tokens) right before `gather_additions`, which is where the real code first reads them.
//!
//! Trace tokens (numbers lower-case hex; LOC = `line.column.length.source.dup`, source = small id
//! interned per trace, dup = `-` or index; K = alignment kind index; PK = `a`|`b`|`f`):
//!   `s.K` `sb.K` `sf.K`  Align::start_item / _break_gated / _flat_gated
//!   `f.K`                Align::finish_item            `F`  Aligner::finish_item
//!   `G`                  Aligner::finish_group         `g.K` Aligner::finish_group_for
//!   `c`                  Aligner::clear_had_item_in_statement   `c.K` Align::clear_had_item_in_statement
//!   `e`                  Aligner::note_statement_end   `e.K.LINE` Align::note_statement_end(line)
//!   `t:LOC`              Aligner::token                `d:LOC` Aligner::duplicated_token (dup set)
//!   `D.K:LOC`            Align::duplicated_token
//!   `p.N`                Aligner::space(n)             `w.K.N` Align::add_width
//!   `dl.K:LOC`           Align::dummy_location         `dt.K:LOC` Align::dummy_token
//!   `x.K` `y.K` `X` `Y`  disable/enable_auto_finish(_for)
//!   `a:LOC:W:PK`         entry present in `Aligner::additions` before `gather_additions`
//!   `A`                  Aligner::gather_additions
use std::cell::RefCell;
use std::collections::HashMap;
pub use real_aligner::{Location, PadKind, align_kind};
use veryl_parser::veryl_token::{TokenSource, VerylToken};

thread_local! {
    static REAL: RefCell<real_aligner::Aligner> = RefCell::new(real_aligner::Aligner::new());
    static TRACE: RefCell<Vec<String>> = const { RefCell::new(Vec::new()) };
    static SOURCES: RefCell<Vec<TokenSource>> = const { RefCell::new(Vec::new()) };
}

fn rec(s: String) {
    TRACE.with(|t| t.borrow_mut().push(s));
}

fn source_id(s: &TokenSource) -> usize {
    SOURCES.with(|v| {
        let mut v = v.borrow_mut();
        if let Some(i) = v.iter().position(|x| x == s) {
            i
        } else {
            v.push(*s);
            v.len() - 1
        }
    })
}

/// `line.column.length.source.dup`
pub fn loc_str(l: &Location) -> String {
    let dup = match l.duplicated {
        None => "-".to_string(),
        Some(i) => format!("{:x}", i),
    };
    format!("{:x}.{:x}.{:x}.{:x}.{}", l.line, l.column, l.length, source_id(&l.source), dup)
}

pub fn pad_kind_str(k: PadKind) -> &'static str {
    match k {
        PadKind::Always => "a",
        PadKind::IfBreak => "b",
        PadKind::IfFlat => "f",
    }
}

/// The trace recorded since the last `Aligner::new()`.
pub fn take_trace() -> Vec<String> {
    TRACE.with(|t| std::mem::take(&mut *t.borrow_mut()))
}

/// The sources interned by `loc_str` since the last `Aligner::new()` (index = id in the trace).
pub fn sources() -> Vec<TokenSource> {
    SOURCES.with(|v| v.borrow().clone())
}

pub struct Align {
    k: usize,
    pub last_location: Option<Location>,
}

impl Align {
    fn with<R>(&mut self, f: impl FnOnce(&mut real_aligner::Align) -> R) -> R {
        let k = self.k;
        REAL.with(|r| {
            let mut r = r.borrow_mut();
            let ret = f(&mut r.aligns[k]);
            self.last_location = r.aligns[k].last_location;
            ret
        })
    }
    pub fn clear_had_item_in_statement(&mut self) {
        rec(format!("c.{:x}", self.k));
        self.with(|a| a.clear_had_item_in_statement());
    }
    pub fn finish_item(&mut self) {
        rec(format!("f.{:x}", self.k));
        self.with(|a| a.finish_item());
    }
    pub fn start_item(&mut self) {
        rec(format!("s.{:x}", self.k));
        self.with(|a| a.start_item());
    }
    pub fn start_item_break_gated(&mut self) {
        rec(format!("sb.{:x}", self.k));
        self.with(|a| a.start_item_break_gated());
    }
    pub fn start_item_flat_gated(&mut self) {
        rec(format!("sf.{:x}", self.k));
        self.with(|a| a.start_item_flat_gated());
    }
    pub fn note_statement_end(&mut self, line: u32) {
        rec(format!("e.{:x}.{:x}", self.k, line));
        self.with(|a| a.note_statement_end(line));
    }
    pub fn dummy_location(&mut self, x: Location) {
        rec(format!("dl.{:x}:{}", self.k, loc_str(&x)));
        self.with(|a| a.dummy_location(x));
    }
    pub fn dummy_token(&mut self, x: &VerylToken) {
        let loc: Location = x.token.into();
        rec(format!("dt.{:x}:{}", self.k, loc_str(&loc)));
        self.with(|a| a.dummy_token(x));
    }
    pub fn duplicated_token(&mut self, x: &VerylToken, i: usize) {
        let mut loc: Location = x.token.into();
        loc.duplicated = Some(i);
        rec(format!("D.{:x}:{}", self.k, loc_str(&loc)));
        self.with(|a| a.duplicated_token(x, i));
    }
    pub fn add_width(&mut self, width: u32) {
        rec(format!("w.{:x}.{:x}", self.k, width));
        self.with(|a| a.add_width(width));
    }
}

pub struct Aligner {
    pub additions: HashMap<Location, (u32, PadKind)>,
    pub aligns: [Align; align_kind::COUNT],
}

impl Default for Aligner {
    fn default() -> Self {
        Self::new()
    }
}

impl Aligner {
    pub fn new() -> Self {
        REAL.with(|r| *r.borrow_mut() = real_aligner::Aligner::new());
        TRACE.with(|t| t.borrow_mut().clear());
        SOURCES.with(|t| t.borrow_mut().clear());
        Aligner {
            additions: HashMap::new(),
            aligns: std::array::from_fn(|k| Align { k, last_location: None }),
        }
    }

    fn with<R>(&mut self, f: impl FnOnce(&mut real_aligner::Aligner) -> R) -> R {
        REAL.with(|r| {
            let mut r = r.borrow_mut();
            let ret = f(&mut r);
            for (i, a) in self.aligns.iter_mut().enumerate() {
                a.last_location = r.aligns[i].last_location;
            }
            ret
        })
    }

    pub fn token(&mut self, x: &VerylToken) {
        let loc: Location = x.token.into();
        rec(format!("t:{}", loc_str(&loc)));
        self.with(|r| r.token(x));
    }
    pub fn duplicated_token(&mut self, x: &VerylToken, idx: usize) {
        let mut loc: Location = x.token.into();
        loc.duplicated = Some(idx);
        rec(format!("d:{}", loc_str(&loc)));
        self.with(|r| r.duplicated_token(x, idx));
    }
    pub fn note_statement_end(&mut self) {
        rec("e".into());
        self.with(|r| r.note_statement_end());
    }
    pub fn space(&mut self, x: usize) {
        rec(format!("p.{:x}", x));
        self.with(|r| r.space(x));
    }
    pub fn finish_group(&mut self) {
        rec("G".into());
        self.with(|r| r.finish_group());
    }
    pub fn finish_item(&mut self) {
        rec("F".into());
        self.with(|r| r.finish_item());
    }
    pub fn finish_group_for(&mut self, kind: usize) {
        rec(format!("g.{:x}", kind));
        self.with(|r| r.finish_group_for(kind));
    }
    pub fn clear_had_item_in_statement(&mut self) {
        rec("c".into());
        self.with(|r| r.clear_had_item_in_statement());
    }
    pub fn gather_additions(&mut self) {
        // entries the caller put into the public map directly: hand them to the real aligner first
        let mut direct: Vec<(Location, (u32, PadKind))> = self.additions.drain().collect();
        direct.sort_by_key(|(l, _)| (l.line, l.column, l.length, l.duplicated));
        for (l, (w, k)) in &direct {
            rec(format!("a:{}:{:x}:{}", loc_str(l), w, pad_kind_str(*k)));
        }
        rec("A".into());
        let adds = self.with(|r| {
            for (l, v) in direct {
                r.additions.insert(l, v);
            }
            r.gather_additions();
            r.additions.clone()
        });
        self.additions = adds;
    }
    pub fn enable_auto_finish(&mut self) {
        rec("Y".into());
        self.with(|r| r.enable_auto_finish());
    }
    pub fn disable_auto_finish(&mut self) {
        rec("X".into());
        self.with(|r| r.disable_auto_finish());
    }
    pub fn enable_auto_finish_for(&mut self, kind: usize) {
        rec(format!("y.{:x}", kind));
        self.with(|r| r.enable_auto_finish_for(kind));
    }
    pub fn disable_auto_finish_for(&mut self, kind: usize) {
        rec(format!("x.{:x}", kind));
        self.with(|r| r.disable_auto_finish_for(kind));
    }
    pub fn any_enabled(&self) -> bool {
        REAL.with(|r| r.borrow().any_enabled())
    }
}
