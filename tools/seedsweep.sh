#!/bin/bash
# usage: seedsweep.sh "<seeds>" C01 C02 ...  — runs each check with each seed, logs VIOLATION lines
seeds=$1; shift
cd /verif
for s in $seeds; do
  for c in "$@"; do
    start=$(date +%s)
    VERIF_SEED=$s ./check "$c" --tier quick > .cache/sweep_${c}_$s.log 2>&1; rc=$?
    echo "seed=$s $c rc=$rc $(( $(date +%s) - start ))s $(grep -c '^VIOLATION' .cache/sweep_${c}_$s.log) violations"
    grep -E "^VIOLATION" .cache/sweep_${c}_$s.log | head -3
  done
done
